/* C09 harness: replays a history of public API calls on the real library (ASan/UBSan/LSan, asserts on).
 *
 * stdin: one call per line, arguments symbolic (see tools/props/c09.py for the generator).
 * stdout, per call:   "> <call>"   flushed BEFORE the call is made (a crash is attributed to it)
 *                     "< <return class> | <state summary>"   after it returned.
 * A call that names an empty handle slot (or needs a live decoder when there is none) is not a call
 * with a valid object pointer: it is answered "< skip" and nothing is executed.
 * At end of input everything still held (iterators, user references, decoder references) is released by
 * explicit, printed calls, so that the transcript is a complete history ending with the last release;
 * the process then exits normally and LeakSanitizer reports anything still allocated.
 *
 * The state summary reads decoder_t/acmod_t/search_module_t fields through the installed headers only.
 */
#include "common.h"
#include <soundswallower/acmod.h>
#include <soundswallower/ckd_alloc.h>
#include <soundswallower/alignment.h>
#include <soundswallower/config_defs.h>
#include <soundswallower/configuration.h>
#include <soundswallower/decoder.h>
#include <soundswallower/err.h>
#include <soundswallower/fsg_model.h>
#include <soundswallower/lattice.h>
#include <soundswallower/search_module.h>
#include <soundswallower/state_align_search.h>

#define NSLOT 6
static decoder_t *D;          /* the decoder (NULL = no live reference held by the history) */
static int Drefs;             /* references the history holds on D */
static seg_iter_t *SEG[NSLOT];
static hyp_iter_t *HYP[NSLOT];
static alignment_iter_t *ALI[NSLOT];
static lattice_t *LAT[NSLOT];   /* user references taken with lattice_retain */
static alignment_t *ALN[NSLOT]; /* user references taken with alignment_retain */
static const char *REPO = "/repo";
static char pathbuf[4][1024];

static int16 *goraw; static size_t gon;

static const char *repo_path(int i, const char *rel)
{
    snprintf(pathbuf[i], sizeof(pathbuf[i]), "%s/%s", REPO, rel);
    return pathbuf[i];
}

static void load_audio(void)
{
    FILE *f = fopen(repo_path(0, "tests/data/goforward.raw"), "rb");
    long sz;
    if (!f) { fprintf(stderr, "harness: cannot open goforward.raw\n"); exit(3); }
    fseek(f, 0, SEEK_END); sz = ftell(f); fseek(f, 0, SEEK_SET);
    gon = sz / 2;
    goraw = (int16 *)malloc(sz);
    if (fread(goraw, 2, gon, f) != gon) exit(3);
    fclose(f);
}

/* symbolic audio: exactly n samples in a fresh heap block (so that an over-read is seen by ASan) */
static int16 *make_audio(const char *clip, size_t off, size_t n)
{
    int16 *b = (int16 *)malloc(n ? n * 2 : 1);
    size_t i;
    uint64_t s = 12345 + off;
    for (i = 0; i < n; i++) {
        if (!strcmp(clip, "go")) b[i] = goraw[(off + i) % gon];
        else if (!strcmp(clip, "zero")) b[i] = 0;
        else if (!strcmp(clip, "dc")) b[i] = 1000;
        else if (!strcmp(clip, "noise")) b[i] = (int16)(vf_rand(&s) & 0xffff);
        else if (!strcmp(clip, "quiet")) b[i] = (int16)((int)(vf_rand(&s) % 7) - 3);
        else if (!strcmp(clip, "sq")) b[i] = ((off + i) / 40) % 2 ? 32767 : -32768;
        else if (!strcmp(clip, "imp")) b[i] = (i % 997 == 0) ? 32767 : 0;
        else b[i] = (int16)(goraw[(off + i) % gon] / 64);
    }
    return b;
}

static const char *jsgf_text(const char *k)
{
    if (!strcmp(k, "go")) return "#JSGF V1.0; grammar g; public <s> = go forward ten meters;";
    if (!strcmp(k, "move")) return "#JSGF V1.0; grammar g; public <m> = go <d> <n> [meter | meters]; <d> = forward | backward; <n> = one | two | ten;";
    if (!strcmp(k, "opt")) return "#JSGF V1.0; grammar g; public <s> = [go] [forward] [ten] [meters];";
    if (!strcmp(k, "star")) return "#JSGF V1.0; grammar g; public <s> = (go | forward | ten | meters)*;";
    if (!strcmp(k, "plus")) return "#JSGF V1.0; grammar g; public <s> = (go forward)+ ten;";
    if (!strcmp(k, "nullonly")) return "#JSGF V1.0; grammar g; public <s> = <NULL>;";
    if (!strcmp(k, "grp")) return "#JSGF V1.0; grammar g; public <s> = (go | stop) [forward] /2/ ten {tag} | /0.5/ hello;";
    if (!strcmp(k, "long")) return "#JSGF V1.0; grammar g; public <s> = go forward ten meters go forward ten meters go forward ten meters;";
    if (!strcmp(k, "empty")) return "";
    if (!strcmp(k, "syntax")) return "#JSGF V1.0; grammar g; public <s> = go forward";
    if (!strcmp(k, "garbage")) return "\x01\xff this is not a grammar ((((";
    if (!strcmp(k, "nopublic")) return "#JSGF V1.0; grammar g; <s> = go forward;";
    if (!strcmp(k, "oov")) return "#JSGF V1.0; grammar g; public <s> = go zzyzxqq;";
    return "#JSGF V1.0; grammar g; public <s> = hello;";
}

static const char *word_text(const char *k)
{
    if (!strcmp(k, "known")) return "forward";
    if (!strcmp(k, "alt")) return "forward(2)";
    if (!strcmp(k, "filler")) return "<sil>";
    if (!strcmp(k, "unknown")) return "zzyzxqq";
    if (!strcmp(k, "empty")) return "";
    if (!strcmp(k, "paren")) return "(";
    if (!strcmp(k, "long")) return "aaaaaaaaaaaaaaaaaaaaaaaaaaaaaaaaaaaaaaaaaaaaaaaaaaaaaaaaaaaaaaaaaaaaaaaaaaaaaaaaaaaaaaaaaaaaaaaaaaaaaaaaaaaaaaaaaaaaaaaaaaaaaaaaaaaaaaaaaaaaaaaaaaaaaaaa";
    return k; /* new0, new1, ... literal new words */
}

static const char *phones_text(const char *k)
{
    if (!strcmp(k, "ok")) return "G OW";
    if (!strcmp(k, "one")) return "B";
    if (!strcmp(k, "sil")) return "SIL";
    if (!strcmp(k, "spaces")) return "  G   OW  ";
    if (!strcmp(k, "empty")) return "";
    if (!strcmp(k, "blank")) return "   ";
    if (!strcmp(k, "bad")) return "G QQ";
    if (!strcmp(k, "long")) return "G OW F AO R W ER D T EH N M IY T ER Z G OW F AO R W ER D T EH N M IY T ER Z";
    return "AH";
}

static const char *aligntext(const char *k)
{
    if (!strcmp(k, "go")) return "go forward ten meters";
    if (!strcmp(k, "one")) return "go";
    if (!strcmp(k, "ws")) return "  go \t forward\n";
    if (!strcmp(k, "empty")) return "";
    if (!strcmp(k, "blank")) return "   ";
    if (!strcmp(k, "oov")) return "go zzyzxqq";
    if (!strcmp(k, "rep")) return "go go go go go go go go";
    return "hello";
}

static const char *cmn_text(const char *k)
{
    if (!strcmp(k, "ok")) return "41.0,-5.3,-0.1,5.4,-1.2,4.0,2.7,-3.4,-7.2,-3.9,-3.6,-1.8,-1.2";
    if (!strcmp(k, "short")) return "40,1";
    if (!strcmp(k, "empty")) return "";
    if (!strcmp(k, "long")) return "1,2,3,4,5,6,7,8,9,10,11,12,13,14,15,16,17,18,19,20";
    if (!strcmp(k, "junk")) return "abc,,;;";
    return "0";
}

static config_t *make_config(const char *gram, int argc, char **argv)
{
    config_t *c = config_init(NULL);
    int i;
    config_set_str(c, "loglevel", "FATAL");
    config_set_str(c, "hmm", repo_path(1, !strcmp(gram, "badhmm") ? "model/nonexistent" : "model/en-us"));
    if (!strcmp(gram, "jsgf")) config_set_str(c, "jsgf", repo_path(2, "tests/data/goforward.gram"));
    else if (!strcmp(gram, "fsg")) config_set_str(c, "fsg", repo_path(2, "tests/data/goforward.fsg"));
    else if (!strcmp(gram, "nojsgf")) config_set_str(c, "jsgf", repo_path(2, "tests/data/nonexistent.gram"));
    else if (!strcmp(gram, "nofsg")) config_set_str(c, "fsg", repo_path(2, "tests/data/nonexistent.fsg"));
    for (i = 0; i + 1 < argc; i += 2) {
        if (!strcmp(argv[i], "dict")) config_set_str(c, "dict", repo_path(3, argv[i + 1]));
        else config_set_str(c, argv[i], argv[i + 1]);
    }
    return c;
}

/* the reuse test of decoder_alignment (decoder.c:746-752), evaluated before the call */
static int al_reuse(void)
{
    return D && D->align && ((state_align_search_t *)D->align)->frame == D->acmod->output_frame;
}

static int count(void **a) { int i, n = 0; for (i = 0; i < NSLOT; i++) n += a[i] != NULL; return n; }

static void state(void)
{
    if (D) {
        int st = D->acmod ? D->acmod->state : -1;
        printf(" | D=%d u=%c s=%d a=%d j=%d g=%d", D->refcount,
               st == ACMOD_IDLE ? 'i' : (st == ACMOD_ENDED ? 'e' : (st < 0 ? '?' : 's')),
               D->search != NULL, D->align != NULL, D->json_result != NULL,
               D->search && D->search->dag != NULL);
    } else
        printf(" | D=0");
    printf(" it=%d,%d,%d lr=%d ar=%d\n", count((void **)SEG), count((void **)HYP), count((void **)ALI),
           count((void **)LAT), count((void **)ALN));
    fflush(stdout);
}

static void touch_seg(seg_iter_t *s)
{
    int sf, ef; int32 a, l;
    const char *w = seg_iter_word(s);
    volatile size_t n = w ? strlen(w) : 0; (void)n;
    seg_iter_frames(s, &sf, &ef); seg_iter_frames(s, NULL, NULL);
    seg_iter_prob(s, &a, &l); seg_iter_prob(s, NULL, NULL);
}
static void touch_ali(alignment_iter_t *it)
{
    int st, du;
    const char *w = alignment_iter_name(it);
    volatile size_t n = w ? strlen(w) : 0; (void)n;
    alignment_iter_seg(it, &st, &du); alignment_iter_seg(it, NULL, NULL);
}
static void touch_lat(lattice_t *dag)
{
    latnode_iter_t *ni; int nn = 0;
    (void)lattice_n_frames(dag); (void)lattice_get_logmath(dag);
    for (ni = ps_latnode_iter(dag); ni; ni = ps_latnode_iter_next(ni)) {
        latnode_t *nd = ps_latnode_iter_node(ni);
        latlink_iter_t *li; int16 fef, lef; latlink_t *bl;
        const char *w = ps_latnode_word(dag, nd), *bw = ps_latnode_baseword(dag, nd);
        volatile size_t n = (w ? strlen(w) : 0) + (bw ? strlen(bw) : 0); (void)n;
        latnode_times(nd, &fef, &lef); ps_latnode_prob(dag, nd, &bl);
        for (li = ps_latnode_exits(nd); li; li = ps_latlink_iter_next(li)) {
            latlink_t *lk = ps_latlink_iter_link(li); int16 sf; latnode_t *src; int32 as;
            latlink_times(lk, &sf); ps_latlink_nodes(lk, &src);
            w = ps_latlink_word(dag, lk); bw = ps_latlink_baseword(dag, lk);
            n = (w ? strlen(w) : 0) + (bw ? strlen(bw) : 0);
            ps_latlink_pred(lk); ps_latlink_prob(dag, lk, &as);
        }
        for (li = ps_latnode_entries(nd); li; li = ps_latlink_iter_next(li)) (void)ps_latlink_iter_link(li);
        if (++nn > 100000) break;
    }
}

#define RET(...) do { fputs("< ", stdout); printf(__VA_ARGS__); state(); } while (0)
#define NEED_D if (!D) { RET("skip"); continue; }

static void do_line(char *line);

int main(int argc, char **argv)
{
    static char line[4096], copy[4096];
    int i;
    if (getenv("SS_REPO")) REPO = getenv("SS_REPO");
    (void)argc; (void)argv;
    err_set_loglevel(ERR_FATAL);
    load_audio();
    while (fgets(line, sizeof(line), stdin)) {
        char *w[16];
        int n;
        size_t L = strlen(line);
        while (L && (line[L - 1] == '\n' || line[L - 1] == '\r')) line[--L] = 0;
        if (!L) continue;
        strcpy(copy, line);
        n = vf_words(copy, w, 16);
        if (!n) continue;
        printf("> %s\n", line); fflush(stdout);

        if (!strcmp(w[0], "init") && n >= 2) {
            config_t *c; decoder_t *d;
            if (D) { RET("skip"); continue; }
            c = !strcmp(w[1], "null") ? NULL : make_config(w[1], n - 2, w + 2);
            d = decoder_init(c); /* consumes c, also on failure */
            if (d) { D = d; Drefs = 1; RET("ptr"); } else RET("null");
        } else if (!strcmp(w[0], "reinit") && n >= 2) {
            int r;
            NEED_D;
            if (!strcmp(w[1], "null")) r = decoder_reinit(D, NULL);
            else if (!strcmp(w[1], "same")) r = decoder_reinit(D, decoder_config(D));
            else r = decoder_reinit(D, make_config(w[1], n - 2, w + 2));
            RET(r == 0 ? "ok" : "err");
        } else if (!strcmp(w[0], "retain")) {
            NEED_D;
            decoder_retain(D); Drefs++; RET("ptr");
        } else if (!strcmp(w[0], "free")) {
            int r;
            NEED_D;
            r = decoder_free(D);
            if (--Drefs == 0) D = NULL;
            RET("rc=%d", r);
        } else if (!strcmp(w[0], "freenull")) {
            int r = decoder_free(NULL);
            decoder_t *p = decoder_retain(NULL);
            lattice_free(NULL); lattice_retain(NULL); alignment_free(NULL); alignment_retain(NULL);
            alignment_iter_next(NULL); alignment_iter_children(NULL); config_free(NULL);
            RET(r == 0 && p == NULL ? "ok" : "err");
        } else if (!strcmp(w[0], "cfg") && n >= 3) {
            config_t *c; const void *r = NULL;
            NEED_D;
            c = decoder_config(D);
            if (!strcmp(w[1], "str") && n >= 4) {
                const char *v = w[3];
                if (!strcmp(v, "NULL")) v = NULL;
                else if (!strcmp(v, "EMPTY")) v = "";
                else if (!strncmp(v, "@", 1)) v = repo_path(2, v + 1);
                r = config_set_str(c, w[2], v);
            } else if (!strcmp(w[1], "int") && n >= 4) r = config_set_int(c, w[2], atol(w[3]));
            else if (!strcmp(w[1], "float") && n >= 4) r = config_set_float(c, w[2], atof(w[3]));
            else if (!strcmp(w[1], "bool") && n >= 4) r = config_set_bool(c, w[2], atoi(w[3]));
            else if (!strcmp(w[1], "unset")) r = config_unset(c, w[2]);
            else if (!strcmp(w[1], "get")) {
                (void)config_typeof(c, w[2]); (void)config_int(c, w[2]); (void)config_float(c, w[2]);
                (void)config_str(c, w[2]); (void)config_bool(c, w[2]);
                r = config_get(c, w[2]);
            } else if (!strcmp(w[1], "json")) {
                const char *js = config_serialize_json(c);
                volatile size_t l = js ? strlen(js) : 0; (void)l;
                r = js;
            }
            RET(r ? "ptr" : "null");
        } else if (!strcmp(w[0], "start")) {
            int r; NEED_D; r = decoder_start_utt(D); RET(r == 0 ? "ok" : "err");
        } else if (!strcmp(w[0], "end")) {
            int r, f0; NEED_D; f0 = decoder_n_frames(D); r = decoder_end_utt(D);
            if (r == 0) RET("ok adv=%d", decoder_n_frames(D) != f0); else RET("err");
        } else if (!strcmp(w[0], "proc") && n >= 7) {
            /* proc i16|f32 clip off len no_search full_utt */
            size_t off = (size_t)atol(w[3]), len = (size_t)atol(w[4]), k;
            int ns = atoi(w[5]), fu = atoi(w[6]), r, f0;
            int16 *b;
            NEED_D;
            b = make_audio(w[2], off, len);
            f0 = decoder_n_frames(D);
            if (!strcmp(w[1], "f32")) {
                float32 *fb = (float32 *)malloc(len ? len * sizeof(float32) : 1);
                for (k = 0; k < len; k++) fb[k] = b[k] / 32768.0f;
                r = decoder_process_float32(D, fb, len, ns, fu);
                free(fb);
            } else
                r = decoder_process_int16(D, b, len, ns, fu);
            free(b);
            if (r < 0) RET("err"); else RET("n=%d adv=%d", r, decoder_n_frames(D) != f0);
        } else if (!strcmp(w[0], "nframes")) {
            NEED_D; RET("n=%d", decoder_n_frames(D));
        } else if (!strcmp(w[0], "hyp")) {
            int32 sc = 0; const char *h;
            NEED_D;
            h = atoi(n > 1 ? w[1] : "0") ? decoder_hyp(D, NULL) : decoder_hyp(D, &sc);
            if (h) { volatile size_t l = strlen(h); (void)l; }
            RET(h ? "ptr" : "null");
        } else if (!strcmp(w[0], "prob")) {
            int32 p; NEED_D; p = decoder_prob(D); RET(p == -1 ? "err" : "n=0");
        } else if (!strcmp(w[0], "seg") && n >= 2) {
            int k = atoi(w[1]);
            NEED_D;
            if (k < 0 || k >= NSLOT || SEG[k]) { RET("skip"); continue; }
            SEG[k] = decoder_seg_iter(D);
            if (SEG[k]) { touch_seg(SEG[k]); RET("ptr"); } else RET("null");
        } else if (!strcmp(w[0], "segnext") && n >= 2) {
            int k = atoi(w[1]);
            if (k < 0 || k >= NSLOT || !SEG[k]) { RET("skip"); continue; }
            SEG[k] = seg_iter_next(SEG[k]);
            if (SEG[k]) { touch_seg(SEG[k]); RET("ptr"); } else RET("null");
        } else if (!strcmp(w[0], "segfree") && n >= 2) {
            int k = atoi(w[1]);
            if (k < 0 || k >= NSLOT || !SEG[k]) { RET("skip"); continue; }
            seg_iter_free(SEG[k]); SEG[k] = NULL; RET("void");
        } else if (!strcmp(w[0], "nbest") && n >= 2) {
            int k = atoi(w[1]);
            NEED_D;
            if (k < 0 || k >= NSLOT || HYP[k]) { RET("skip"); continue; }
            HYP[k] = decoder_nbest(D);
            if (HYP[k]) { int32 sc; const char *h = hyp_iter_hyp(HYP[k], &sc); volatile size_t l = h ? strlen(h) : 0; (void)l; RET("ptr"); }
            else RET("null");
        } else if (!strcmp(w[0], "hypnext") && n >= 2) {
            int k = atoi(w[1]);
            if (k < 0 || k >= NSLOT || !HYP[k]) { RET("skip"); continue; }
            HYP[k] = hyp_iter_next(HYP[k]);
            if (HYP[k]) { const char *h = hyp_iter_hyp(HYP[k], NULL); volatile size_t l = h ? strlen(h) : 0; (void)l; RET("ptr"); }
            else RET("null");
        } else if (!strcmp(w[0], "hypfree") && n >= 2) {
            int k = atoi(w[1]);
            if (k < 0 || k >= NSLOT || !HYP[k]) { RET("skip"); continue; }
            hyp_iter_free(HYP[k]); HYP[k] = NULL; RET("void");
        } else if (!strcmp(w[0], "hypseg") && n >= 3) {
            /* hypseg <destination seg slot> <hyp slot> */
            int j = atoi(w[1]), k = atoi(w[2]);
            if (k < 0 || k >= NSLOT || !HYP[k] || j < 0 || j >= NSLOT || SEG[j]) { RET("skip"); continue; }
            SEG[j] = hyp_iter_seg(HYP[k]);
            if (SEG[j]) { touch_seg(SEG[j]); RET("ptr"); } else RET("null");
        } else if (!strcmp(w[0], "lattice")) {
            lattice_t *l; NEED_D; l = decoder_lattice(D);
            if (l) touch_lat(l);
            RET(l ? "ptr" : "null");
        } else if (!strcmp(w[0], "latbest")) {
            /* lattice_bestpath / posterior / hyp / seg_iter on the decoder's lattice */
            lattice_t *l; latlink_t *lk = NULL;
            NEED_D;
            l = decoder_lattice(D);
            if (l) {
                lk = lattice_bestpath(l, 1.0f / 20.0f);
                if (lk) {
                    const char *h; seg_iter_t *s;
                    lattice_posterior(l, 1.0f / 20.0f);
                    h = lattice_hyp(l, lk);
                    if (h) { volatile size_t q = strlen(h); (void)q; }
                    for (s = lattice_seg_iter(l, lk); s; s = seg_iter_next(s)) touch_seg(s);
                }
            }
            RET(l ? (lk ? "ptr" : "null") : "null");
        } else if (!strcmp(w[0], "latretain") && n >= 2) {
            int k = atoi(w[1]); lattice_t *l;
            NEED_D;
            if (k < 0 || k >= NSLOT || LAT[k]) { RET("skip"); continue; }
            l = decoder_lattice(D);
            if (l) { LAT[k] = lattice_retain(l); RET("ptr"); } else RET("null");
        } else if (!strcmp(w[0], "latwalk") && n >= 2) {
            int k = atoi(w[1]);
            if (k < 0 || k >= NSLOT || !LAT[k]) { RET("skip"); continue; }
            touch_lat(LAT[k]); RET("void");
        } else if (!strcmp(w[0], "latfree") && n >= 2) {
            int k = atoi(w[1]);
            if (k < 0 || k >= NSLOT || !LAT[k]) { RET("skip"); continue; }
            lattice_free(LAT[k]); LAT[k] = NULL; RET("void");
        } else if (!strcmp(w[0], "align")) {
            alignment_t *a; int ru; NEED_D; ru = al_reuse(); a = decoder_alignment(D);
            RET(a ? "ptr ru=%d" : "null ru=%d", ru);
        } else if (!strcmp(w[0], "alretain") && n >= 2) {
            int k = atoi(w[1]); alignment_t *a;
            NEED_D;
            if (k < 0 || k >= NSLOT || ALN[k]) { RET("skip"); continue; }
            { int ru = al_reuse();
            a = decoder_alignment(D);
            if (a) { ALN[k] = alignment_retain(a); RET("ptr ru=%d", ru); } else RET("null ru=%d", ru); }
        } else if (!strcmp(w[0], "alfree") && n >= 2) {
            int k = atoi(w[1]);
            if (k < 0 || k >= NSLOT || !ALN[k]) { RET("skip"); continue; }
            alignment_free(ALN[k]); ALN[k] = NULL; RET("void");
        } else if (!strcmp(w[0], "aliter") && n >= 4) {
            /* aliter <destination slot> <retained alignment slot | -1> words|phones|states */
            /* source -1 = the alignment owned by the decoder (decoder_alignment) */
            int j = atoi(w[1]), k = atoi(w[2]);
            alignment_t *a; int ru;
            if (k < -1 || k >= NSLOT || (k >= 0 && !ALN[k]) || (k < 0 && !D) || j < 0 || j >= NSLOT || ALI[j]) { RET("skip"); continue; }
            w[2] = w[3];
            ru = k >= 0 ? 0 : al_reuse();
            a = k >= 0 ? ALN[k] : decoder_alignment(D);
            if (!a) { RET("null al=0 ru=%d", ru); continue; }
            ALI[j] = !strcmp(w[2], "words") ? alignment_words(a)
                : (!strcmp(w[2], "phones") ? alignment_phones(a) : alignment_states(a));
            if (ALI[j]) { touch_ali(ALI[j]); RET("ptr al=1 ru=%d", ru); } else RET("null al=1 ru=%d", ru);
        } else if (!strcmp(w[0], "alinext") && n >= 2) {
            int k = atoi(w[1]);
            if (k < 0 || k >= NSLOT || !ALI[k]) { RET("skip"); continue; }
            ALI[k] = alignment_iter_next(ALI[k]);
            if (ALI[k]) { touch_ali(ALI[k]); RET("ptr"); } else RET("null");
        } else if (!strcmp(w[0], "alichild") && n >= 3) {
            /* alichild <destination slot> <parent slot> */
            int j = atoi(w[1]), k = atoi(w[2]);
            if (k < 0 || k >= NSLOT || !ALI[k] || j < 0 || j >= NSLOT || ALI[j]) { RET("skip"); continue; }
            ALI[j] = alignment_iter_children(ALI[k]);
            if (ALI[j]) { touch_ali(ALI[j]); RET("ptr"); } else RET("null");
        } else if (!strcmp(w[0], "aligoto") && n >= 3) {
            int k = atoi(w[1]);
            if (k < 0 || k >= NSLOT || !ALI[k]) { RET("skip"); continue; }
            ALI[k] = alignment_iter_goto(ALI[k], atoi(w[2]));
            if (ALI[k]) { touch_ali(ALI[k]); RET("ptr"); } else RET("null");
        } else if (!strcmp(w[0], "alifree") && n >= 2) {
            int k = atoi(w[1]);
            if (k < 0 || k >= NSLOT || !ALI[k]) { RET("skip"); continue; }
            alignment_iter_free(ALI[k]); ALI[k] = NULL; RET("void");
        } else if (!strcmp(w[0], "json") && n >= 2) {
            const char *j; int ru; NEED_D;
            ru = al_reuse();
            j = decoder_result_json(D, 0.5, atoi(w[1]));
            if (j) {
                size_t l = strlen(j);
                if (l < 2 || j[l - 1] != '\n' || j[0] != '{') { RET("badjson"); continue; }
            }
            RET(j ? "ptr ru=%d" : "null ru=%d", ru);
        } else if (!strcmp(w[0], "getcmn") && n >= 2) {
            const char *c; NEED_D; c = decoder_get_cmn(D, atoi(w[1]));
            if (c) { volatile size_t l = strlen(c); (void)l; }
            RET(c ? "ptr" : "null");
        } else if (!strcmp(w[0], "setcmn") && n >= 2) {
            int r; NEED_D; r = decoder_set_cmn(D, cmn_text(w[1])); RET(r == 0 ? "ok" : "err");
        } else if (!strcmp(w[0], "lookup") && n >= 2) {
            char *p; NEED_D; p = decoder_lookup_word(D, word_text(w[1]));
            if (p) { volatile size_t l = strlen(p); (void)l; ckd_free(p); RET("ptr"); } else RET("null");
        } else if (!strcmp(w[0], "addword") && n >= 4) {
            int r; NEED_D;
            r = decoder_add_word(D, word_text(w[1]), phones_text(w[2]), atoi(w[3]));
            RET(r >= 0 ? "n=0" : "err");
        } else if (!strcmp(w[0], "jsgf") && n >= 2) {
            int r; NEED_D; r = decoder_set_jsgf_string(D, jsgf_text(w[1])); RET(r == 0 ? "ok" : "err");
        } else if (!strcmp(w[0], "jsgffile") && n >= 2) {
            int r; NEED_D;
            r = decoder_set_jsgf_file(D, repo_path(2, !strcmp(w[1], "good") ? "tests/data/goforward.gram" : "tests/data/nonexistent.gram"));
            RET(r == 0 ? "ok" : "err");
        } else if (!strcmp(w[0], "fsg") && n >= 2) {
            /* decoder_set_fsg consumes the model (also when it fails) */
            fsg_model_t *f = NULL; int r; float lw;
            NEED_D;
            lw = (float)config_float(decoder_config(D), "lw");
            if (!strcmp(w[1], "file")) f = fsg_model_readfile(repo_path(2, "tests/data/goforward.fsg"), decoder_logmath(D), lw);
            else {
                int a, b, c2;
                f = fsg_model_init("h", decoder_logmath(D), lw, 3);
                a = fsg_model_word_add(f, "go"); b = fsg_model_word_add(f, !strcmp(w[1], "oov") ? "zzyzxqq" : "forward");
                fsg_model_trans_add(f, 0, 1, 0, a);
                fsg_model_trans_add(f, 1, 2, 0, b);
                if (!strcmp(w[1], "nulls")) {
                    fsg_model_null_trans_add(f, 0, 1, 0);
                    fsg_model_null_trans_add(f, 1, 2, -10);
                } else if (!strcmp(w[1], "loop")) {
                    c2 = fsg_model_word_add(f, "ten");
                    fsg_model_trans_add(f, 2, 0, -100, c2);
                }
                f->start_state = 0; f->final_state = 2;
            }
            if (!f) { RET("skip"); continue; }
            if (!strcmp(w[1], "shared")) {
                /* keep our own reference across the call and drop it afterwards */
                fsg_model_retain(f);
                r = decoder_set_fsg(D, f);
                fsg_model_free(f);
            } else
                r = decoder_set_fsg(D, f);
            RET(r == 0 ? "ok" : "err");
        } else if (!strcmp(w[0], "aligntext") && n >= 2) {
            int r; NEED_D; r = decoder_set_align_text(D, aligntext(w[1])); RET(r == 0 ? "ok" : "err");
        } else if (!strcmp(w[0], "times")) {
            double a, b, c; NEED_D;
            decoder_utt_time(D, &a, &b, &c); decoder_all_time(D, &a, &b, &c);
            (void)decoder_logmath(D); (void)decoder_fe(D); (void)decoder_feat(D);
            RET("void");
        } else {
            RET("bad-op");
        }
    }
    /* release whatever the history still holds, as explicit calls */
    for (i = 0; i < NSLOT; i++) {
        char buf[64];
        if (SEG[i]) { sprintf(buf, "segfree %d", i); do_line(buf); }
        if (HYP[i]) { sprintf(buf, "hypfree %d", i); do_line(buf); }
        if (ALI[i]) { sprintf(buf, "alifree %d", i); do_line(buf); }
    }
    for (i = 0; i < NSLOT; i++) {
        char buf[64];
        if (LAT[i]) { sprintf(buf, "latfree %d", i); do_line(buf); }
        if (ALN[i]) { sprintf(buf, "alfree %d", i); do_line(buf); }
    }
    while (D) do_line("free");
    free(goraw);
    printf("> exit\n< void | D=0 it=0,0,0 lr=0 ar=0\n");
    fflush(stdout);
    return 0;
}

/* closing calls issued by the harness itself at end of input */
static void do_line(char *line)
{
    char copy[64], *w[4];
    int n, k;
    strcpy(copy, line);
    n = vf_words(copy, w, 4);
    k = n > 1 ? atoi(w[1]) : 0;
    printf("> %s\n", line); fflush(stdout);
    if (!strcmp(w[0], "segfree")) { seg_iter_free(SEG[k]); SEG[k] = NULL; printf("< void"); }
    else if (!strcmp(w[0], "hypfree")) { hyp_iter_free(HYP[k]); HYP[k] = NULL; printf("< void"); }
    else if (!strcmp(w[0], "alifree")) { alignment_iter_free(ALI[k]); ALI[k] = NULL; printf("< void"); }
    else if (!strcmp(w[0], "latfree")) { lattice_free(LAT[k]); LAT[k] = NULL; printf("< void"); }
    else if (!strcmp(w[0], "alfree")) { alignment_free(ALN[k]); ALN[k] = NULL; printf("< void"); }
    else { int r = decoder_free(D); if (--Drefs == 0) D = NULL; printf("< rc=%d", r); }
    state();
}
