#!/usr/bin/env python3
"""prints the brief for an independent 'seeded breakage' agent for property <id> (coordinator helper)"""
import json, sys
pid = sys.argv[1]
n = sys.argv[2] if len(sys.argv) > 2 else "3"
wave = sys.argv[3] if len(sys.argv) > 3 else ""
import glob
avoid = ""
if wave:
    prev = []
    for f in sorted(glob.glob(f"/verif/seeded/{pid}-*m[0-9]*/meta.json")):
        m = json.load(open(f))
        prev.append("- " + (m.get("summary") or "").replace("\n", " ")[:300])
    if prev:
        avoid = ("\n\nAn earlier tester already delivered the following changes for this property; yours must be DIFFERENT "
                 "(other functions or other clauses of the property, other triggering conditions) — do not repeat or vary these:\n"
                 + "\n".join(prev) + "\n")
for l in open("/verif/properties.jsonl"):
    p = json.loads(l)
    if p["id"] == pid:
        break
wt = f"/tmp/mut-{pid.lower()}" + (sys.argv[3] if len(sys.argv) > 3 else "")
print(f"""You are a test engineer. You have your own scratch git worktree of the C library ReadAlongs/SoundSwallower (a small speech recogniser / forced aligner) at `{wt}` (work ONLY there; do not read or touch `/repo`'s working files or anything under `/verif`). The library builds with cmake: `cmake -S {wt} -B {wt}/_build -G Ninja -DCMAKE_BUILD_TYPE=RelWithDebInfo && cmake --build {wt}/_build && cmake --build {wt}/_build --target check` (test executables are EXCLUDE_FROM_ALL; the `check` target builds and runs them); then `ctest --test-dir {wt}/_build -j8 --timeout 900`. On the unmodified tree these 30 tests pass (about a dozen others fail in this offline sandbox and do not matter): lcase1-3, strcmp1-3, ucase1-3, test_acmod, test_acmod_grow, test_add_words, test_bitvec, test_byteorder, test_ckd_alloc, test_dict2pid, test_dict, test_endpointer, test_err, test_feat_fe, test_feat_live, test_fsg, test_hash_iter, test_jsgf, test_listelem_alloc, test_log_shifted, test_ptm_mgau, test_s3file, test_subvq, test_word_align. No network. Acoustic models are in `{wt}/model/en-us` and `fr-fr`, test audio (16 kHz int16 raw) and grammars in `{wt}/tests/data`, unit tests showing API usage in `{wt}/tests/unit`. The public headers are in `{wt}/include/soundswallower`.

Here is a semantic property the library is supposed to satisfy:

> **{p['title']}.** {p['statement']}
> (Quantifier: {p['quantifier']['text']})
> Code involved: {', '.join(p['anchors']['files'])}. Observed at: {', '.join(p['anchors'].get('observe_at', []))}.

Task: produce {n} different, realistic code changes (each a separate patch against the unmodified tree) that each BREAK this property while the library still compiles and all 30 tests listed above still pass. Each change must need something specific to manifest — a particular multi-step sequence of operations, an unusual input or size relation, a fault at a particular point, or two cooperating sites that each look fine alone — NOT something ordinary use would expose at once. Make them the kind of mistake a maintainer could plausibly introduce in a refactor, "optimisation" or clean-up (off-by-one at a boundary, a dropped branch for a rare case, a swapped comparison, a reset that is skipped on one path, a buffer sized from the wrong variable). Vary the site and the clause of the property that is broken. Do not break the property in a way that only shows as a crash on every use.

For each change i deliver in `{wt}/out/m<i>/`: `patch.diff` (`git diff` against HEAD; must apply with `git apply` to a clean tree), a demonstration `demo.c` (a small standalone C program using the library's headers that exits 0 on the unmodified library and non-zero — printing what went wrong — with the change; say exactly how to compile it against the built static library under `{wt}/_build` with include dirs `{wt}/include`, `{wt}/src` if internal headers are needed, and the build dir for config.h; link with -lm), and `meta.json` with fields: `property` ("{pid}"), `summary` (one sentence), `clause_broken` (which part of the property statement), `needs_to_manifest` (what specific sequence/input/condition is required), `files_changed`, `how_verified` (the commands you ran and their results). Verify all of it yourself: for each change apply it, rebuild, run ctest and confirm the 30 listed tests pass; build and run the demo (must fail); revert (`git checkout -- .`), rebuild, run the demo (must pass). Leave the worktree reverted to HEAD (clean `git status` apart from `_build/` and `out/`) when you finish. Keep the demos deterministic and fast (< 30 s). Report the summaries and paths in your final message.""" + avoid)
