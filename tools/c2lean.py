#!/usr/bin/env python3
"""c2lean — translator from a restricted C subset to Lean 4 definitions, driven by clang's typed AST.

The point (DESIGN 1.1, second leg, strongest form): a Lean definition that is *regenerated from the
current text of /repo on every run of a check*, so that the refinement theorem `translated = hand model`
(lean/SSVerif/Props/CxxXlate.lean) is re-checked against what the C code says now.

Input : `clang-14 -Xclang -ast-dump=json -Xclang -ast-dump-filter=<fn> -fsyntax-only` with the flags of
        vlib.cflags (macros are expanded, every implicit conversion is an ImplicitCastExpr node — the
        translator uses those nodes and never re-derives C's promotion rules).
Output: for every C function `f` two Lean definitions over `Int`, core Lean only:
          `f    : params → value`   the value computed (return value and every memory family written), in exact
                                    integer arithmetic with explicit wrap-around where C wraps;
          `f_ok : params → Bool`    "the C execution is defined": the conjunction, along the path taken, of one
                                    side condition per signed `+ - *`/negation (no overflow), division (divisor ≠ 0,
                                    not INT_MIN / -1), variable shift count, and "the loops end within `fuel`";
        plus one structurally recursive definition per loop (recursion on explicit fuel) for each of the two.
        Parameters, in this order: `fuel : Nat` (if the function has loops), `undef : Nat → Int` (if it has locals
        declared without initialiser), opaque external functions `ext_<g>`, then per C parameter either the integer
        itself or — for a pointer — the memory families reached through it (sorted by path), then globals.
        `translated = hand model` is proved in lean/SSVerif/Props/CxxXlate.lean for f, and `f_ok = true` under the
        range hypotheses the model's theorems assume.

Semantics of the output (what the translator assumes about C — the trusted base):
  * every integer value is a Lean `Int` lying in the range of its C type (LP64, plain `char` signed, as
    clang x86-64); values of parameters / memory reads are *assumed* to lie in the range of their type;
  * unsigned arithmetic wraps (`wrapU<n>`); conversions to a narrower/other-signed type wrap
    (`wrapU<n>` / `wrapS<n>`; the latter is implementation-defined in ISO C, modular in clang);
    conversions whose source range is contained in the target range are the identity;
  * signed `+ - *` and unary `-` are computed exactly in `Int` and the condition "result fits the type"
    is and-ed into `f_ok` (signed overflow is undefined behaviour: `f_ok = false` means the C execution
    is not defined / not modelled, the value of `f` is then meaningless); a condition that interval
    arithmetic over the operand *types* shows cannot fail (e.g. `-x` for an `int16` x) is not emitted;
    division / remainder by zero, `INT_MIN / -1`, shift counts outside `[0, width)` likewise clear `f_ok`;
    signed `/ %` truncate (`Int.tdiv`, `Int.tmod`);
  * `x << s` on a signed type is the two's-complement wrap of `x * 2^s` (clang's code generation, `shl`
    without `nsw`; the repository is built with -fno-sanitize=shift for this reason), `x >> s` is the
    arithmetic shift (floor division) — both implementation-defined/undefined in ISO C, fixed by clang;
  * memory: every lvalue reached from a pointer parameter is named by its *access path* (field names +
    index expressions), e.g. `hmm->ctx->tp[t][0][k]` is `hmm_ctx_tp t 0 k`; a path family becomes a
    function parameter `Int → … → Int`, a write rebinds the family (`upd1/2/3`) and every family written
    anywhere in the function is returned.  Distinct families are assumed not to overlap (distinct
    fields / distinct arrays do not alias) and a pointer local keeps one base object;
  * a local read before it is assigned yields `undef k` (an arbitrary function parameter), so a theorem
    quantified over `undef` shows the result does not depend on it;
  * `& | ^` act on the two's-complement bit patterns (Prelude `bitAnd/bitOr/bitXor`), `~x` is `-x-1` / `MAX-x`;
  * a prefix `++/--` inside an expression is hoisted in front of the statement, a postfix one behind it (an
    object modified and also mentioned elsewhere in the same expression is an error: unsequenced in C);
  * a call of a translated function is hoisted in front of the statement (not allowed under `&& || ?:`);
    calls listed in `ignore_calls` (logging) are dropped, calls listed in `opaque_calls` become an arbitrary
    function parameter of their integer arguments; `p == NULL` for a pointer stored in memory reads a 0/1
    family `<path>_isnull`; a pointer cast gives a separate family `<path>_as_<type>` (views not related);
  * loops run on explicit fuel (an inner loop gets the fuel remaining in the enclosing one); running out of
    fuel clears `f_ok` (the value function then returns the state reached).
Anything outside the subset raises XlateError naming the construct and the source line.
"""
import json, re, subprocess, sys
from pathlib import Path
sys.path.insert(0, str(Path(__file__).resolve().parent))
import vlib


class XlateError(vlib.BuildError):
    pass


# ----------------------------------------------------------------------------------------------
# types

INT_TYPES = {
    "char": (True, 8), "signed char": (True, 8), "unsigned char": (False, 8),
    "short": (True, 16), "unsigned short": (False, 16),
    "int": (True, 32), "unsigned int": (False, 32),
    "long": (True, 64), "unsigned long": (False, 64),
    "long long": (True, 64), "unsigned long long": (False, 64),
    "_Bool": (False, 1),
}
# typedef names the repository uses for integers (only needed where clang does not print the desugared
# type, i.e. never for a value that is read or written: those nodes carry desugaredQualType)
TYPEDEFS = {"int8": "signed char", "uint8": "unsigned char", "int16": "short", "uint16": "unsigned short",
            "int32": "int", "uint32": "unsigned int", "int64": "long", "uint64": "unsigned long",
            "size_t": "unsigned long"}


class Ty:
    def __init__(self, kind, signed=None, bits=None, text=""):
        self.kind, self.signed, self.bits, self.text = kind, signed, bits, text   # kind: int | ptr | array | other

    @property
    def lo(self):
        return -(1 << (self.bits - 1)) if self.signed else 0

    @property
    def hi(self):
        return (1 << (self.bits - 1)) - 1 if self.signed else (1 << self.bits) - 1

    def __repr__(self):
        return f"{'s' if self.signed else 'u'}{self.bits}" if self.kind == "int" else f"<{self.kind}:{self.text}>"


def strip_quals(t):
    t = re.sub(r"\b(const|volatile|register|restrict|__restrict)\b", " ", t)
    return re.sub(r"\s+", " ", t).strip()


def parse_type(tnode):
    """type of an AST node (dict with qualType / desugaredQualType)"""
    if tnode is None:
        return Ty("other", text="?")
    t = strip_quals(tnode.get("desugaredQualType") or tnode.get("qualType", ""))
    if t.endswith("*"):
        return Ty("ptr", text=t)
    if t.endswith("]"):
        m = re.search(r"\[(\d*)\]$", t)
        return Ty("array", text=t, bits=int(m.group(1)) if m and m.group(1) else None)
    t = TYPEDEFS.get(t, t)
    if t in INT_TYPES:
        s, b = INT_TYPES[t]
        return Ty("int", s, b, t)
    if t.startswith("enum "):
        return Ty("int", False, 32, t)     # clang: enums without negative constants have type unsigned int
    return Ty("other", text=t)


# ----------------------------------------------------------------------------------------------
# running clang

def ast_of(src, fn):
    """typed AST (FunctionDecl with a body) of function `fn` of repo source `src`"""
    flags = [f for f in vlib.cflags("asan") if f.startswith(("-D", "-U", "-I"))]
    r = subprocess.run(["clang-14", "-Xclang", "-ast-dump=json", "-Xclang", f"-ast-dump-filter={fn}", "-fsyntax-only", "-w"]
                       + flags + [str(vlib.REPO / src)], stdout=subprocess.PIPE, stderr=subprocess.PIPE, text=True)
    if r.returncode != 0:
        raise XlateError(f"clang cannot parse {src}: {r.stderr[-1500:]}")
    dec, i, txt, docs = json.JSONDecoder(), 0, r.stdout, []
    while i < len(txt):
        while i < len(txt) and txt[i].isspace():
            i += 1
        if i >= len(txt):
            break
        o, i = dec.raw_decode(txt, i)
        docs.append(o)
    cands = [d for d in docs if d.get("kind") == "FunctionDecl" and d.get("name") == fn
             and any(c.get("kind") == "CompoundStmt" for c in d.get("inner", []))]
    if len(cands) != 1:
        raise XlateError(f"{src}: expected exactly one definition of function {fn}, found {len(cands)}")
    fill_lines(cands[0], [0])
    return cands[0]


def fill_lines(n, cur):
    """clang prints `line` only when it changes; propagate it (document order) so every location has one"""
    if isinstance(n, dict):
        if "offset" in n and "col" in n:
            if "line" in n:
                cur[0] = n["line"]
            else:
                n["line"] = cur[0]
        for v in n.values():
            fill_lines(v, cur)
    elif isinstance(n, list):
        for v in n:
            fill_lines(v, cur)


def line_of(n):
    b = (n.get("range") or {}).get("begin") or n.get("loc") or {}
    if "expansionLoc" in b:
        b = b["expansionLoc"]
    return b.get("line", 0)


# ----------------------------------------------------------------------------------------------
# pointers / memory families

class Ptr:
    """a pointer value: family (tuple of name components), closed index terms, open offset term or None"""
    def __init__(self, fam, idx=(), off=None):
        self.fam, self.idx, self.off = tuple(fam), tuple(idx), off


class LV:
    """an lvalue: a local (`var`) or a memory path (`fam`, `idx`)"""
    def __init__(self, var=None, fam=None, idx=(), ty=None):
        self.var, self.fam, self.idx, self.ty = var, fam, tuple(idx), ty


class Fam:
    def __init__(self, comps, arity, ty, rootkey):
        self.comps, self.arity, self.ty, self.rootkey = comps, arity, ty, rootkey
        self.written = False

    @property
    def name(self):
        return lean_name("_".join(self.comps))

    @property
    def lean_type(self):
        return " → ".join(["Int"] * (self.arity + 1))

    @property
    def key(self):
        return (self.rootkey, self.comps)


LEAN_KEYWORDS = {"end", "from", "at", "in", "fun", "let", "do", "then", "else", "if", "match", "with", "have", "show",
                 "def", "theorem", "instance", "class", "structure", "where", "open", "by", "for", "return", "mut",
                 "ok", "fuel", "undef", "Type", "Prop", "Sort", "prefix", "infix", "notation", "local", "private", "section",
                 "namespace", "variable", "universe", "import", "export", "macro", "syntax", "deriving", "extends", "using"}


def lean_name(s):
    s = re.sub(r"[^A-Za-z0-9_]", "_", s)
    if s in LEAN_KEYWORDS or not re.match(r"[A-Za-z_]", s):
        s = s + "_"
    return s


class FnInfo:
    """signature of a translated function (for calls)"""
    def __init__(self):
        self.name = self.lean = None
        self.params = []        # list of ("int", leanname, Ty) | ("ptr", cname, index)
        self.fams = []          # Fam list in canonical order (callee's view)
        self.has_fuel = self.has_undef = False
        self.ret_ty = None      # Ty or None (void)
        self.written = []       # Fam list (canonical order) returned after the value


# ----------------------------------------------------------------------------------------------
# the translator of one function

class Exit(Exception):
    pass


class FnXlate:
    def __init__(self, src, fn, known, ignore_calls=(), lines=None, lean_fn=None, opaque_calls=()):
        self.src, self.fn, self.known, self.ignore_calls, self.lines = src, fn, known, set(ignore_calls), lines
        self.opaque_calls, self.opaque_used = set(opaque_calls), {}
        self.ast = ast_of(src, fn)
        self.lean_fn = lean_fn or lean_name(fn)
        self.vars = {}          # decl id -> dict(name, ty, kind, ptr(base Ptr or None), ordinal)
        self.fams = {}          # comps -> Fam
        self.param_roots = {}   # decl id -> position
        self.loops = []         # emitted loop definitions (text)
        self.nloop = 0
        self.uses_fuel = self.uses_undef = False
        self.ntmp = 0
        self.frag_params = []   # locals declared outside a translated fragment (become parameters)
        self.mode = "val"       # "val": the value function `f`; "ok": the definedness predicate `f_ok`

    # -- errors ------------------------------------------------------------------------------
    def err(self, n, what):
        raise XlateError(f"{self.src}:{line_of(n)}: function {self.fn}: outside the translated subset: {what}")

    # -- declarations ------------------------------------------------------------------------
    def declare(self, d, is_param=False, pos=None):
        ty = parse_type(d.get("type"))
        if ty.kind not in ("int", "ptr"):
            self.err(d, f"declaration of `{d.get('name')}` of type `{ty.text}` (only integers and pointers)")
        v = {"name": lean_name(d["name"]), "cname": d["name"], "ty": ty, "kind": ty.kind, "ptr": None, "param": is_param,
             "ord": len(self.vars), "assigned": is_param, "decl": d}
        if is_param and ty.kind == "ptr":
            v["ptr"] = Ptr((d["name"],))
            self.param_roots[d["id"]] = pos
        self.vars[d["id"]] = v
        return v

    def fam(self, comps, arity, ty, node, rootkey):
        f = self.fams.get(comps)
        if f is None:
            f = self.fams[comps] = Fam(comps, arity, ty, rootkey)
        if f.arity != arity:
            self.err(node, f"memory path `{'.'.join(comps)}` used with {arity} and with {f.arity} indices")
        return f

    def rootkey(self, comps):
        for v in self.vars.values():
            if v["param"] and v["kind"] == "ptr" and v["cname"] == comps[0]:
                return (0, self.param_roots[v["decl"]["id"]])
        return (1, 0)       # global

    # -- expressions -------------------------------------------------------------------------
    # an expression translates to E(term, conds, ty); hoisted calls go to self.pre, post-increments to self.post
    class E:
        """translated rvalue: Lean term, side conditions, C type, and an interval [lo, hi] that contains the value
        whenever all values read lie in the ranges of their types (used only to drop checks that cannot fail)"""
        def __init__(self, term, conds, ty, iv=None):
            self.term, self.conds, self.ty = term, conds, ty
            self.iv = iv if iv is not None else ((ty.lo, ty.hi) if ty.kind == "int" else None)
            m = re.fullmatch(r"\(?(-?\d+)\)?", term)
            self.const = int(m.group(1)) if m else None
            if self.const is not None:
                self.iv = (self.const, self.const)

    def skip(self, n):
        while n.get("kind") in ("ParenExpr", "ConstantExpr") or \
                (n.get("kind") == "ImplicitCastExpr" and n.get("castKind") == "NoOp"):
            n = n["inner"][0]
        return n

    def in_range_cond(self, ty, term):
        return f"{ty.lo} ≤ {term} ∧ {term} ≤ {ty.hi}"

    def cast(self, e, ty, node):
        src = e.ty
        if src.kind != "int" or ty.kind != "int":
            self.err(node, f"conversion from `{src.text}` to `{ty.text}`")
        if e.const is not None:       # conversion of a literal: computed here
            v = e.const
            v = (v - ty.lo) % (1 << ty.bits) + ty.lo if ty.bits > 1 else int(v != 0)
            return self.E(self.lit(v), e.conds, ty)
        if ty.lo <= e.iv[0] and e.iv[1] <= ty.hi:
            return self.E(e.term, e.conds, ty, e.iv)
        if ty.bits == 1:
            return self.E(f"(if {e.term} = 0 then 0 else 1)", e.conds, ty)
        w = f"wrap{'S' if ty.signed else 'U'}{ty.bits}"
        return self.E(f"({w} {e.term})", e.conds, ty)

    def ptr(self, n):
        """pointer-valued expression -> Ptr"""
        n = self.skip(n)
        k = n.get("kind")
        if k == "ImplicitCastExpr" and n["castKind"] in ("LValueToRValue", "ArrayToPointerDecay"):
            lv = self.lvalue(n["inner"][0], want_ptr=True)
            if lv.var is not None:
                v = lv.var
                if v["ptr"] is None:
                    self.err(n, f"pointer local `{v['cname']}` read before it is given a base")
                if v["param"] or v.get("alias"):
                    return v["ptr"]
                return Ptr(v["ptr"].fam, v["ptr"].idx, v["name"])
            return Ptr(lv.fam, lv.idx, None)
        if k == "BinaryOperator" and n["opcode"] in ("+", "-"):
            a, b = n["inner"]
            if parse_type(a.get("type")).kind != "ptr":
                if n["opcode"] == "-":
                    self.err(n, "integer - pointer")
                a, b = b, a
            if parse_type(b.get("type")).kind == "ptr":
                self.err(n, "pointer difference")
            p, e = self.ptr(a), self.rv(b)
            self.conds += e.conds
            off = e.term if n["opcode"] == "+" else f"(-{e.term})"
            return Ptr(p.fam, p.idx, off if p.off is None else f"({p.off} + {off})")
        if k in ("ImplicitCastExpr", "CStyleCastExpr") and n.get("castKind") == "BitCast":
            # a differently typed view of the same object: named as its own memory family (`…_as_<type>`); that the
            # views of one object are consistent with each other is NOT modelled (each view is an independent parameter)
            p = self.ptr(n["inner"][0])
            if p.off is not None:
                self.err(n, "cast of a pointer with an offset")
            tname = re.sub(r"[^A-Za-z0-9]+", "_", strip_quals(n["type"]["qualType"]).rstrip("* ")).strip("_")
            return Ptr(p.fam + ("as_" + tname,), p.idx, None)
        if k in ("ImplicitCastExpr", "CStyleCastExpr"):
            self.err(n, f"pointer cast `{n.get('castKind')}` to `{n['type']['qualType']}`")
        self.err(n, f"pointer expression {k}")

    def lvalue(self, n, want_ptr=False):
        n = self.skip(n)
        k = n.get("kind")
        ty = parse_type(n.get("type"))
        if k == "DeclRefExpr":
            rd = n["referencedDecl"]
            if rd["kind"] in ("VarDecl", "ParmVarDecl"):
                v = self.vars.get(rd["id"])
                if v is None:
                    # a global (or a local declared outside a translated fragment)
                    if self.lines and rd["id"] in self.outer_locals:
                        v = self.declare(self.outer_locals[rd["id"]], is_param=True, pos=100 + len(self.frag_params))
                        self.frag_params.append(v)
                        return LV(var=v, ty=ty)
                    comps = (rd["name"],)
                    if ty.kind == "int":
                        return LV(fam=comps, idx=(), ty=ty)
                    return LV(fam=comps, idx=(), ty=ty)
                return LV(var=v, ty=ty)
            self.err(n, f"reference to {rd['kind']} `{rd.get('name')}`")
        if k == "MemberExpr":
            base = n["inner"][0]
            if n.get("isArrow"):
                p = self.ptr(base)
                idx = p.idx + ((p.off,) if p.off is not None else ())
                return LV(fam=p.fam + (n["name"],), idx=idx, ty=ty)
            b = self.lvalue(base)
            if b.var is not None:
                self.err(n, "member of a struct local")
            return LV(fam=b.fam + (n["name"],), idx=b.idx, ty=ty)
        if k == "ArraySubscriptExpr":
            a, i = n["inner"]
            if parse_type(a.get("type")).kind != "ptr":
                a, i = i, a
            p, e = self.ptr(a), self.rv(i)
            self.conds += e.conds
            it = e.term if p.off is None else f"({p.off} + {e.term})"
            return LV(fam=p.fam, idx=p.idx + (it,), ty=ty)
        if k == "UnaryOperator" and n["opcode"] == "*":
            p = self.ptr(n["inner"][0])
            return LV(fam=p.fam, idx=p.idx + ((p.off if p.off is not None else "0"),), ty=ty)
        self.err(n, f"lvalue {k}")

    def read(self, lv, node):
        key = ("v", lv.var["decl"]["id"]) if lv.var is not None else ("f", lv.fam, lv.idx)
        if key in getattr(self, "pre_mod", ()):
            self.err(node, "object read and modified (prefix ++/--) in one expression")
        if lv.var is not None:
            v = lv.var
            if v["kind"] != "int":
                self.err(node, f"pointer `{v['cname']}` used as a value")
            self.read_vars.add(v["decl"]["id"])
            return self.E(v["name"], [], v["ty"])
        if lv.ty.kind != "int":
            self.err(node, f"read of a non-integer object `{'.'.join(lv.fam)}` of type `{lv.ty.text}`")
        f = self.fam(lv.fam, len(lv.idx), lv.ty, node, self.rootkey(lv.fam))
        self.used_fams.add(f.comps)
        return self.E("(" + " ".join([f.name] + [self.atom(i) for i in lv.idx]) + ")" if lv.idx else f.name, [], lv.ty)

    @staticmethod
    def atom(t):
        return t if re.fullmatch(r"[A-Za-z_][A-Za-z0-9_]*|\d+|\(.*\)", t) and FnXlate.balanced(t) else f"({t})"

    @staticmethod
    def balanced(t):
        if not t.startswith("("):
            return True
        d = 0
        for i, c in enumerate(t):
            d += c == "("
            d -= c == ")"
            if d == 0 and i < len(t) - 1:
                return False
        return True

    def lit(self, v):
        return str(v) if v >= 0 else f"({v})"

    def const_of(self, n):
        """value of an integer-literal expression (after casts), or None"""
        n = self.skip(n)
        if n.get("kind") == "IntegerLiteral":
            return int(n["value"])
        if n.get("kind") in ("ImplicitCastExpr", "CStyleCastExpr") and n.get("castKind") == "IntegralCast":
            return self.const_of(n["inner"][0])
        return None

    def rv(self, n):
        """integer rvalue"""
        n = self.skip(n)
        k = n.get("kind")
        ty = parse_type(n.get("type"))
        if k == "IntegerLiteral":
            return self.E(self.lit(int(n["value"])), [], ty)
        if k == "CharacterLiteral":
            return self.E(self.lit(int(n["value"])), [], ty)
        if k in ("ImplicitCastExpr", "CStyleCastExpr"):
            ck = n["castKind"]
            if ck == "LValueToRValue":
                return self.read(self.lvalue(n["inner"][0]), n)
            if ck == "IntegralCast":
                return self.cast(self.rv(n["inner"][0]), ty, n)
            if ck == "NoOp":
                return self.rv(n["inner"][0])
            self.err(n, f"cast kind {ck} to `{n['type']['qualType']}`")
        if k == "UnaryOperator":
            op = n["opcode"]
            if op in ("++", "--"):
                lv = self.lvalue(n["inner"][0])
                if not n.get("isPostfix"):
                    # prefix form: the object is updated first (hoisted in front of the statement), the value of the
                    # expression is the new value; the object must not be mentioned elsewhere in the expression
                    if self.guarded:
                        self.err(n, f"prefix `{op}` under `&&`, `||` or `?:`")
                    key = ("v", lv.var["decl"]["id"]) if lv.var is not None else ("f", lv.fam, lv.idx)
                    if key in self.pre_mod:
                        self.err(n, "object modified twice in one expression")
                    old = self.read(lv, n)
                    t = old.ty
                    new = f"({old.term} {'+' if op == '++' else '-'} 1)"
                    if t.signed and t.bits >= 32:
                        self.pre.append(("chk", self.in_range_cond(t, new)))
                        term = new
                    else:
                        term = self.cast(self.E(new, [], Ty("int", True, 64)), t, n).term
                    self.pre.append(("assign", lv, term, n))
                    self.pre_mod.add(key)
                    return self.E(old.term, [], t)      # after the hoisted update the same name denotes the new value
                if lv.var is None or lv.var["kind"] != "int":
                    self.err(n, f"postfix `{op}` on something that is not an integer local, inside an expression")
                v = lv.var
                if v["decl"]["id"] in self.post_vars:
                    self.err(n, f"`{v['cname']}` modified twice in one expression")
                self.post_vars.add(v["decl"]["id"])
                new = f"{v['name']} {'+' if op == '++' else '-'} 1"
                if v["ty"].signed and v["ty"].bits >= 32:
                    self.post.append(("chk", self.in_range_cond(v["ty"], new)))
                    self.post.append(("let", v, new))
                else:
                    self.post.append(("let", v, self.cast(self.E(f"({new})", [], parse_type({"qualType": "int"})), v["ty"], n).term))
                return self.E(v["name"], [], v["ty"])
            a = self.rv(n["inner"][0])
            if op == "+":
                return a
            if op == "-":
                return self.arith(n, "-", self.E("0", [], ty), a, ty, unary=True)
            if op == "!":
                return self.E(f"(if {a.term} = 0 then 1 else 0)", a.conds, ty)
            if op == "~":
                if ty.signed:
                    return self.E(f"(-{a.term} - 1)", a.conds, ty)
                return self.E(f"({ty.hi} - {a.term})", a.conds, ty)
            self.err(n, f"unary operator `{op}`")
        if k == "BinaryOperator":
            op = n["opcode"]
            if op in ("<", "<=", ">", ">=", "==", "!=", "&&", "||"):
                c, conds = self.cond(n)
                return self.E(f"(if {c} then 1 else 0)", conds, ty)
            if op in ("=", ",") or op.endswith("="):
                self.err(n, f"`{op}` inside an expression")
            a, b = self.rv(n["inner"][0]), self.rv(n["inner"][1])
            if op == "&":
                c = self.const_of(n["inner"][1])
                if c is not None and c >= 0 and (c & (c + 1)) == 0 and not a.ty.signed:
                    return self.E(f"({a.term} % {c + 1})", a.conds + b.conds, ty)   # mask 2^k - 1 of a non-negative value
            return self.binop_terms(n, a, b, n["inner"][1])
            self.err(n, f"binary operator `{op}`")
        if k == "ConditionalOperator":
            c, cc = self.cond(n["inner"][0])
            a, b = self.rv(n["inner"][1]), self.rv(n["inner"][2])
            conds = cc + [f"{c} → {x}" for x in a.conds] + [f"¬{c} → {x}" for x in b.conds]
            return self.E(f"(if {c} then {a.term} else {b.term})", conds, ty)
        if k == "CallExpr":
            if self.guarded:
                self.err(n, "function call under `&&`, `||` or `?:`")
            return self.call(n, want_value=True)
        if k == "UnaryExprOrTypeTraitExpr":
            self.err(n, f"`{n.get('name')}` expression")
        self.err(n, f"expression {k}")

    def cond(self, n):
        """expression in boolean context -> (Prop term, conds)"""
        n = self.skip(n)
        k = n.get("kind")
        if k == "BinaryOperator" and n["opcode"] in ("==", "!=") and parse_type(n["inner"][0].get("type")).kind == "ptr":
            a, b = n["inner"]
            if self.is_null(a):
                a, b = b, a
            if not self.is_null(b):
                self.err(n, "comparison of two pointers")
            t = self.null_flag(a, n)
            return (f"({t} ≠ 0)" if n["opcode"] == "==" else f"({t} = 0)"), []
        if k == "BinaryOperator" and n["opcode"] in ("<", "<=", ">", ">=", "==", "!="):
            if parse_type(n["inner"][0].get("type")).kind != "int":
                self.err(n, "comparison of non-integers (pointers?)")
            a, b = self.rv(n["inner"][0]), self.rv(n["inner"][1])
            lop = {"<": "<", "<=": "≤", ">": ">", ">=": "≥", "==": "=", "!=": "≠"}[n["opcode"]]
            return f"({a.term} {lop} {b.term})", a.conds + b.conds
        if k == "BinaryOperator" and n["opcode"] in ("&&", "||"):
            a, ca = self.cond(n["inner"][0])
            g = self.guarded
            self.guarded = True
            b, cb = self.cond(n["inner"][1])
            self.guarded = g
            if n["opcode"] == "&&":
                return f"({a} ∧ {b})", ca + [f"{a} → {x}" for x in cb]
            return f"({a} ∨ {b})", ca + [f"¬{a} → {x}" for x in cb]
        if k == "UnaryOperator" and n["opcode"] == "!":
            a, ca = self.cond(n["inner"][0])
            return f"(¬{a})", ca
        if parse_type(n.get("type")).kind != "int":
            self.err(n, f"`{n.get('type', {}).get('qualType')}` value used as a condition (pointer test?)")
        e = self.rv(n)
        return f"({e.term} ≠ 0)", e.conds

    def is_null(self, n):
        n = self.skip(n)
        while n.get("kind") in ("ImplicitCastExpr", "CStyleCastExpr") and n.get("castKind") in ("NullToPointer", "BitCast", "NoOp"):
            n = self.skip(n["inner"][0])
        return n.get("kind") == "IntegerLiteral" and int(n["value"]) == 0

    def null_flag(self, n, node):
        """`p == NULL` for a pointer stored in memory: an integer family `<path>_isnull` (1 = null)"""
        n = self.skip(n)
        if not (n.get("kind") == "ImplicitCastExpr" and n.get("castKind") == "LValueToRValue"):
            self.err(node, "null test of a computed pointer")
        lv = self.lvalue(n["inner"][0])
        if lv.var is not None:
            self.err(node, f"null test of pointer local/parameter `{lv.var['cname']}`")
        comps = lv.fam[:-1] + (lv.fam[-1] + "_isnull",)
        f = self.fam(comps, len(lv.idx), Ty("int", False, 1, "_Bool (pointer is NULL)"), node, self.rootkey(comps))
        self.used_fams.add(f.comps)
        return "(" + " ".join([f.name] + [self.atom(i) for i in lv.idx]) + ")" if lv.idx else f.name

    # -- calls -------------------------------------------------------------------------------
    def call(self, n, want_value):
        callee = self.skip(n["inner"][0])
        while callee.get("kind") == "ImplicitCastExpr":
            callee = self.skip(callee["inner"][0])
        name = (callee.get("referencedDecl") or {}).get("name")
        if name in self.ignore_calls and not want_value:
            return None
        info = self.known.get(name)
        if info is None and name in self.opaque_calls:
            # an untranslated function (floating point inside, …): an arbitrary function of its integer arguments,
            # passed as a parameter; what it reads from memory is hidden in that parameter
            terms = []
            for a in n["inner"][1:]:
                if parse_type(a.get("type")).kind == "int":
                    e = self.rv(a)
                    self.conds += e.conds
                    terms.append(self.atom(e.term))
            ar = len(terms)
            if self.opaque_used.setdefault(name, ar) != ar:
                self.err(n, f"opaque call `{name}` with differing numbers of integer arguments")
            if not want_value:
                return None
            return self.E("(" + " ".join([f"ext_{lean_name(name)}"] + terms) + ")", [], parse_type(n.get("type")))
        if info is None:
            self.err(n, f"call of `{name}` (not a translated function)")
        args = n["inner"][1:]
        terms = []
        if info.has_fuel:
            self.uses_fuel = True
            terms.append("fuel")
        if info.has_undef:
            self.uses_undef = True
            terms.append("undef")
        ptrs = {}
        # the callee's signature lists, per C parameter IN PARAMETER ORDER, the integer itself or the families reached
        # through the pointer, then the globals (translate_once): the argument terms are emitted in that same order
        groups = []
        for (kind, pname, third), a in zip(info.params, args):
            if kind == "int":
                e = self.rv(a)
                self.conds += e.conds
                groups.append([self.atom(e.term)])
            else:
                ptrs[pname] = self.ptr(a)
                groups.append(third)        # position of the pointer parameter
        outs = []
        fam_term = {}
        for f in info.fams:
            root = f.comps[0]
            if root in ptrs:
                p = ptrs[root]
                if p.off is not None or p.idx:
                    self.err(n, f"pointer argument for `{root}` is not a plain base pointer")
                comps = p.fam + f.comps[1:]
            else:
                comps = f.comps     # a global
            mine = self.fam(comps, f.arity, f.ty, n, self.rootkey(comps))
            self.used_fams.add(mine.comps)
            fam_term[id(f)] = mine.name
            if f in info.written:
                outs.append(mine)
        for g in groups:
            if isinstance(g, list):
                terms.extend(g)
            else:
                terms.extend(fam_term[id(f)] for f in info.fams if f.rootkey == (0, g))
        terms.extend(fam_term[id(f)] for f in info.fams if f.rootkey[0] == 1)
        self.ntmp += 1
        r = f"call{self.ntmp}"
        self.pre.append(("let", r, " ".join([info.lean] + terms)))
        self.pre.append(("ok", " ".join([info.lean + "_ok"] + terms)))
        # result layout of the value function: value | (value, w1, …) | (w1, …) for void
        comps_n = (1 if info.ret_ty else 0) + len(info.written)
        def proj(i):
            if comps_n == 1:
                return r
            return r + ".2" * i + (".1" if i < comps_n - 1 else "")
        for j, w in enumerate(outs):
            w.written = True
            self.written_here.add(w.comps)
            self.pre.append(("letfam", w, proj(j + (1 if info.ret_ty else 0))))
        if want_value:
            if not info.ret_ty:
                self.err(n, f"value of void function `{name}`")
            return self.E(proj(0), [], info.ret_ty)
        return None

    # -- statements --------------------------------------------------------------------------
    # Emission is line based; `k` is the continuation producing the lines that follow.
    def begin_expr(self):
        self.pre, self.post, self.conds, self.post_vars, self.guarded = [], [], [], set(), False
        self.pre_mod = set()

    def flush_pre(self, out, ind):
        for item in self.pre:
            if item[0] == "let":
                out.append(f"{ind}let {item[1]} := {item[2]}")
            elif item[0] == "ok":
                if self.mode == "ok":
                    out.append(f"{ind}let ok := ok && {item[1]}")
                    self.nchecks += 1
            elif item[0] == "letfam":
                out.append(f"{ind}let {item[1].name} := {item[2]}")
            elif item[0] == "chk":
                self.flush_checks(out, ind, [item[1]])
            elif item[0] == "assign":
                self.assign(item[1], item[2], item[3], out, ind)
        self.pre = []

    def flush_checks(self, out, ind, conds):
        for c in conds:
            if self.mode == "ok":
                out.append(f"{ind}let ok := ok && decide ({c})")
                self.nchecks += 1

    def flush_post(self, out, ind):
        for item in self.post:
            if item[0] == "chk":
                self.flush_checks(out, ind, [item[1]])
            else:
                out.append(f"{ind}let {item[1]['name']} := {item[2]}")
                self.assigned_here.add(item[1]["decl"]["id"])
        self.post = []

    def eval_rv(self, n, out, ind):
        """translate an rvalue for use in a statement: emits hoisted calls and checks, returns the term"""
        self.begin_expr()
        e = self.rv(n)
        self.flush_pre(out, ind)
        self.flush_checks(out, ind, self.conds + e.conds)
        return e

    def eval_cond(self, n, out, ind):
        self.begin_expr()
        c, conds = self.cond(n)
        self.flush_pre(out, ind)
        self.flush_checks(out, ind, self.conds + conds)
        if self.post:
            self.ntmp += 1
            t = f"cnd{self.ntmp}"
            out.append(f"{ind}let {t} : Bool := decide {c}")
            self.flush_post(out, ind)
            return f"({t} = true)"
        return c

    def assign(self, lv, term, node, out, ind):
        if lv.var is not None:
            v = lv.var
            if v["kind"] != "int":
                self.err(node, "assignment to a pointer local in this position")
            out.append(f"{ind}let {v['name']} := {term}")
            self.assigned_here.add(v["decl"]["id"])
            return
        if lv.ty.kind != "int":
            self.err(node, f"store to a non-integer object `{'.'.join(lv.fam)}`")
        f = self.fam(lv.fam, len(lv.idx), lv.ty, node, self.rootkey(lv.fam))
        if f.rootkey[0] == 1:
            self.err(node, f"store to global `{f.name}`")
        f.written = True
        self.used_fams.add(f.comps)
        self.written_here.add(f.comps)
        if not lv.idx:
            out.append(f"{ind}let {f.name} := {term}")
        else:
            if f.arity > 3:
                self.err(node, "store through more than 3 indices")
            out.append(f"{ind}let {f.name} := upd{f.arity} {f.name} " + " ".join(self.atom(i) for i in lv.idx) + f" {self.atom(term)}")

    def assign_ptr(self, v, rhs, node, out, ind):
        """pointer local := pointer expression; one base per pointer local"""
        self.begin_expr()
        p = self.ptr(rhs)
        self.flush_pre(out, ind)
        self.flush_checks(out, ind, self.conds)
        # closed indices are evaluated now: bind them
        idx = []
        for j, t in enumerate(p.idx):
            nm = f"{v['name']}_ix{j}"
            out.append(f"{ind}let {nm} := {t}")
            idx.append(nm)
        base = Ptr(p.fam, idx, None)
        if v["ptr"] is not None and (v["ptr"].fam != base.fam or len(v["ptr"].idx) != len(base.idx)):
            self.err(node, f"pointer local `{v['cname']}` is given two different base objects")
        if v["ptr"] is not None and base.idx:
            self.err(node, f"pointer local `{v['cname']}` with an indexed base is assigned twice")
        if v["decl"]["id"] not in self.mutated:
            # initialised once, never changed: the local is just a name for this pointer value
            if p.off is not None:
                out.append(f"{ind}let {v['name']} := {p.off}")
                base.off = v["name"]
            v["ptr"], v["alias"] = base, True
            return
        v["ptr"] = base
        out.append(f"{ind}let {v['name']} := {p.off if p.off is not None else '0'}")
        self.assigned_here.add(v["decl"]["id"])

    def expr_stmt(self, n, out, ind):
        n = self.skip(n)
        k = n.get("kind")
        if k == "BinaryOperator" and n["opcode"] == "=":
            lhs, rhs = n["inner"]
            if parse_type(lhs.get("type")).kind == "ptr":
                lv = self.lvalue(lhs)
                if lv.var is None:
                    self.err(n, "store of a pointer to memory")
                return self.assign_ptr(lv.var, rhs, n, out, ind)
            r = self.skip(rhs)
            if r.get("kind") == "BinaryOperator" and r["opcode"] == "=":      # a = b = e
                self.expr_stmt(r, out, ind)
                self.begin_expr()
                inner_lv = self.lvalue(r["inner"][0])
                e = self.cast(self.read(inner_lv, n), parse_type(lhs.get("type")), n)
            else:
                e = self.eval_rv(rhs, out, ind)
            self.conds = []
            lv = self.lvalue(lhs)
            self.flush_checks(out, ind, self.conds)
            if lv.var is not None and lv.var["decl"]["id"] in self.post_vars:
                self.err(n, "assignment target also post-incremented")
            self.assign(lv, e.term, n, out, ind)
            self.flush_post(out, ind)
            return
        if k == "CompoundAssignOperator":
            lhs, rhs = n["inner"]
            op = n["opcode"][:-1]
            lt = parse_type(lhs.get("type"))
            if lt.kind == "ptr":
                lv = self.lvalue(lhs)
                if lv.var is None or op not in "+-":
                    self.err(n, "compound assignment on a pointer in memory")
                e = self.eval_rv(rhs, out, ind)
                out.append(f"{ind}let {lv.var['name']} := {lv.var['name']} {op} {e.term}")
                self.assigned_here.add(lv.var["decl"]["id"])
                return
            # computation type: clang gives computeResultType; operands: lhs converted to it
            ct = parse_type(n.get("computeResultType"))
            if ct.kind != "int":
                self.err(n, "compound assignment with a non-integer computation type")
            self.begin_expr()
            lv = self.lvalue(lhs)
            a = self.cast(self.read(lv, n), parse_type(n.get("computeLHSType")), n)
            b = self.rv(rhs)
            fake = {"kind": "BinaryOperator", "opcode": op, "type": n["computeResultType"], "range": n.get("range")}
            res = self.binop_terms(fake, a, b, rhs)
            res = self.cast(res, lt, n)
            self.flush_pre(out, ind)
            self.flush_checks(out, ind, self.conds + res.conds)
            self.assign(lv, res.term, n, out, ind)
            self.flush_post(out, ind)
            return
        if k == "UnaryOperator" and n["opcode"] in ("++", "--"):
            lv = self.lvalue(n["inner"][0])
            op = "+" if n["opcode"] == "++" else "-"
            t = parse_type(n["inner"][0].get("type"))
            if t.kind == "ptr":
                if lv.var is None:
                    self.err(n, "++/-- of a pointer in memory")
                out.append(f"{ind}let {lv.var['name']} := {lv.var['name']} {op} 1")
                self.assigned_here.add(lv.var["decl"]["id"])
                return
            self.begin_expr()
            a = self.read(lv, n)
            # integer promotion of ++ on small types: value computed in int then converted back
            new = f"({a.term} {op} 1)"
            conds = list(self.conds)
            if t.signed and t.bits >= 32:
                conds.append(self.in_range_cond(t, new))
                term = new
            else:
                term = self.cast(self.E(new, [], Ty("int", True, 64)), t, n).term
            self.flush_checks(out, ind, conds)
            self.assign(lv, term, n, out, ind)
            return
        if k == "CallExpr":
            self.begin_expr()
            self.call(n, want_value=False)
            self.flush_pre(out, ind)
            self.flush_checks(out, ind, self.conds)
            return
        if k == "CStyleCastExpr" and n.get("castKind") == "ToVoid":
            return
        self.err(n, f"expression statement {k}" + (f" `{n.get('opcode')}`" if n.get("opcode") else ""))

    def binop_terms(self, n, a, b, rhs_node):
        """shared with rv(): arithmetic on already translated operands"""
        op, ty = n["opcode"], parse_type(n.get("type"))
        conds = a.conds + b.conds
        if op in ("+", "-", "*"):
            return self.arith(n, op, a, b, ty)
        if op in ("/", "%"):
            conds = conds + [f"{b.term} ≠ 0"]
            if ty.signed:
                conds.append(f"¬({a.term} = {ty.lo} ∧ {b.term} = -1)")
                return self.E(f"(Int.t{'div' if op == '/' else 'mod'} {a.term} {b.term})", conds, ty)
            return self.E(f"({a.term} {op} {b.term})", conds, ty)
        if op in ("<<", ">>"):
            c = self.const_of(rhs_node)
            if c is not None:
                if not 0 <= c < ty.bits:
                    self.err(n, f"constant shift count {c} outside [0,{ty.bits})")
                pw = str(1 << c)
            else:
                conds = conds + [f"0 ≤ {b.term} ∧ {b.term} < {ty.bits}"]
                pw = f"2 ^ (Int.toNat {b.term})"
            if op == ">>":
                return self.E(f"({a.term} / {pw})", conds, ty)
            return self.E(f"(wrap{'S' if ty.signed else 'U'}{ty.bits} ({a.term} * {pw}))", conds, ty)
        if op in ("&", "|", "^"):
            # on the two's-complement bit patterns of the operands (Prelude: bitAnd/bitOr/bitXor w a b ∈ [0, 2^w))
            fn = {"&": "bitAnd", "|": "bitOr", "^": "bitXor"}[op]
            t = f"({fn} {ty.bits} {self.atom(a.term)} {self.atom(b.term)})"
            return self.E(f"(wrapS{ty.bits} {t})" if ty.signed else t, conds, ty)
        self.err(n, f"compound assignment operator `{op}=`")

    def arith(self, n, op, a, b, ty, unary=False):
        """`a op b` (op in + - *) in type ty: exact in Int; a signed result that may leave the type adds a side
        condition, an unsigned one is wrapped; literal operands are folded"""
        conds = a.conds + b.conds
        f = {"+": lambda x, y: x + y, "-": lambda x, y: x - y, "*": lambda x, y: x * y}[op]
        corners = [f(x, y) for x in a.iv for y in b.iv]
        iv = (min(corners), max(corners))
        fits = ty.lo <= iv[0] and iv[1] <= ty.hi
        if a.const is not None and b.const is not None:
            v = f(a.const, b.const)
            if not fits:
                if ty.signed:
                    self.err(n, f"constant expression {a.const} {op} {b.const} overflows `{ty.text}`")
                v %= 1 << ty.bits
            return self.E(self.lit(v), conds, ty)
        t = f"(-{b.term})" if unary else f"({a.term} {op} {b.term})"
        if fits:
            return self.E(t, conds, ty, iv)
        if ty.signed:
            return self.E(t, conds + [self.in_range_cond(ty, t)], ty)
        return self.E(f"(wrapU{ty.bits} {t})", conds, ty)

    # -- control flow ------------------------------------------------------------------------
    def exits(self, n):
        """(may_exit, must_exit) of a statement w.r.t. return/break/continue (syntactic)"""
        if n is None:
            return False, False
        k = n.get("kind")
        if k in ("ReturnStmt", "BreakStmt", "ContinueStmt"):
            return True, True
        if k == "CompoundStmt":
            may = False
            for c in n.get("inner", []):
                m, mu = self.exits(c)
                may = may or m
                if mu:
                    return True, True
            return may, False
        if k == "IfStmt":
            inner = n["inner"]
            m1, mu1 = self.exits(inner[1])
            m2, mu2 = self.exits(inner[2]) if len(inner) > 2 else (False, False)
            return m1 or m2, mu1 and mu2
        if k in ("ForStmt", "WhileStmt", "DoStmt"):
            # break/continue inside belong to the loop; a return inside is an exit of the function
            return self.has_return(n), False
        if k == "SwitchStmt":
            return self.has_return(n), False
        return False, False

    def has_return(self, n):
        if isinstance(n, dict):
            if n.get("kind") == "ReturnStmt":
                return True
            return any(self.has_return(c) for c in n.get("inner", []))
        return False

    def stmts(self, lst, out, ind, ctx, k):
        """translate the statement list `lst`, then continue with k(out, ind)"""
        if not lst:
            return k(out, ind)
        n, rest = lst[0], lst[1:]
        kind = n.get("kind")
        nxt = lambda o, i: self.stmts(rest, o, i, ctx, k)
        if kind == "CompoundStmt":
            return self.stmts(n.get("inner", []) + rest, out, ind, ctx, k)
        if kind == "NullStmt":
            return nxt(out, ind)
        if kind == "DeclStmt":
            for d in n["inner"]:
                if d.get("kind") != "VarDecl":
                    self.err(d, f"declaration {d.get('kind')}")
                if d.get("storageClass") == "static":
                    self.err(d, "static local")
                v = self.declare(d)
                init = [c for c in d.get("inner", []) if "kind" in c and not c["kind"].endswith("Attr")]
                if v["kind"] == "ptr":
                    if init:
                        self.assign_ptr(v, init[0], d, out, ind)
                    else:
                        self.uses_undef = True
                        out.append(f"{ind}let {v['name']} := undef {self.nundef}")
                        self.nundef += 1
                elif init:
                    e = self.eval_rv(init[0], out, ind)
                    out.append(f"{ind}let {v['name']} := {e.term}")
                    self.assigned_here.add(d["id"])
                    self.flush_post(out, ind)
                else:
                    self.uses_undef = True
                    out.append(f"{ind}let {v['name']} := undef {self.nundef}")
                    self.nundef += 1
            return nxt(out, ind)
        if kind == "ReturnStmt":
            inner = n.get("inner", [])
            if ctx.get("in_loop"):
                self.err(n, "return inside a loop")
            if inner:
                if parse_type(inner[0].get("type")).kind != "int":
                    self.err(n, f"return of a `{inner[0]['type']['qualType']}` value")
                e = self.eval_rv(inner[0], out, ind)
                if self.post:
                    self.err(n, "post-increment in a return expression")
                out.append(ind + self.result(e.term))
            else:
                out.append(ind + self.result(None))
            return
        if kind == "BreakStmt":
            if not ctx.get("in_loop"):
                self.err(n, "break outside a translated loop (switch?)")
            out.append(ind + ctx["brk"]())
            return
        if kind == "ContinueStmt":
            return ctx["cont"](out, ind)
        if kind == "IfStmt":
            return self.if_stmt(n, out, ind, ctx, nxt)
        if kind in ("ForStmt", "WhileStmt"):
            return self.loop(n, out, ind, ctx, nxt)
        if kind == "SwitchStmt":
            return self.switch(n, out, ind, ctx, nxt)
        if kind in ("DoStmt", "GotoStmt", "LabelStmt"):
            self.err(n, kind)
        self.expr_stmt(n, out, ind)
        return nxt(out, ind)

    def scratch(self, fn):
        """run `fn(out)` on a scratch buffer, recording what it assigns / checks; restores nothing else"""
        saved = (self.assigned_here, self.written_here, self.nchecks)
        self.assigned_here, self.written_here, self.nchecks = set(), set(), 0
        out = []
        fn(out)
        res = (out, self.assigned_here, self.written_here, self.nchecks)
        a, w, c = saved
        self.assigned_here, self.written_here, self.nchecks = a | res[1], w | res[2], c + res[3]
        return res

    def state_tuple(self, vids, fcomps, with_ok):
        names = (["ok"] if with_ok else []) + [self.vars[i]["name"] for i in vids] + [self.fams[c].name for c in fcomps]
        return names

    def sorted_state(self, vids, fcomps):
        vids = sorted((i for i in vids if i in self.vars and i in self.scope_ids), key=lambda i: self.vars[i]["ord"])
        fcomps = sorted(fcomps, key=lambda c: self.fams[c].key)
        return vids, fcomps

    @staticmethod
    def tup(names):
        return "(" + ", ".join(names) + ")" if len(names) != 1 else names[0]

    def unpack(self, names, src, out, ind):
        if len(names) == 1:
            out.append(f"{ind}let {names[0]} := {src}")
            return
        for j, nm in enumerate(names):
            out.append(f"{ind}let {nm} := {src}" + ".2" * j + (".1" if j < len(names) - 1 else ""))

    def if_stmt(self, n, out, ind, ctx, nxt):
        inner = n["inner"]
        c = self.eval_cond(inner[0], out, ind)
        th, el = inner[1], (inner[2] if len(inner) > 2 else None)
        m1, mu1 = self.exits(th)
        m2, mu2 = self.exits(el)
        scope = set(self.vars)
        if not m1 and not m2:
            # merge: both branches fall through
            self.scope_ids = scope
            o1, a1, w1, c1 = self.scratch(lambda o: self.stmts([th], o, ind + "    ", ctx, lambda o_, i_: None))
            o2, a2, w2, c2 = self.scratch(lambda o: self.stmts([el] if el else [], o, ind + "    ", ctx, lambda o_, i_: None))
            self.drop_scope(scope)
            vids, fcomps = self.sorted_state((a1 | a2) & scope, w1 | w2)
            names = self.state_tuple(vids, fcomps, self.mode == "ok" and c1 + c2 > 0)
            if not names:
                return nxt(out, ind)
            self.ntmp += 1
            p = f"m{self.ntmp}"
            out.append(f"{ind}let {p} :=")
            out.append(f"{ind}  if {c} then")
            out.extend(o1)
            out.append(f"{ind}    {self.tup(names)}")
            out.append(f"{ind}  else")
            out.extend(o2)
            out.append(f"{ind}    {self.tup(names)}")
            self.unpack(names, p, out, ind)
            return nxt(out, ind)
        if mu1 or mu2:
            # one branch always leaves: no duplication of the continuation
            out.append(f"{ind}if {c} then")
            if mu1:
                self.stmts([th], out, ind + "  ", ctx, self.unreachable)
                self.drop_scope(scope)
                out.append(f"{ind}else")
                self.stmts([el] if el else [], out, ind + "  ", ctx, lambda o, i: (self.drop_scope(scope), nxt(o, i)))
            else:
                self.stmts([th], out, ind + "  ", ctx, lambda o, i: (self.drop_scope(scope), nxt(o, i)))
                self.drop_scope(scope)
                out.append(f"{ind}else")
                self.stmts([el], out, ind + "  ", ctx, self.unreachable)
                self.drop_scope(scope)
            return
        self.err(n, "if statement of which a branch may, but need not, leave (return/break/continue) — restructure or extend the translator")

    def unreachable(self, out, ind):
        raise XlateError(f"{self.src}: function {self.fn}: internal: continuation of a statement that always leaves")

    def drop_scope(self, scope):
        for i in list(self.vars):
            if i not in scope:
                self.dead[i] = self.vars.pop(i)

    def switch(self, n, out, ind, ctx, nxt):
        inner = n["inner"]
        body = inner[-1]
        if body.get("kind") != "CompoundStmt":
            self.err(n, "switch without a compound body")
        e = self.eval_rv(inner[0], out, ind)
        self.ntmp += 1
        sv = f"sw{self.ntmp}"
        out.append(f"{ind}let {sv} := {e.term}")
        # every case: `case K: stmts` ending in return (must-exit), no fall-through, default optional last
        cases, cur = [], None
        for c in body.get("inner", []):
            kd = c.get("kind")
            if kd in ("CaseStmt", "DefaultStmt"):
                first = c
                labels = []
                while first.get("kind") in ("CaseStmt", "DefaultStmt"):
                    if first["kind"] == "CaseStmt":
                        v = self.const_case(first["inner"][0])
                        labels.append(v)
                        first = first["inner"][-1]
                    else:
                        labels.append(None)
                        first = first["inner"][-1]
                cur = [labels, [first]]
                cases.append(cur)
            else:
                if cur is None:
                    self.err(c, "statement before the first case label")
                cur[1].append(c)
        for labels, sts in cases:
            m, mu = self.exits({"kind": "CompoundStmt", "inner": sts})
            if not (mu and all(s.get("kind") != "BreakStmt" for s in sts) and self.only_returns(sts)):
                self.err(n, "switch case that does not end in `return` (fall-through / break not translated)")
            if None in labels:
                self.err(n, "default label (not translated)")
        scope = set(self.vars)
        for labels, sts in cases:
            cnd = " ∨ ".join(f"{sv} = {self.lit(v)}" for v in labels)
            out.append(f"{ind}if {cnd} then")
            self.stmts(sts, out, ind + "  ", ctx, self.unreachable)
            self.drop_scope(scope)
            out.append(f"{ind}else")
        return nxt(out, ind)

    def only_returns(self, sts):
        return not any(self.contains_kind(s, ("BreakStmt", "ContinueStmt")) for s in sts)

    def contains_kind(self, n, kinds):
        if isinstance(n, dict):
            if n.get("kind") in kinds:
                return True
            return any(self.contains_kind(c, kinds) for c in n.get("inner", []))
        return False

    def const_case(self, n):
        while n.get("kind") in ("ConstantExpr", "ParenExpr", "ImplicitCastExpr"):
            if "value" in n and n["kind"] == "ConstantExpr":
                return int(n["value"])
            n = n["inner"][0]
        if n.get("kind") == "IntegerLiteral":
            return int(n["value"])
        self.err(n, "case label that is not an integer constant")

    def loop(self, n, out, ind, ctx, nxt):
        inner = n["inner"]
        if n["kind"] == "ForStmt":
            init, _, cnd, inc, body = inner
        else:
            init, inc = None, None
            cnd, body = inner[-2], inner[-1]
        if self.has_return(n):
            self.err(n, "return inside a loop")
        if init and init.get("kind"):
            if init["kind"] == "DeclStmt":
                # loop-scoped declaration: translate as a plain declaration (scope ends with the loop)
                return self.stmts([init, dict(n, kind="WhileStmt", inner=[cnd, body], _for_inc=inc, _body=body)],
                                  out, ind, ctx, nxt)
            self.expr_stmt(init, out, ind)
        if "_body" in n:
            body, inc = n["_body"], n["_for_inc"]
        self.nloop += 1
        lname = f"{self.lean_fn}{'_ok' if self.mode == 'ok' else ''}_loop{self.nloop}"
        okl = ["ok"] if self.mode == "ok" else []
        self.uses_fuel = True
        scope = set(self.vars)
        self.scope_ids = scope
        # pass 1 (scratch): find out what the loop assigns / which families it touches
        def body_pass(o, state_names=None, lname_call=None):
            ind2 = "    "
            c = self.eval_cond(cnd, o, ind2) if cnd and cnd.get("kind") else "True"
            o.append(f"{ind2}if {c} then")
            def do_inc(o_, i_):
                if inc and inc.get("kind"):
                    self.expr_stmt(inc, o_, i_)
                o_.append(i_ + (lname_call or "RECURSE"))
            lctx = {"in_loop": True, "brk": lambda: self.tup(state_names or ["STATE"]), "cont": do_inc}
            self.stmts([body], o, ind2 + "  ", lctx, do_inc)
            self.drop_scope(scope)
            o.append(f"{ind2}else")
            o.append(f"{ind2}  {self.tup(state_names or ['STATE'])}")
        save_used = self.used_fams
        self.used_fams = set()
        save_read = self.read_vars
        self.read_vars = set()
        mark = (len(self.loops), self.nloop, self.ntmp)

        def dry(fn):
            """run a pass whose output is thrown away: loops it defines / numbers it draws do not count"""
            r = self.scratch(fn)
            del self.loops[mark[0]:]
            self.nloop, self.ntmp = mark[1], mark[2]
            return r
        _, a, w, nchk = dry(body_pass)
        used, readv = self.used_fams, self.read_vars
        self.used_fams, self.read_vars = save_used | used, save_read | readv
        vids, fcomps = self.sorted_state(a & scope, w)
        state = okl + [self.vars[i]["name"] for i in vids] + [self.fams[c].name for c in fcomps]
        fixed_v = sorted((i for i in (readv & scope) if i not in vids), key=lambda i: self.vars[i]["ord"])
        fixed_f = sorted((c for c in used if c not in fcomps), key=lambda c: self.fams[c].key)
        fixed = (["undef"] if self.uses_undef_in(body_pass, dry) else []) + [self.vars[i]["name"] for i in fixed_v] + [self.fams[c].name for c in fixed_f]
        call = " ".join([lname] + fixed + ["fuel"] + state)
        o2, _, _, _ = self.scratch(lambda o: body_pass(o, state, call))
        sig = []
        for nm in fixed:
            sig.append(f"({nm} : {self.type_of_name(nm)})")
        sig.append("(fuel : Nat)")
        for nm in state:
            sig.append(f"({nm} : {self.type_of_name(nm)})")
        rty = " × ".join(self.ptype(self.type_of_name(nm)) for nm in state) or "Unit"
        text = [f"/-- loop at {self.src}:{line_of(n)} of `{self.fn}`; state `{self.tup(state)}` -/",
                f"def {lname} " + " ".join(sig) + f" :\n    {rty} :=",
                "  match fuel with",
                f"  | 0 => {self.tup((['false'] if okl else []) + state[len(okl):])}",
                "  | fuel + 1 =>"] + o2
        self.loops.append("\n".join(text))
        self.ntmp += 1
        r = f"l{self.ntmp}"
        out.append(f"{ind}let {r} := {call}")
        self.unpack(state, r, out, ind)
        self.assigned_here |= set(vids)
        self.written_here |= set(fcomps)
        if self.mode == "ok":
            self.nchecks += 1
        return nxt(out, ind)

    def uses_undef_in(self, body_pass, dry):
        save = self.uses_undef
        self.uses_undef = False
        dry(body_pass)
        r = self.uses_undef
        self.uses_undef = save or r
        return r

    @staticmethod
    def ptype(t):
        return f"({t})" if "→" in t else t

    def type_of_name(self, nm):
        if nm == "undef":
            return "Nat → Int"
        if nm == "ok":
            return "Bool"
        for f in self.fams.values():
            if f.name == nm:
                return f.lean_type
        return "Int"

    # -- results -----------------------------------------------------------------------------
    def result(self, term):
        parts = ([term] if term is not None else []) + [f.name for f in self.written_fams()] + \
                [v["name"] for v in self.frag_outs]
        if self.mode == "ok":
            return "ok"
        return self.tup(parts) if parts else "()"

    def written_fams(self):
        return sorted((f for f in self.fams.values() if f.written), key=lambda f: f.key)

    # -- driver ------------------------------------------------------------------------------
    def translate(self):
        texts = []
        for mode in ("val", "ok"):
            self.mode = mode
            last = None
            for _ in range(4):          # iterate until the set of families / written families is stable
                text = self.translate_once()
                sig = (text, tuple(sorted((f.comps, f.written) for f in self.fams.values())))
                if sig == last:
                    break
                last = sig
            texts.append(text)
        return "\n\n".join(texts)

    def mutated_vars(self, n, acc, in_decl=False):
        """ids of variables that are the target of an assignment / ++ / -- / compound assignment anywhere"""
        if isinstance(n, dict):
            k = n.get("kind")
            if (k == "BinaryOperator" and n.get("opcode") == "=") or k == "CompoundAssignOperator" or \
                    (k == "UnaryOperator" and n.get("opcode") in ("++", "--")):
                t = self.skip(n["inner"][0])
                if t.get("kind") == "DeclRefExpr":
                    acc.add(t["referencedDecl"]["id"])
            if k == "UnaryOperator" and n.get("opcode") == "&":
                t = self.skip(n["inner"][0])
                if t.get("kind") == "DeclRefExpr":
                    acc.add(t["referencedDecl"]["id"])
            for c in n.get("inner", []):
                self.mutated_vars(c, acc)
        return acc

    def translate_once(self):
        fams_keep = self.fams
        self.mutated = self.mutated_vars(self.ast, set())
        self.vars, self.dead, self.param_roots, self.loops, self.nloop, self.ntmp, self.nundef = {}, {}, {}, [], 0, 0, 0
        self.assigned_here, self.written_here, self.nchecks = set(), set(), 0
        self.used_fams, self.read_vars, self.scope_ids = set(), set(), set()
        self.frag_params, self.frag_outs, self.outer_locals = [], [], {}
        self.fams = fams_keep
        self.begin_expr()
        params = [c for c in self.ast.get("inner", []) if c.get("kind") == "ParmVarDecl"]
        body = [c for c in self.ast["inner"] if c.get("kind") == "CompoundStmt"][0]
        for pos, p in enumerate(params):
            self.declare(p, is_param=True, pos=pos)
        rt = self.ast["type"]["qualType"].split("(")[0].strip()
        ret_ty = None if rt == "void" else parse_type({"qualType": rt})
        if ret_ty is not None and ret_ty.kind != "int":
            ret_ty = parse_type({"qualType": TYPEDEFS.get(strip_quals(rt), rt)})
        stm = body.get("inner", [])
        out = []
        ind = "  "
        if self.lines:
            lo, hi = self.lines
            self.collect_outer_locals(body, lo, hi)
            stm = self.fragment(body, lo, hi)
            if not stm:
                raise XlateError(f"{self.src}: function {self.fn}: no statement in lines {lo}-{hi}")
            ret_ty = None
        elif ret_ty is not None and ret_ty.kind != "int":
            # a non-integer result (pointer): not representable
            raise XlateError(f"{self.src}:{line_of(self.ast)}: function {self.fn}: outside the translated subset: result type `{rt}`")
        if self.mode == "ok":
            out.append(f"{ind}let ok := true")

        def final(o, i):
            if self.lines:
                # result of a fragment: every local it assigns (declaration order) + written families
                ids = sorted((x for x in self.assigned_here if x in self.vars), key=lambda x: self.vars[x]["ord"])
                self.frag_outs = [self.vars[x] for x in ids if self.vars[x]["kind"] == "int"]
                o.append(i + self.result(None))
            elif ret_ty is None:
                o.append(i + self.result(None))
            else:
                raise XlateError(f"{self.src}: function {self.fn}: control reaches the end of a non-void function")
        self.stmts(stm, out, ind, {}, final)
        # signature
        info = FnInfo()
        info.name, info.lean, info.ret_ty = self.fn, self.lean_fn, ret_ty
        sig = []
        if self.uses_fuel:
            sig.append("(fuel : Nat)")
        if self.uses_undef:
            sig.append("(undef : Nat → Int)")
        info.has_fuel, info.has_undef = self.uses_fuel, self.uses_undef
        for nm, ar in sorted(self.opaque_used.items()):
            sig.append(f"(ext_{lean_name(nm)} : {' → '.join(['Int'] * (ar + 1))})")
        info.opaque = sorted(self.opaque_used.items())
        allv = dict(self.dead)
        allv.update(self.vars)
        fams = sorted(self.fams.values(), key=lambda f: f.key)
        for pos, p in enumerate(params):
            v = allv[p["id"]]
            if v["kind"] == "int":
                sig.append(f"({v['name']} : Int)")
                info.params.append(("int", v["name"], v["ty"]))
            else:
                info.params.append(("ptr", v["cname"], pos))
                for f in fams:
                    if f.rootkey == (0, pos):
                        sig.append(f"({f.name} : {f.lean_type})")
        for v in self.frag_params:
            sig.append(f"({v['name']} : Int)")
        for f in fams:
            if f.rootkey[0] == 1:
                sig.append(f"({f.name} : {f.lean_type})")
        info.fams = fams
        info.written = self.written_fams()
        res = ([] if ret_ty is None else ["Int"]) + [f.lean_type if f.arity == 0 else f"({f.lean_type})" for f in info.written] + \
              ["Int" for _ in self.frag_outs]
        rty = "Bool" if self.mode == "ok" else (" × ".join(res) if res else "Unit")
        where = f"{self.src}, function `{self.fn}`" + (f", lines {self.lines[0]}-{self.lines[1]}" if self.lines else "")
        doc = [f"/-- translation of {where}: " + ("is the C execution defined (no signed overflow, division by zero, bad shift "
                                                    "count, loop within fuel)?" if self.mode == "ok" else "the value computed."),
               "result: `" + ("Bool" if self.mode == "ok" else self.tup((["return value"] if ret_ty is not None else []) + [f"{f.name}" for f in info.written]
                                          + [f"local {v['cname']}" for v in self.frag_outs])) + "`",
               "memory families: " + (", ".join(f"`{f.name}` = `{self.cpath(f)}` : {f.ty.text}" for f in fams) or "none") + " -/"]
        text = "\n\n".join(self.loops + ["\n".join(doc + [f"def {self.lean_fn}{'_ok' if self.mode == 'ok' else ''} " + " ".join(sig) + f" :\n    {rty} :="] + out)])
        self.info = info
        return text

    def cpath(self, f):
        s = f.comps[0]
        for c in f.comps[1:]:
            s += "->" + c
        return s + "[·]" * f.arity

    def collect_outer_locals(self, body, lo, hi):
        def walk(n):
            if isinstance(n, dict):
                if n.get("kind") == "VarDecl" and not (lo <= line_of(n) <= hi):
                    self.outer_locals[n["id"]] = n
                for c in n.get("inner", []):
                    walk(c)
        walk(body)

    def fragment(self, body, lo, hi):
        """the maximal run of sibling statements lying inside [lo, hi] (searching nested compound statements)"""
        kids = body.get("inner", [])
        sel = [c for c in kids if lo <= line_of(c) and self.end_line(c) <= hi]
        if sel:
            return sel
        for c in kids:
            if line_of(c) <= lo and self.end_line(c) >= hi:
                for sub in self.compounds(c):
                    r = self.fragment(sub, lo, hi)
                    if r:
                        return r
        return []

    def compounds(self, n):
        if n.get("kind") == "CompoundStmt":
            yield n
            return
        for c in n.get("inner", []):
            if isinstance(c, dict) and "kind" in c:
                yield from self.compounds(c)

    def end_line(self, n):
        e = (n.get("range") or {}).get("end") or {}
        if "expansionLoc" in e:
            e = e["expansionLoc"]
        return e.get("line", line_of(n))


# ----------------------------------------------------------------------------------------------
# files

HEADER = """-- GENERATED by tools/c2lean.py from {srcs} — do not edit.
-- Regenerated from the current text of the repository on every run of the owning check(s); the
-- refinement theorems in SSVerif/Props/*Xlate.lean are re-checked against this file.
import SSVerif.Translated.Prelude
set_option linter.unusedVariables false
namespace SSVerif.Translated.{ns}
open SSVerif.Translated
"""


def translate_file(ns, items):
    """items: list of dicts(src, fn, ignore_calls=(), lines=None, lean=None); later items may call earlier ones.
    Returns the text of lean/SSVerif/Translated/<ns>.lean"""
    known, parts = {}, []
    for it in items:
        cls = FnXlate
        if it.get("cls"):      # extension subclass "module:Class" (tools/c2lean_x*.py): additive node kinds for that function only
            import importlib
            mod, cname = it["cls"].split(":")
            cls = getattr(importlib.import_module(mod), cname)
        x = cls(it["src"], it["fn"], known, it.get("ignore_calls", ()), it.get("lines"), it.get("lean"),
                it.get("opaque_calls", ()))
        x.item = it
        parts.append(x.translate())
        known[it["fn"]] = x.info
    srcs = ", ".join(sorted({it["src"] for it in items}))
    return HEADER.format(srcs=srcs, ns=ns) + "\n" + "\n\n".join(parts) + f"\n\nend SSVerif.Translated.{ns}\n"


def write_translated(ns, items):
    path = vlib.LEAN / "SSVerif" / "Translated" / f"{ns}.lean"
    text = translate_file(ns, items)
    if path.exists() and path.read_text() == text:
        return False
    path.parent.mkdir(parents=True, exist_ok=True)
    vlib.atomic_write(path, text)
    return True


# ----------------------------------------------------------------------------------------------
# the translated units of this project: Lean module name -> functions (regenerated by the owning checks,
# see tools/gen_consts.py GENERATORS)

_X06 = {"src": "src/fe_interface.c", "cls": "c2lean_x06:FnXlate06", "pos_params": {"inout_spch": "pos"},
        "cell_params": {"inout_nsamps": "val"}, "intptr_vars": ("orig_spch", "orig"), "null_params": ("buf_cep",),
        "drop_calls": ("memcpy", "memmove", "__builtin_memcpy", "__builtin_memmove", "fe_write_frame", "__assert_fail"),
        "enums": ("fe_encoding_e",), "ignore_calls": ("err_msg",)}

_X06S = {"src": "src/fe_sigproc.c", "cls": "c2lean_x06:FnXlate06", "ignore_calls": ("err_msg",),
         "drop_calls": ("memcpy", "memmove", "memset", "__builtin_memcpy", "__builtin_memmove", "__builtin_memset",
                        "fe_pre_emphasis", "fe_copy_to_frame", "fe_hamming_window", "s3_rand_int31", "genrand_int31",
                        "__assert_fail")}

UNITS = {
    # C02 / C01: the 3-state HMM update (scores and back-pointers)
    "Hmm": [{"src": "src/hmm.c", "fn": "hmm_vit_eval_3st_lr"}, {"src": "src/hmm.c", "fn": "hmm_vit_eval_5st_lr"},
            {"src": "src/hmm.c", "fn": "hmm_normalize"}],    # C04: renormalisation of the aligner
    # C18: the any-topology evaluator (nested loops over the transition matrix; `(x = e)` used as a value is the
    # additive node kind of tools/c2lean_x18.py).  Its own unit: Hmm.lean is shared with C01/C02/C04.
    "HmmAny": [{"src": "src/hmm.c", "fn": "hmm_vit_eval_anytopo", "cls": "c2lean_x18:FnXlate18"},
               {"src": "src/hmm.c", "fn": "hmm_vit_eval_3st_lr_mpx"},    # C18: multiplex 3-state evaluator (overflow checks)
               {"src": "src/hmm.c", "fn": "hmm_enter"}, {"src": "src/hmm.c", "fn": "hmm_clear"},   # C18: between / before frames
               # C18: the dispatcher `hmm_vit_eval` and the evaluators it can call (the 3-/5-state ones once more, in this
               # namespace: a call needs the callee in the same unit)
               {"src": "src/hmm.c", "fn": "hmm_vit_eval_3st_lr"}, {"src": "src/hmm.c", "fn": "hmm_vit_eval_5st_lr"},
               {"src": "src/hmm.c", "fn": "hmm_vit_eval_5st_lr_mpx"}, {"src": "src/hmm.c", "fn": "hmm_vit_eval"}],
    # C20: the hash function of both table modes and the table-size selection (E_WARN = err_msg call dropped)
    "HashTable": [{"src": "src/hash_table.c", "fn": "key2hash"},
                  {"src": "src/hash_table.c", "fn": "prime_size", "ignore_calls": ("err_msg",)}],
    # C19: the table-driven log-add (the floating-point fallback `logmath_add_exact` is an opaque parameter)
    "LogMath": [{"src": "src/logmath.c", "fn": "logmath_add", "opaque_calls": ("logmath_add_exact",)}],
    # C06: number of frames a call of fe_process will produce (the `buf_cep == NULL` query), size_t arithmetic
    "FeInterface": [{"src": "src/fe_interface.c", "fn": "output_frame_count"}] +
                   # C06 (tools/c2lean_x06.py): the sample bookkeeping of fe_process and its helpers; float stores are havoc,
                   # the input pointer is an element position, the frame functions are opaque families
                   [dict(_X06, fn=f, **kw) for f, kw in (
                       ("create_overflow_frame", {}), ("overflow_append", {}),
                       ("read_overflow_frame", {"drop_calls": _X06["drop_calls"] + ("fe_read_frame_float32",)}),
                       ("append_overflow_frame", {}),
                       ("fe_process", {"opaque_fams": ("fe_read_frame_float32", "fe_read_frame_int16",
                                                       "fe_shift_frame_float32", "fe_shift_frame_int16")}),
                       ("fe_end", {"drop_calls": _X06["drop_calls"] + ("fe_read_frame_float32",)}),
                       ("fe_process_float32", {}), ("fe_process_int16", {}))],
    # C06 (tools/c2lean_x06.py): what the four frame functions called by fe_process return (float loops, dither,
    # memmove, windowing dropped as havoc; the integer control flow and the value returned are kept)
    "FeSigproc": [dict(_X06S, fn=f) for f in ("fe_spch_to_frame", "fe_read_frame_int16", "fe_read_frame_float32",
                                              "fe_shift_frame_int16", "fe_shift_frame_float32")],
    # C16: compression of a right-context table into distinct senone-sequence ids + a map
    "Dict2pid": [{"src": "src/dict2pid.c", "fn": "compress_table"}],
    # C07: ring index of a frame in feat_buf and the advance of the output side (E_ERROR = err_msg call dropped)
    "Acmod": [{"src": "src/acmod.c", "fn": "calc_feat_idx", "ignore_calls": ("err_msg",)},
              {"src": "src/acmod.c", "fn": "acmod_advance"}],
    # C15: the speech-frame count over the ring of flags
    "Endpointer": [{"src": "src/ps_endpointer.c", "fn": "ep_empty"}, {"src": "src/ps_endpointer.c", "fn": "ep_full"},
                   {"src": "src/ps_endpointer.c", "fn": "ep_speech_count"},
                   # ring push / pop (Props/C15Xlate2): doubles as opaque tokens, memcpy payload dropped, pointer result
                   # as element offset — extension class tools/c2lean_x15.py
                   {"src": "src/ps_endpointer.c", "fn": "ep_push", "cls": "c2lean_x15:FnXlate15", "ignore_calls": ("memcpy",)},
                   {"src": "src/ps_endpointer.c", "fn": "ep_pop", "cls": "c2lean_x15:FnXlate15", "ptr_result": True},
                   # the start/end decision of endpointer_process: vad_classify opaque, E_ERROR/E_DEBUG dropped
                   {"src": "src/ps_endpointer.c", "fn": "endpointer_process", "cls": "c2lean_x15:FnXlate15",
                    "ignore_calls": ("memcpy", "err_msg"), "opaque_calls": ("vad_classify",), "ptr_result": True,
                    "ptr_fns": ("ep_pop",)},
                   # the pop loop of endpointer_end_stream (`*out_nsamp` count), translated as a fragment: the first
                   # `while` of the function; `ep_pop(ep, &is_speech)` with the address of a local
                   {"src": "src/ps_endpointer.c", "fn": "endpointer_end_stream", "lean": "end_stream_loop",
                    "cls": "c2lean_x15:FnXlate15", "ignore_calls": ("memcpy", "err_msg"), "first_while": True},
                   # the whole of endpointer_end_stream: guards, head, loop, trailing-samples decision, ep_clear.
                   # ep_linearize (allocation + memcpy/memmove) is NOT translated: its STATED effect on the flag ring and
                   # on pos (new[i] = old[(pos + i) % maxlen], pos = 0) is assumed here; assert(pos == 0) is in `_ok`
                   {"src": "src/ps_endpointer.c", "fn": "ep_clear"},
                   {"src": "src/ps_endpointer.c", "fn": "endpointer_end_stream", "cls": "c2lean_x15:FnXlate15",
                    "ignore_calls": ("memcpy", "err_msg"), "opaque_calls": ("vad_sample_rate",), "ptr_result": True,
                    "effects": {"ep_linearize": [
                        ("is_speech", 1, "(fun i => ep_is_speech (Int.tmod (ep_pos + i) ep_maxlen))", "int8"),
                        ("pos", 0, "0", "int")]}}],
}


# which property's check regenerates (and whose CxxXlate theorems are about) which unit
OWNERS = {"C02": ["Hmm"], "C01": ["Hmm"], "C19": ["LogMath"], "C20": ["HashTable"], "C15": ["Endpointer"], "C07": ["Acmod"], "C04": ["Hmm"], "C06": ["FeInterface", "FeSigproc"], "C18": ["Hmm", "HmmAny"], "C16": ["Dict2pid"]}

# units of agent xlate-b: data in tools/c2lean_xb_units.py, extension subclass in tools/c2lean_xb.py (additive)
import c2lean_xb_units as _xb_units
UNITS.update(_xb_units.UNITS)
for _p, _us in _xb_units.OWNERS.items():
    OWNERS.setdefault(_p, []).extend(_u for _u in _us if _u not in OWNERS.get(_p, []))

_GENS = {}


def gen_unit(ns):
    if ns not in _GENS:
        def g():
            return write_translated(ns, UNITS[ns])
        g.__name__ = f"c2lean_{ns}"
        _GENS[ns] = g
    return _GENS[ns]


if __name__ == "__main__":
    # python3 tools/c2lean.py src/hash_table.c key2hash [more functions]   -> prints the translation
    print(translate_file("Scratch", [{"src": sys.argv[1], "fn": f, "ignore_calls": ("err_msg",)} for f in sys.argv[2:]]))
