#!/usr/bin/env python3
"""Shared machinery for the /verif checks (see DESIGN.md section 2).

Everything a registered command needs lives under /verif; the repository under
test is read from $VERIF_REPO (default /repo) and rebuilt from its working tree
on every run (content-hash keyed cache under .build/).
"""
import fcntl, hashlib, json, os, random, re, shutil, subprocess, sys, time
from contextlib import contextmanager
from pathlib import Path

ROOT = Path(__file__).resolve().parent.parent
REPO = Path(os.environ.get("VERIF_REPO", "/repo"))
BUILD = ROOT / ".build"
LEAN = ROOT / "lean"
HARNESS = ROOT / "harness"
EVID = ROOT / "evidence"
GUARD = "SOUNDSWALLOWER_VERIF"
NPROC = os.cpu_count() or 4

ALLOWED_AXIOMS = {"propext", "Classical.choice", "Quot.sound"}
FORBIDDEN_RE = re.compile(
    r"\bsorry\b|\badmit\b|^\s*axiom\s|native_decide|bv_decide|implemented_by|\bunsafe\s|maxHeartbeats\s+0\b")


def log(*a):
    print(*a, file=sys.stderr, flush=True)


@contextmanager
def flock(name):
    BUILD.mkdir(parents=True, exist_ok=True)
    f = open(BUILD / name, "w")
    try:
        fcntl.flock(f, fcntl.LOCK_EX)
        yield
    finally:
        fcntl.flock(f, fcntl.LOCK_UN)
        f.close()


def run(cmd, **kw):
    kw.setdefault("stdout", subprocess.PIPE)
    kw.setdefault("stderr", subprocess.STDOUT)
    kw.setdefault("text", True)
    return subprocess.run(cmd, **kw)


# --------------------------------------------------------------------------
# building the code under test

def repo_sources():
    txt = (REPO / "src" / "CMakeLists.txt").read_text()
    m = re.search(r"set\(SOURCES(.*?)\)", txt, re.S)
    return [s for s in m.group(1).split() if s.endswith(".c")]


def tree_hash():
    h = hashlib.sha256()
    files = []
    for sub in ("src", "include"):
        for p in sorted((REPO / sub).rglob("*")):
            if p.is_file() and p.suffix in (".c", ".h", ".txt", ".y", ".l"):
                files.append(p)
    for p in files:
        h.update(str(p.relative_to(REPO)).encode())
        h.update(p.read_bytes())
    return h.hexdigest()


FLAVORS = {
    # sanitised, assertions on: the default for correspondence runs
    "asan": ["-g", "-O1", "-fsanitize=address,undefined", "-fno-sanitize=shift",
             "-fno-sanitize-recover=undefined", "-fno-omit-frame-pointer", "-UNDEBUG"],
    # plain optimised, assertions on: long numeric runs
    "opt": ["-g", "-O2", "-UNDEBUG"],
    # what the pinned test-suite build uses (asserts off)
    "ndebug": ["-g", "-O2", "-DNDEBUG"],
}


def cflags(flavor):
    return FLAVORS[flavor] + ["-D" + GUARD, "-DHAVE_CONFIG_H", "-I" + str(HARNESS / "config"),
                              "-I" + str(REPO / "include"), "-I" + str(REPO / "src"), "-w"]


def build_repo(flavor="asan"):
    """Compile every library source of the current working tree; returns the build dir."""
    key = tree_hash()[:20]
    d = BUILD / "repo" / f"{key}-{flavor}"
    lib = d / "libss.a"
    if lib.exists():
        os.utime(d)
        return d
    with flock("repo.lock"):
        if lib.exists():
            return d
        t0 = time.time()
        tmp = BUILD / "repo" / f"{key}-{flavor}.tmp{os.getpid()}"
        shutil.rmtree(tmp, ignore_errors=True)
        tmp.mkdir(parents=True)
        srcs = repo_sources()
        procs, objs, failed = [], [], []
        flags = cflags(flavor)

        def reap(block):
            for item in list(procs):
                p, s = item
                if block:
                    p.wait()
                if p.poll() is not None:
                    procs.remove(item)
                    if p.returncode != 0:
                        failed.append((s, p.stdout.read().decode(errors="replace")))
        for s in srcs:
            o = tmp / (s.replace("/", "_")[:-2] + ".o")
            objs.append(str(o))
            while len(procs) >= NPROC:
                reap(False)
                time.sleep(0.01)
            p = subprocess.Popen(["clang-14", "-c"] + flags + [str(REPO / "src" / s), "-o", str(o)],
                                 stdout=subprocess.PIPE, stderr=subprocess.STDOUT)
            procs.append((p, s))
        while procs:
            reap(True)
        if failed:
            shutil.rmtree(tmp, ignore_errors=True)
            raise BuildError("repository does not compile:\n" + "\n".join(f"{s}:\n{o}" for s, o in failed))
        r = run(["ar", "rcs", str(tmp / "libss.a")] + objs)
        if r.returncode != 0:
            raise BuildError(r.stdout)
        for o in objs:
            os.unlink(o)
        if d.exists():
            shutil.rmtree(d)
        tmp.rename(d)
        log(f"[build] repo {flavor} {key} in {time.time()-t0:.1f}s")
        # prune old builds: never one used in the last 3 hours (a running check may hold it), keep <= 12
        ds = sorted((p for p in (BUILD / "repo").iterdir() if p.is_dir()), key=lambda p: p.stat().st_mtime)
        for old in ds[:-12]:
            if time.time() - old.stat().st_mtime > 3 * 3600:
                shutil.rmtree(old, ignore_errors=True)
    return d


class BuildError(Exception):
    pass


def build_harness(name, flavor="asan", extra_src=(), extra_flags=(), link_lib=True, cxx=False):
    """Compile harness/<name>.c against the freshly built library; returns the binary path."""
    d = build_repo(flavor)
    src = HARNESS / f"{name}.c"
    deps = [src, HARNESS / "common.h"] + [Path(p) for p in extra_src]
    h = hashlib.sha256()
    for p in deps:
        if p.exists():
            h.update(p.read_bytes())
    h.update(" ".join(extra_flags).encode())
    out = d / f"{name}-{h.hexdigest()[:12]}"
    if out.exists():
        return out
    with flock(f"harness-{name}.lock"):
        if out.exists():
            return out
        cmd = ["clang-14"] + cflags(flavor) + ["-I" + str(HARNESS)] + list(extra_flags) + \
              [str(src)] + [str(p) for p in extra_src] + \
              ([str(d / "libss.a")] if link_lib else []) + ["-lm", "-o", str(out) + ".tmp"]
        r = run(cmd)
        if r.returncode != 0:
            raise BuildError(f"harness {name} does not compile:\n{r.stdout}")
        os.rename(str(out) + ".tmp", out)
    return out


ASAN_ENV = {"ASAN_OPTIONS": "detect_leaks=0:abort_on_error=0:exitcode=99:allocator_may_return_null=1",
            "UBSAN_OPTIONS": "print_stacktrace=1:halt_on_error=1:exitcode=98"}
LSAN_ENV = {"ASAN_OPTIONS": "detect_leaks=1:abort_on_error=0:exitcode=99:allocator_may_return_null=1",
            "UBSAN_OPTIONS": "print_stacktrace=1:halt_on_error=1:exitcode=98"}


def run_bin(path, args=(), stdin_text=None, stdin_bytes=None, timeout=600, leaks=False, env_extra=None):
    env = dict(os.environ)
    env.update(LSAN_ENV if leaks else ASAN_ENV)
    if env_extra:
        env.update(env_extra)
    inp = stdin_bytes if stdin_bytes is not None else (stdin_text.encode() if stdin_text is not None else None)
    try:
        r = subprocess.run([str(path)] + [str(a) for a in args], input=inp, stdout=subprocess.PIPE,
                           stderr=subprocess.PIPE, timeout=timeout, env=env)
        return r.returncode, r.stdout.decode(errors="replace"), r.stderr.decode(errors="replace")
    except subprocess.TimeoutExpired as e:
        return -999, (e.stdout or b"").decode(errors="replace"), "TIMEOUT"


# --------------------------------------------------------------------------
# Lean side

def lake_build(targets=("SSVerif", "ssdriver")):
    """Build the Lean library and the driver; returns (ok, output)."""
    with flock("lake.lock"):
        r = run(["lake", "build"] + list(targets), cwd=LEAN)
    return r.returncode == 0, r.stdout


_DRIVER_COPY = None

# which driver sub-commands (one executable each, lean/Driver/Exe) a property's check runs
def atomic_write(path, text):
    """write a generated file so that a concurrent reader (another check's lake build) never sees it half written"""
    import os as _os, tempfile as _tf
    path = Path(path)
    path.parent.mkdir(parents=True, exist_ok=True)
    fd, tmp = _tf.mkstemp(dir=str(path.parent), prefix="." + path.name + ".", suffix=".tmp")
    with _os.fdopen(fd, "w") as f:
        f.write(text)
    _os.replace(tmp, path)


DRIVERS = {"C09": ["c09", "c09blk"], "C01": ["c01", "c01s", "c01g"], "C02": ["c02", "c02s", "c16"], "C03": ["c01", "c01s", "c07", "c01g"], "C11": ["c11"], "C12": ["c11", "c12r", "c12p"], "C14": ["c14", "c14f"]}


# additional theorem modules (built and audited with the property): composed results living in their own files
EXTRA_PROPS = {"C02": ["C02Lex", "C02Xlate", "C02Search", "C02Cover", "C02Finish", "C02Backoff"], "C14": ["C14Fmt", "C14Xlate"], "C09": ["C09Api", "C09Pred", "C09Blk"], "C18": ["C18More", "C18Xlate", "C18Cmn", "C18Xlate2", "C18Xlate3", "C18Xlate4", "C18Xlate5", "C18Xlate6", "C18Swap"], "C12": ["C12Round", "C12Prune", "C12PruneInt"], "C11": ["C11Build", "C11Cache", "C11Widths"], "C01": ["C01Xlate", "C01Later", "C01Refuse", "C01Hyp"], "C19": ["C19Xlate"], "C05": ["C05Names", "C05Repr", "C05Graph", "C05Surface", "C05Widths"], "C20": ["C20Xlate", "C20Iter"], "C15": ["C15Xlate", "C15Xlate2"], "C10": ["C10More", "C10Bridge", "C10Dict", "C10DictSim", "C10Xlate"], "C08": ["C08Static", "C08Query", "C08Empty"], "C07": ["C07Xlate", "C07Hist", "C07Ring", "C07Query"], "C06": ["C06Closed", "C06Xlate", "C06Xlate2", "C06Swap", "C06SwapMacro"], "C04": ["C04Json", "C04Xlate", "C04Tree", "C04Dead", "C04Wrap", "C04TreeFull", "C04Early"], "C03": ["C03Ret", "C03End", "C03Xlate", "C03Widths", "C03XlateFwd", "C03Fillers"], "C16": ["C16Xlate", "C16Load", "C16D2p", "C16Probe"], "C17": ["C17Fuel", "C17Xlate", "C17XlateTmat", "C17Flags", "C17Fds"]}


def drivers_of(prop):
    return DRIVERS.get(prop, [prop.lower()])


def driver_path():
    """the driver a check executes: `<path> <sub> [args] < ops`.  After `pin_driver` this is a small
    dispatcher in the check's scratch directory that execs the check's own copies of the per-model
    executables (ssdriver-<sub>), so that neither a concurrent relink nor a driver module of ANOTHER
    property that no longer compiles can disturb this check."""
    return _DRIVER_COPY or (LEAN / ".lake" / "build" / "bin" / "ssdriver")


def pin_driver(scratch, subs):
    global _DRIVER_COPY
    scratch = Path(scratch)
    with flock("lake.lock"):
        for sub in subs:
            shutil.copy2(LEAN / ".lake" / "build" / "bin" / f"ssdriver-{sub}", scratch / f"pinned-{sub}.exe")
    dst = scratch / "ssdriver.pinned"
    dst.write_text(f'#!/bin/sh\nexec "{scratch}/pinned-$1.exe" "$@"\n')
    dst.chmod(0o755)
    _DRIVER_COPY = dst
    return dst


def run_driver(sub, stdin_text, timeout=600, args=()):
    r = subprocess.run([str(driver_path()), sub] + list(args), input=stdin_text.encode(), stdout=subprocess.PIPE,
                       stderr=subprocess.PIPE, timeout=timeout)
    return r.returncode, r.stdout.decode(errors="replace"), r.stderr.decode(errors="replace")


def strip_comments(src):
    # remove /- ... -/ (nested not handled beyond one level, enough here) and -- comments
    out, i, depth = [], 0, 0
    while i < len(src):
        if src.startswith("/-", i):
            depth += 1
            i += 2
        elif src.startswith("-/", i) and depth:
            depth -= 1
            i += 2
        elif depth:
            if src[i] == "\n":
                out.append("\n")
            i += 1
        elif src.startswith("--", i):
            while i < len(src) and src[i] != "\n":
                i += 1
        else:
            out.append(src[i])
            i += 1
    return "".join(out)


def import_closure(roots):
    """source files of this project reachable through `import` from the given modules"""
    seen, todo = {}, list(roots)
    while todo:
        m = todo.pop()
        if m in seen:
            continue
        f = LEAN / (m.replace(".", "/") + ".lean")
        if not f.exists():
            continue
        seen[m] = f
        for im in re.findall(r"^\s*(?:public\s+)?import\s+([\w.]+)", f.read_text(), re.M):
            if im.startswith(("SSVerif", "Driver")):
                todo.append(im)
    return sorted(seen.values())


def grep_forbidden(roots=None):
    """Forbidden constructs (outside comments) in the modules the given roots import
    (default: the whole library)."""
    hits = []
    files = import_closure(roots) if roots else \
        sorted(list((LEAN / "SSVerif").rglob("*.lean")) + list((LEAN / "Driver").rglob("*.lean")))
    for p in files:
        body = strip_comments(p.read_text())
        for n, line in enumerate(body.split("\n"), 1):
            if FORBIDDEN_RE.search(line):
                hits.append(f"{p.relative_to(LEAN)}:{n}: {line.strip()}")
    return hits


def audit_axioms(prop):
    """Run `#print axioms` for every property theorem of <prop>; returns {theorem: [axioms]} and problems."""
    f = LEAN / "Audit" / f"{prop}.lean"
    r = run(["lake", "env", "lean", str(f)], cwd=LEAN)
    thms, problems = {}, []
    if r.returncode != 0:
        problems.append(f"audit file does not check: {r.stdout[-2000:]}")
    for m in re.finditer(r"'([^']+)' depends on axioms: \[([^\]]*)\]", r.stdout.replace("\n", " ")):
        ax = [a.strip() for a in m.group(2).split(",") if a.strip()]
        thms[m.group(1)] = ax
        bad = [a for a in ax if a not in ALLOWED_AXIOMS]
        if bad:
            problems.append(f"{m.group(1)} depends on non-standard axioms {bad}")
    for m in re.finditer(r"'([^']+)' does not depend on any axioms", r.stdout):
        thms[m.group(1)] = []
    wanted = re.findall(r"#print axioms\s+(\S+)", f.read_text())
    for w in wanted:
        if not any(t.endswith(w) for t in thms):
            problems.append(f"theorem {w} missing from audit output")
    return thms, problems


def leanchecker(module):
    r = run(["lake", "env", "leanchecker", module], cwd=LEAN)
    return r.returncode == 0, r.stdout[-1500:]


# --------------------------------------------------------------------------
# PRNG (one splitmix64 state per run; every random choice derives from it)

class Rng:
    def __init__(self, seed):
        # the state is a hash of the seed (not a multiple of the stream increment, which would make
        # neighbouring seeds shifted copies of one stream)
        z = (seed ^ 0x5851F42D4C957F2D) & 0xFFFFFFFFFFFFFFFF
        z = ((z ^ (z >> 33)) * 0xFF51AFD7ED558CCD) & 0xFFFFFFFFFFFFFFFF
        z = ((z ^ (z >> 33)) * 0xC4CEB9FE1A85EC53) & 0xFFFFFFFFFFFFFFFF
        self.s = z ^ (z >> 33)

    def u64(self):
        self.s = (self.s + 0x9E3779B97F4A7C15) & 0xFFFFFFFFFFFFFFFF
        z = self.s
        z = ((z ^ (z >> 30)) * 0xBF58476D1CE4E5B9) & 0xFFFFFFFFFFFFFFFF
        z = ((z ^ (z >> 27)) * 0x94D049BB133111EB) & 0xFFFFFFFFFFFFFFFF
        return z ^ (z >> 31)

    def below(self, n):
        return self.u64() % n if n > 0 else 0

    def range(self, a, b):
        return a + self.below(b - a + 1)

    def chance(self, p):
        return (self.u64() >> 11) / float(1 << 53) < p

    def choice(self, xs):
        return xs[self.below(len(xs))]

    def weighted(self, pairs):
        tot = sum(w for _, w in pairs)
        r = self.below(tot)
        for x, w in pairs:
            if r < w:
                return x
            r -= w
        return pairs[-1][0]

    def shuffle(self, xs):
        for i in range(len(xs) - 1, 0, -1):
            j = self.below(i + 1)
            xs[i], xs[j] = xs[j], xs[i]

    def fork(self):
        return Rng(self.u64())


# --------------------------------------------------------------------------
# shrinking (delta debugging over a list)

def ddmin(items, fails, max_tests=400):
    """Smallest sublist (1-minimal within budget) on which `fails(sublist)` is still true."""
    n, tests = 2, 0
    items = list(items)
    while len(items) >= 2 and tests < max_tests:
        chunk = max(1, len(items) // n)
        subsets = [items[i:i + chunk] for i in range(0, len(items), chunk)]
        reduced = False
        for i in range(len(subsets)):
            comp = [x for j, s in enumerate(subsets) if j != i for x in s]
            tests += 1
            if comp and fails(comp):
                items, n, reduced = comp, max(n - 1, 2), True
                break
        if not reduced:
            if n >= len(items):
                break
            n = min(len(items), n * 2)
    return items


# --------------------------------------------------------------------------
# known findings

def known_findings():
    p = ROOT / "known_findings.json"
    if not p.exists():
        return []
    return json.loads(p.read_text()).get("findings", [])


# --------------------------------------------------------------------------
# the check context: obligations, evidence, violations

class Check:
    def __init__(self, prop, tier, seed):
        self.prop, self.tier, self.seed = prop, tier, seed
        self.t0 = time.time()
        self.obligations = []      # (name, ok, detail)
        self.violations = []       # (replay_path, found_input)
        self.known_hits = []
        self.cov = {}
        self.samples = []
        self.assumptions = []
        self.trusted = ["Lean 4.33 kernel (and leanchecker in the thorough tier)"]
        self.rng = Rng(seed)
        self.scratch = BUILD / "run" / f"{prop}-{os.getpid()}"
        shutil.rmtree(self.scratch, ignore_errors=True)
        self.scratch.mkdir(parents=True, exist_ok=True)
        (ROOT / "replays").mkdir(exist_ok=True)

    # -- obligations -------------------------------------------------------
    def oblige(self, name, ok, detail=""):
        self.obligations.append((name, bool(ok), detail))
        if not ok:
            log(f"[{self.prop}] obligation FAILED: {name}: {str(detail)[:600]}")
        return ok

    def lean_obligations(self, extra_targets=()):
        """Build + forbidden-construct grep + axiom audit.  Returns True when all hold.
        Only this property's theorem module (with what it imports) and the driver are built, so a
        proof obligation of another property that no longer checks cannot raise an alarm here."""
        subs = drivers_of(self.prop)
        # the drivers import models only: build and pin them first so that the search for a failing
        # input can still run the model when a proof obligation no longer checks
        okd, outd = lake_build(tuple(f"ssdriver-{x}" for x in subs))
        self.oblige("lake build of the model driver(s) " + ", ".join(f"ssdriver-{x}" for x in subs) + " succeeds", okd,
                    outd[-3000:] if not okd else "")
        if okd:
            pin_driver(self.scratch, subs)
        ok, out = lake_build((f"SSVerif.Props.{self.prop}",) + tuple(f"SSVerif.Props.{x}" for x in EXTRA_PROPS.get(self.prop, []))
                             + tuple(extra_targets))
        self.lake_out = out
        self.oblige(f"lake build SSVerif.Props.{self.prop} (+ imports) succeeds", ok, out[-3000:] if not ok else "")
        if not (ok and okd):
            return False
        hits = grep_forbidden([f"SSVerif.Props.{self.prop}"] + [f"SSVerif.Props.{x}" for x in EXTRA_PROPS.get(self.prop, [])]
                              + [f"Driver.{x.upper()}" for x in subs])
        self.oblige("no sorry/admit/axiom/native_decide/bv_decide/implemented_by/unsafe/maxHeartbeats 0 in the modules "
                    "this property's theorems and the driver import", not hits, hits)
        thms, problems = audit_axioms(self.prop)
        for x in EXTRA_PROPS.get(self.prop, []):
            t2, p2 = audit_axioms(x)
            thms.update(t2)
            problems += p2
        self.theorems = thms
        for t, ax in sorted(thms.items()):
            self.oblige(f"theorem {t} checks; axioms {ax or '[]'} ⊆ {{propext, Classical.choice, Quot.sound}}",
                        all(a in ALLOWED_AXIOMS for a in ax))
        for p in problems:
            self.oblige("axiom audit", False, p)
        if self.tier == "thorough":
            for mod in self.leanchecker_modules():
                ok2, out2 = leanchecker(mod)
                self.oblige(f"leanchecker re-checks {mod}", ok2, out2)
        return all(o[1] for o in self.obligations)

    def leanchecker_modules(self):
        return [f"SSVerif.Props.{self.prop}"] + [f"SSVerif.Props.{x}" for x in EXTRA_PROPS.get(self.prop, [])]

    # -- violations --------------------------------------------------------
    def replay_path(self, tag="replay"):
        return ROOT / "replays" / f"{self.prop}-{tag}-{self.seed}.json"

    def violation(self, replay_obj, found_input, tag="replay", finding_key=None):
        """Record a violation.  `finding_key` identifies the witness class for known_findings.json."""
        if finding_key is not None:
            for kf in known_findings():
                if kf.get("property") == self.prop and kf.get("status", "open") == "open" \
                        and kf.get("key") == finding_key:
                    if finding_key not in [k for k, _ in self.known_hits]:
                        self.known_hits.append((finding_key, kf.get("what", "")))
                    return
        path = self.replay_path(tag if not self.violations else f"{tag}{len(self.violations)}")
        replay_obj = dict(replay_obj)
        replay_obj.setdefault("property", self.prop)
        replay_obj.setdefault("seed", self.seed)
        replay_obj.setdefault("tier", self.tier)
        path.write_text(json.dumps(replay_obj, indent=1, default=str))
        self.violations.append((path, found_input))

    # -- finishing ---------------------------------------------------------
    def finish(self, level="proof", checker_cmd=None, explanation=None):
        failed = [o for o in self.obligations if not o[1]]
        # a failed obligation with no recorded violation is itself a violation (no failing input found)
        if failed and not self.violations:
            self.violation({"broken_obligations": [{"name": n, "detail": d} for n, _, d in failed],
                            "note": "the theorem / correspondence named above no longer checks; "
                                    "the search found no concrete failing input"}, False, tag="obligation")
        n_obl = len(self.obligations)
        n_ok = sum(1 for o in self.obligations if o[1])
        cov = dict(self.cov)
        cov.update({
            "obligations": n_obl,
            "discharged": n_ok,
            "checker_cmd": checker_cmd or f"python3 tools/check.py {self.prop} --tier {self.tier}",
            "trusted_base": self.trusted,
            "obligation_list": [{"name": n, "ok": ok} for n, ok, _ in self.obligations],
            "samples": self.samples[:12] if self.samples else [o[0] for o in self.obligations[:5]],
        })
        if explanation:
            cov["explanation"] = explanation
        ev = {"property_id": self.prop, "tier": self.tier, "seed": self.seed, "level": level,
              "coverage": cov, "assumptions": self.assumptions,
              "wall_s": round(time.time() - self.t0, 2), "violations": len(self.violations),
              "known_findings_hit": [k for k, _ in self.known_hits]}
        EVID.mkdir(exist_ok=True)
        (EVID / f"{self.prop}.json").write_text(json.dumps(ev, indent=1, default=str))
        shutil.rmtree(self.scratch, ignore_errors=True)
        for k, what in self.known_hits:
            print(f"KNOWN-FINDING: property={self.prop} {k}: {what}")
        for path, found in self.violations:
            print(f"VIOLATION property={self.prop} replay={path}" + ("" if found else " no-failing-input-found"))
        sys.stdout.flush()
        return 1 if self.violations else 0


def diff_lines(a, b):
    """First differing line index of two outputs, or None."""
    la, lb = a.rstrip("\n").split("\n"), b.rstrip("\n").split("\n")
    for i in range(max(len(la), len(lb))):
        x = la[i] if i < len(la) else "<missing>"
        y = lb[i] if i < len(lb) else "<missing>"
        if x != y:
            return i, x, y
    return None
