"""Translated units added by agent xlate-b (data only; merged into c2lean.UNITS / c2lean.OWNERS).
All of them use the extension subclass tools/c2lean_xb.py:FnXlateB (switch/break, `do {} while (0)`, noreturn calls)."""

_B = "c2lean_xb:FnXlateB"

UNITS = {
    # C17: the rotate-and-add checksum over 1-, 2- and 4-byte elements (`E_FATAL` = err_msg dropped + exit = not defined)
    "S3fileSum": [{"src": "src/s3file.c", "fn": "chksum_accum", "ignore_calls": ("err_msg",), "cls": _B}],
    # C17: the topology checks of a transition-matrix file (`return -1` inside the loop nest; E_ERROR = err_msg dropped)
    "TmatChk": [{"src": "src/tmat.c", "fn": "tmat_chk_uppertri", "ignore_calls": ("err_msg",), "cls": _B},
                {"src": "src/tmat.c", "fn": "tmat_chk_1skip", "ignore_calls": ("err_msg",), "cls": _B}],
    # C10: un-escaping of a JSON string token of the configuration text (`E_WARN` = err_msg call dropped)
    "ConfigStr": [{"src": "src/config.c", "fn": "unescape", "ignore_calls": ("err_msg",), "cls": _B}],
    # C14: JSON string escaping of the hypothesis / word texts: count, allocate (`ckd_malloc` = fresh object `buf`), write;
    # the result is the buffer written and the counted length `len` (the allocation is `len + 1` bytes)
    "DecoderJson": [{"src": "src/decoder.c", "fn": "json_escape", "ignore_calls": ("err_msg",), "cls": _B,
                     "ptr_result": True, "alloc": {"__ckd_malloc__": "buf"}, "extra_outs": ["len"]}],
    # C03: the frame count the API reports
    "DecoderFrames": [{"src": "src/decoder.c", "fn": "decoder_n_frames", "cls": _B}],
    # C03: the search loop whose return value / `d->n_frame` increment the frame accounting rests on
    # (`search_module_step` = call through `vt->step`: arbitrary function `ext_step` of the frame index)
    "DecoderFwd": [{"src": "src/acmod.c", "fn": "acmod_advance", "cls": _B},
                   {"src": "src/decoder.c", "fn": "search_module_forward", "ignore_calls": ("err_msg",), "cls": _B,
                    "indirect": ("step",)}],
}

OWNERS = {"C17": ["S3fileSum", "TmatChk"], "C10": ["ConfigStr"], "C14": ["DecoderJson"], "C03": ["DecoderFrames", "DecoderFwd"]}
