#!/bin/sh
# Runs the repository's pinned test suite with the SOUNDSWALLOWER_VERIF guard OFF (the cmake build
# never defines it) and prints the passing tests.  Test executables are EXCLUDE_FROM_ALL: the
# `check` target builds them.
set -e
B=${1:-/repo/_build}
cmake --build "$B" >/dev/null 2>&1 || true
cmake --build "$B" --target check >/dev/null 2>&1 || true
ctest --test-dir "$B" -j8 --timeout 900 2>&1 | tail -60
