#!/usr/bin/env python3
"""Builds a tree of ReadAlongs/SoundSwallower with cmake (guard OFF, as the pinned suite does) and runs
ctest; compares the passing set with BASELINE.json's stable_pass.  usage: pinned_tests.py <tree> [builddir]"""
import json, re, subprocess, sys
tree = sys.argv[1]
bdir = sys.argv[2] if len(sys.argv) > 2 else tree + "/_build"
base = json.load(open("/root/.vp/BASELINE.json"))
stable = {t.split("::")[0] for t in base["stable_pass"]}
def sh(cmd):
    return subprocess.run(cmd, shell=True, stdout=subprocess.PIPE, stderr=subprocess.STDOUT, text=True)
r = sh(f"cmake -S {tree} -B {bdir} -G Ninja -DCMAKE_BUILD_TYPE=RelWithDebInfo >/dev/null 2>&1; cmake --build {bdir} 2>&1 | tail -3")
sh(f"cmake --build {bdir} --target check >/dev/null 2>&1")
r = sh(f"ctest --test-dir {bdir} -j8 --timeout 900 2>&1")
passed = set(re.findall(r"Test\s+#\d+:\s+(\S+)\s+\.+\s+Passed", r.stdout))
missing = sorted(stable - passed)
print(f"passed {len(passed)}; stable baseline {len(stable)}; baseline tests not passing: {missing}")
sys.exit(1 if missing else 0)
