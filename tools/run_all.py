#!/usr/bin/env python3
"""coordinator helper: run the quick (or thorough) check of the given properties in parallel and summarise.
usage: run_all.py [--seed N] [--tier quick|thorough] [-j N] [props...]  (default: all claimed in MANIFEST)"""
import argparse, json, subprocess, sys, time
from concurrent.futures import ThreadPoolExecutor
from pathlib import Path
ROOT = Path(__file__).resolve().parent.parent
ap = argparse.ArgumentParser()
ap.add_argument("--seed", default="1")
ap.add_argument("--tier", default="quick")
ap.add_argument("-j", type=int, default=5)
ap.add_argument("props", nargs="*")
a = ap.parse_args()
props = a.props or [c["property_id"] for c in json.loads((ROOT / "MANIFEST.json").read_text())["checks"]]
def one(p):
    t0 = time.time()
    r = subprocess.run(["python3", "tools/check.py", p, "--tier", a.tier, "--seed", a.seed], cwd=ROOT,
                       stdout=subprocess.PIPE, stderr=subprocess.PIPE, text=True)
    v = [l for l in r.stdout.split("\n") if l.startswith("VIOLATION")]
    k = [l for l in r.stdout.split("\n") if l.startswith("KNOWN-FINDING")]
    (ROOT / ".build" / f"last-{p}.log").write_text(r.stdout + "\n--- stderr ---\n" + r.stderr)
    return p, r.returncode, len(v), len(k), round(time.time() - t0)
with ThreadPoolExecutor(a.j) as ex:
    res = list(ex.map(one, props))
bad = 0
for p, rc, v, k, t in res:
    print(f"{p}: exit {rc}  violations {v}  known-findings {k}  {t}s")
    bad += rc != 0
print("ALL GREEN" if not bad else f"{bad} RED")
