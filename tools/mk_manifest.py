#!/usr/bin/env python3
"""Regenerates /verif/MANIFEST.json from the per-property entries below (coordinator tool)."""
import json
from pathlib import Path
ROOT = Path(__file__).resolve().parent.parent

E = {}   # property -> (level text, level note, technique, design ref)

E["C01"] = (
 "Proved in Lean for every well-formed history table (any grammar, any length): find_exit/hyp/seg_iter return a start->final path of the search grammar (a prefix path for partial results), the reported words are its non-filler base-form labels, no final exit means no hypothesis, and a search grammar that passes the verified projection check maps onto the loaded grammar. Table well-formedness is proved for start, null propagation and any append meeting the local condition; for word exits it is evaluated (verified checker wfHistB) on every table dumped from the real decoder. On every dump the model's findExit/hyp/segs are recomputed and diffed exactly with decoder_hyp/seg_iter, and the verified acceptance / prefix-path decision runs on the reported words against the grammar as loaded.",
 "Trusted: Lean kernel, axioms {propext, Classical.choice, Quot.sound}; harness h_c01.c, dumps, glue in tools/props/c01.py; gen_consts. Modelled not verified: fsg_search_find_exit/hyp/seg_iter (hand-written mirror tied by exact recomputation). That a word exit produced by token passing meets the local condition needs the lextree model, which is not built: WFHist is checked per run, not derived. JSGF->FSG compile and base-word map are C05's and C16's subject.",
 "Lean 4 proof over an executable mirror of the backtrace + verified NFA acceptance/projection checks on real decoder output", "DESIGN.md 4/C01")
E["C02"] = (
 "Proved in Lean: the frame-synchronous DP the driver runs equals the maximum over all alignments of any network for any scores and length, and the maximum is achieved; any pruned search (arbitrary mask of edges/entries/exits) reports at most the optimum; the model of hmm_vit_eval (3-state) equals the max-plus step when nothing underflows; history-entry pruning is lossless for every right context; alignments of a network passing the label check spell sentences of the FSG. On generated (grammar shape, audio excerpt) cases the real decoder's reported score must EQUAL the optimum recomputed by the verified DP from dumped senone scores in the no-pruning regime, and be <= it with default beams.",
 "The flat context-dependent network (FlatNet.build) is the modelled definition of a legal alignment, tied to the code by correspondence only; beams are a generic mask, not the real beam logic; only the 3-state left-to-right topology; compallsen=yes required for equality. One known finding (partial result when no exit survives in the last frame). Trusted: kernel, axioms {propext, Quot.sound}, harness h_c02.c/h_c02ops.c, gen_consts.",
 "Lean 4 theorems (DP = max over alignments, pruned <= optimum, HMM step = max-plus step) + recomputation of the optimum on dumps of real decodes + unit correspondence of hmm_vit_eval and fsg_history_entry_add", "DESIGN.md 4/C02")
E["C03"] = (
 "Proved for every well-formed history table: segments tile [0, frames searched) in time order from frame 0 with null segments as zero-length markers, no end frame beyond the frames searched, hypothesis = base forms of the non-filler segment words, per-segment acoustic+grammar scores telescope to the reported path score; explicit lemmas for 0-3 frame utterances; verified Boolean checkers (segsTileB, scoresSumB, proved equivalent to the predicates) run on the real iterator output of every dump, final and partial.",
 "The accounting of processing-call return values against front-end frames and decoder_n_frames (+1 convention read from the source) are checked on the implementation only (the acmod half is C07's model). WFHist is a checked precondition as in C01. Model carries the D24 repair. Trusted: kernel, axioms, harness h_c01.c, tools/props/c01.py, c03.py.",
 "Lean 4 proof over the backtrace/segment mirror + verified checkers on real iterator output + exact recomputation diff", "DESIGN.md 4/C03")
E["C06"] = (
 "Machine-checked for all schedules: for every frame_size >= frame_shift > 0, every signal length, every partition into chunks (incl. 0/1/<window/>>buffer) and every per-call output limit, the index model of fe_process/fe_end emits exactly the canonical frame list (window k*shift..min(k*shift+size,N), prior k*shift-1), the count depends only on N, every sample is consumed exactly once, no read leaves the current call's buffer, and the dry-run count bounds the frames; a naturality theorem lifts it to arbitrary sample values. Tied to the code by per-call counters (consumed, frames, overflow) diffed against the model over 19 front-end configurations with exact-size ASan buffers, and cepstra compared BITWISE with the single-call reference (int16 and float32).",
 "Float arithmetic is opaque: bit-identity rests on determinism of the compiled per-frame function (observed by memcmp, not proved). int16/float32 scaling exactness is an exhaustive test over 65536 values. Byte-swap, dither, fe_end with room 0, chunks >= 2^31 samples outside scope. Model = repaired tree (D9, D25 fixed); the pinned tree is characterised by C06_pinned_tree_deviation. Trusted: kernel, axioms, harness h_c06.c, gen_consts.",
 "Lean 4 invariant induction over the call list of an executable index model + naturality; line-protocol correspondence under ASan/UBSan; bitwise self-comparison oracle; exhaustive small scope", "DESIGN.md 4/C06")
E["C09"] = (
 "Proved for all call histories over the protocol automaton with ownership ledger: every call returns a documented class or is out-of-protocol with state unchanged; listed out-of-order calls (audio before start/after end, start twice, end without start, queries with no search) are no-ops returning the documented error and leave the decoder usable; the ledger is empty after any closing history (incl. free mid-utterance, abandoned iterators); in-protocol iterator calls touch only live objects. PARTIAL: memory safety, absence of aborts and leaks in the C code are observed, not proved: generated histories are replayed on the real library under ASan+UBSan+LSan (asserts on) with per-call diff of return class and protocol state against the model.",
 "Audio/grammar-dependent outcomes are inputs of the model taken from the implementation; STARTED/PROCESSING merged; one decoder at a time; malformed model files/grammar text left to C17/C10; model = repaired code (D16, D26, D27 ...). Trusted: kernel, axioms {propext, Quot.sound}, harness h_c09.c, generator/classifier in tools/props/c09.py, sanitizers as observers.",
 "Lean 4 protocol automaton + ownership-ledger invariants by induction over call lists; history replay under ASan/UBSan/LSan with per-call model diff", "DESIGN.md 4/C09")
E["C15"] = (
 "Lean proof that the index-level model of ps_endpointer.c (with fix D01) never leaves its arrays and refines an unbounded FIFO capped at maxlen; on that FIFO the returned frames are exact contiguous excerpts of the input, the start/end trigger rule, timestamps and end-of-stream behaviour are as stated -- for every accepted configuration, every decision sequence, every end-of-stream point and reuse after it. Tied to the code by compiling the real ps_endpointer.c + ps_vad.c with a stub vad_classify whose decision travels in the frame, byte-identified frames, per-op diff against the model, an independent Python reference oracle, exhaustive small scopes.",
 "Proof complete for the integer/index logic (five theorems, none partial). The float computation of thresholds and the double clocks are not modelled (times tied as sample counts); memory safety of the C code is observed under ASan/UBSan. After an end_stream that returned data, times are stated relative to the queue clock (skew), which the property text does not cover. Trusted: kernel, axioms, harness h_c15.c, tools/props/c15.py.",
 "Lean 4 simulation proof ring->FIFO + history invariant; stub-VAD correspondence harness; exhaustive decision sequences in small scope", "DESIGN.md 4/C15")
E["C16"] = (
 "Proof: all clauses (add_then_lookup, others_unchanged over histories, reject_is_noop with the exact rejection conditions, grow_transparent, alt_chain, base-spelling spec, boundary-table coverage) proved for every history and capacity over the model of dict_add_word / decoder_add_word / dict2pid row filling; tied to the code by generated constants, model-vs-implementation replay of addition histories under ASan/UBSan (return values + full dictionary dump), growth past the preallocated table, the full 134k-word dictionary, and a property oracle on the C outputs incl. decoding with the new words.",
 "Model = code with fixes D02-D05. Senone-id contents of dict2pid rows, the search and hypothesis, and memory safety are observed, not proved. The hash table is abstracted to the map justified by C20 (C16_key_equality links the two). Alternates of alternates are reported under the intermediate spelling (the code's behaviour, stated in C16_alt_chain). Trusted: kernel, axioms, harness h_c16.c, tools/props/c16.py, gen_consts.",
 "Lean 4 invariant proof (WF with linked-chain refinement) over an executable model; correspondence harness with random + exhaustive small-scope + growth histories; Python oracle", "DESIGN.md 4/C16")
E["C19"] = (
 "Proof. For every table satisfying TableOK the model of logmath_add is proved symmetric on log-probabilities, identity on log-zero, bounded by max and max+t[0], monotone over all int32 arguments. For the four (base, shift) configurations the code base instantiates, the tables dumped from logmath_init of the current build are proved by kernel computation (verified interval checker, decide +kernel, re-run whenever the table changes) to satisfy TableOK and to be the rounded log_B(1+B^-d) within 1/2+eps at every distance inside and beyond the table, hence |logmath_add(x,y) - log_B(B^x+B^y)| <= 1/2+eps (Real.logb). The integer side of log/exp loses less than one unit and log(exp l) = l. Correspondence: exhaustive difference sweeps in both orders, range ends, log-zero, log/exp sweeps on the real code; exact-arithmetic oracle on every implementation result.",
 "Partial on the round trip: 'never increases' is false for the code as it is (D20, known finding: truncation toward zero); proved for p >= 1 with a <1-unit bound otherwise. Accuracy is established for the instantiated configurations, not for arbitrary floating-point bases. libm log/pow, logmath_add_exact and int overflow (UB, traps under UBSan) are outside the model. Props/C19 imports one Mathlib module (Real.logb restatement). Trusted: kernel, axioms, table dumper tools/gen_logtables.py, harness h_c19.c.",
 "Lean 4 model + generic theorems; verified fixed-point interval checker run by decide +kernel on tables regenerated from the running code; exhaustive-sweep correspondence", "DESIGN.md 4/C19")
E["C20"] = (
 "Kernel-checked refinement theorem: for every operation history on a fresh table (any size, any lawful mode) the model of hash_table.c returns what an abstract map returns, inuse = number of distinct live keys, iteration/tolist enumerate the live entries exactly once; the three modes of the C code are proved lawful. Tied to the code by the regenerated prime table and by replaying generated colliding-key histories (prefix keys, case variants, empty key, embedded zeros, shared-prefix families in one bucket) on the real code under ASan/UBSan and on the model, diffing canonicalised outputs; a Python dict is the implementation-side oracle; exhaustive op sequences of length <= 5 over three colliding keys in the thorough tier.",
 "Trusted: Lean kernel; axioms propext, Quot.sound; harness/h_c20.c, generator and diff in tools/props/c20.py; gen_consts.py. hash_table.c is modelled (hand-written Lean) and validated by correspondence, not verified line by line; memory safety of the C code is observed by sanitizers only. Binary keys in a case-insensitive table are documented as unpredictable and outside the quantifier.",
 "Lean 4 refinement proof (chained hash table -> abstract map) + differential correspondence", "DESIGN.md 4/C20")

PENDING_REASON = "check under construction in this round (see DESIGN.md section 7); not claimed until its theorem and correspondence run green on the repaired tree"


def main():
    props = [json.loads(l)["id"] for l in open(ROOT / "properties.jsonl")]
    m = {
        "version": 1,
        "setup_cmd": "python3 tools/setup.py",
        "hooks": {
            "guard": "SOUNDSWALLOWER_VERIF",
            "enable": "checks compile /repo/src/*.c themselves (tools/vlib.py build_repo) with -DSOUNDSWALLOWER_VERIF; no hook is needed: every internal the harnesses read is declared in headers under include/soundswallower (private structs are reached by #include-ing the .c file into the harness)",
            "baseline_off_cmd": "sh tools/baseline_off.sh /repo/_build",
            "source_commits": [],
            "add_only": True,
        },
        "engines": [{
            "name": "lean-proof+correspondence", "path": "tools/check.py", "serves_properties": sorted(E),
            "kind_free_text": "Lean 4 theorems over hand-written executable models (lean/SSVerif), tied to /repo by constants/tables regenerated from the current sources and by differential replay of generated op files on the real C code (clang ASan/UBSan, asserts on) and on the model (compiled driver ssdriver); implementation-side oracles evaluate the property on what the C code returned"}],
        "checks": [],
        "not_applicable": [],
        "notes": "See DESIGN.md. Every check: python3 tools/check.py <ID> --tier quick|thorough [--seed N]; replays under replays/; known_findings.json lists recorded (open) and repaired (fixed) defects of the pinned tree.",
    }
    for p in props:
        if p in E:
            text, note, tech, ref = E[p]
            m["checks"].append({
                "property_id": p,
                "quick_cmd": f"python3 tools/check.py {p} --tier quick",
                "thorough_cmd": f"python3 tools/check.py {p} --tier thorough",
                "evidence_file": f"evidence/{p}.json",
                "replay_cmd_template": f"python3 tools/check.py {p} --replay {{path}}",
                "engine": "lean-proof+correspondence",
                "level_claimed": {"category": "proof", "text": text, "design_ref": ref},
                "level_note": note, "technique": tech})
        else:
            m["not_applicable"].append({"property_id": p, "reason": PENDING_REASON})
    (ROOT / "MANIFEST.json").write_text(json.dumps(m, indent=1))
    print("claimed:", sorted(E))


if __name__ == "__main__":
    main()
