#!/usr/bin/env python3
"""c2lean_xb — additive extensions of the C→Lean translator (tools/c2lean.py) used by the units of agent xlate-b
(C17 s3file checksum, …).  A UNITS item selects the subclass with `"cls": "c2lean_xb:FnXlateB"`; the units of the
other properties keep the base class, so their output is unchanged.

Additional constructs read (same semantics conventions as the base translator):
  * `do { … } while (0)` (the statement-macro idiom, e.g. `E_FATAL`) whose body has no break/continue: the body once;
  * a call statement of a function that does not return (`exit`, `abort`): the C execution stops there, which the
    translation renders as "not defined from here on": `ok := false` in `f_ok` (the value of `f` is then
    meaningless, exactly as after a signed overflow), nothing in the value function;
  * `switch` whose cases end in `break` (or are last), with an optional `default:` — an if/else chain over the
    (disjoint) constant labels that rebinds the locals / memory families the cases assign (merge form, like an `if`
    both of whose branches fall through); several labels on one statement list (`case 4: case 8:`) are a disjunction;
    a case falling through into the next one is NOT translated (error);
  * `case 'x':` (character literal labels);
  * `*p++` / `*p--` on a pointer local (value: the old pointer; the local advances after the statement), and the
    difference `p - q` of two pointers into the same object (difference of the offsets, in elements);
  * item option `"alloc": {"<allocator>": "<name>"}` — a pointer-valued call of the allocator (e.g. `__ckd_malloc__`)
    yields a fresh object, rendered as one more memory family `<name>` of the function (as if the caller had passed
    the buffer in; its size is not modelled — return the size expression with `extra_outs` and state the bound);
    `p = q = alloc(…)` on pointer locals is read as `q = alloc(…); p = q;`
  * item option `"ptr_result": True` — a function returning a pointer: the return value is dropped (the result is
    the tuple of written families), item option `"extra_outs": [names]` appends the final values of those integer
    locals to the result;
  * `static const char tab[] = "literal";` local: reads of `tab[i]` become reads of a read-only family `tab` (a
    parameter of the translation) and the literal is emitted as the definition `<fn>_<tab>_init : Int → Int`, so the
    refinement theorem is stated for `tab := <fn>_<tab>_init`;
  * `return e;` inside a loop (integer result): the loop nest is rewritten before translation into the equivalent
    `xb_rv = e; xb_ret = 1; break;` with two fresh integer locals (`xb_ret`, `xb_rv`, initialised to 0 in front of
    the outermost loop), `if (xb_ret != 0) break;` behind every inner loop that contains a return, and
    `if (xb_ret != 0) return xb_rv;` behind the outermost one;
  * `if ((v = e) REL c) …` with `v` an integer local: the assignment is hoisted in front of the `if`;
  * item option `"indirect": ("step", …)` — a call through a function pointer held in a structure field of that
    name (`(*(s->vt->step))(s, i)`) is an arbitrary function `ext_step` of its integer arguments (a read-only family).
"""
import sys
from pathlib import Path
sys.path.insert(0, str(Path(__file__).resolve().parent))
import c2lean
from c2lean import XlateError

NORETURN = {"exit", "abort"}


class FnXlateB(c2lean.FnXlate):

    def callee_name(self, n):
        n = self.skip(n)
        if n.get("kind") != "CallExpr":
            return None
        callee = self.skip(n["inner"][0])
        while callee.get("kind") == "ImplicitCastExpr":
            callee = self.skip(callee["inner"][0])
        return (callee.get("referencedDecl") or {}).get("name")

    def ptr(self, n):
        # the offset variable of a pointer local read inside a loop must become a parameter of the loop function
        # (the base class records only integer locals in `read_vars`)
        m = self.skip(n)
        if m.get("kind") == "UnaryOperator" and m.get("opcode") in ("++", "--") and m.get("isPostfix") \
                and c2lean.parse_type(m.get("type")).kind == "ptr":
            # `*p++ = e` / `x = *p++`: the value is the old pointer, the local is advanced after the statement
            lv = self.lvalue(m["inner"][0])
            v = lv.var
            if v is None or v["kind"] != "ptr" or v["param"] or v.get("alias") or v["ptr"] is None:
                self.err(m, "postfix ++/-- on a pointer that is not an assigned pointer local")
            if v["decl"]["id"] in self.post_vars:
                self.err(m, f"`{v['cname']}` modified twice in one expression")
            self.post_vars.add(v["decl"]["id"])
            self.post.append(("let", v, f"{v['name']} {'+' if m['opcode'] == '++' else '-'} 1"))
            self.read_vars.add(v["decl"]["id"])
            return c2lean.Ptr(v["ptr"].fam, v["ptr"].idx, v["name"])
        if m.get("kind") in ("ImplicitCastExpr", "CStyleCastExpr") and m.get("castKind") == "BitCast" and \
                self.skip(m["inner"][0]).get("kind") == "CallExpr" and self.alloc_var(m["inner"][0]) is not None:
            m = self.skip(m["inner"][0])        # `(char *)alloc(…)`: the fresh object itself
        if m.get("kind") == "CallExpr" and self.alloc_var(m) is not None:
            for a in m["inner"][1:]:            # the size expression is evaluated (its checks count), the value dropped
                if c2lean.parse_type(a.get("type")).kind == "int":
                    e = self.rv(a)
                    self.conds += e.conds
            return self.alloc_var(m)["ptr"]
        p = super().ptr(n)
        if m.get("kind") == "ImplicitCastExpr" and m.get("castKind") in ("LValueToRValue", "ArrayToPointerDecay"):
            inner = self.skip(m["inner"][0])
            if inner.get("kind") == "DeclRefExpr":
                v = self.vars.get((inner.get("referencedDecl") or {}).get("id"))
                if v is not None and v["kind"] == "ptr" and not v["param"] and not v.get("alias"):
                    self.read_vars.add(v["decl"]["id"])
        return p

    def rv(self, n):
        m = self.skip(n)
        if m.get("kind") == "BinaryOperator" and m.get("opcode") == "-" and \
                all(c2lean.parse_type(x.get("type")).kind == "ptr" for x in m["inner"]):
            # difference of two pointers into the same object (same access path): difference of the offsets,
            # in elements (`ptrdiff_t`); both must lie in one array for the C expression to be defined
            p, q = self.ptr(m["inner"][0]), self.ptr(m["inner"][1])
            if p.fam != q.fam or list(p.idx) != list(q.idx):
                self.err(m, "difference of pointers into different objects")
            t = f"({p.off if p.off is not None else 0} - {q.off if q.off is not None else 0})"
            return self.E(t, [], c2lean.parse_type(m.get("type")))
        return super().rv(n)

    def expr_stmt(self, n, out, ind):
        m = self.skip(n)
        if m.get("kind") == "BinaryOperator" and m.get("opcode") == "=" and \
                c2lean.parse_type(m["inner"][0].get("type")).kind == "ptr":
            r = self.skip(m["inner"][1])
            if r.get("kind") == "BinaryOperator" and r.get("opcode") == "=":
                # p = q = e  on pointers:  q = e; p = q;
                self.expr_stmt(r, out, ind)
                q = r["inner"][0]
                rd = {"kind": "ImplicitCastExpr", "castKind": "LValueToRValue", "type": q.get("type"), "inner": [q],
                      "range": q.get("range")}
                return super().expr_stmt(dict(m, inner=[m["inner"][0], rd]), out, ind)
        return super().expr_stmt(n, out, ind)

    def is_zero(self, n):
        n = self.skip(n)
        while n.get("kind") in ("ImplicitCastExpr", "ParenExpr", "ConstantExpr"):
            n = n["inner"][0]
        return n.get("kind") == "IntegerLiteral" and int(n["value"]) == 0

    # -- functions that allocate and return a buffer ---------------------------------------------
    FAKE = "0xc2leanxb"

    def opt(self, key, default=None):
        return (getattr(self, "item", None) or {}).get(key, default)

    def translate_once(self):
        ast, saved = self.ast, None
        if self.opt("ptr_result") or self.opt("alloc"):
            saved = (ast["type"]["qualType"], list(ast["inner"]))
            if self.opt("ptr_result"):
                ast["type"]["qualType"] = "void (" + ast["type"]["qualType"].split("(", 1)[1]
            inner, fakes = [], []
            for j, nm in enumerate(sorted(set((self.opt("alloc") or {}).values()))):
                fakes.append({"kind": "ParmVarDecl", "id": f"{self.FAKE}{j}", "name": nm, "type": {"qualType": "char *"},
                              "range": ast.get("range"), "loc": ast.get("loc")})
            placed = False
            for c in ast["inner"]:
                if c.get("kind") == "CompoundStmt" and not placed:
                    inner.extend(fakes)
                    placed = True
                inner.append(c)
            ast["inner"] = inner
        try:
            return super().translate_once()
        finally:
            if saved:
                ast["type"]["qualType"], ast["inner"] = saved

    def alloc_var(self, n):
        name = self.callee_name(n)
        tgt = (self.opt("alloc") or {}).get(name)
        if tgt is None:
            return None
        for v in self.vars.values():
            if v["param"] and v["cname"] == tgt and str(v["decl"]["id"]).startswith(self.FAKE):
                return v
        return None

    def static_table(self, d):
        """`static const char t[] = "…"` → the list of its char values (with the terminating NUL), else None"""
        if d.get("kind") != "VarDecl" or d.get("storageClass") != "static":
            return None
        if "const" not in d["type"]["qualType"] or c2lean.parse_type(d.get("type")).kind != "array":
            return None
        init = [c for c in d.get("inner", []) if "kind" in c and not c["kind"].endswith("Attr")]
        if len(init) != 1 or init[0].get("kind") != "StringLiteral":
            return None
        import ast as _pyast
        text = init[0]["value"]
        try:
            b = _pyast.literal_eval("b" + text)
        except Exception:
            return None
        return [x if x < 128 else x - 256 for x in b] + [0]

    # -- return inside a loop: rewritten into flag + break ---------------------------------------
    INT = {"qualType": "int"}

    def xb_ref(self, vid, name):
        return {"kind": "DeclRefExpr", "type": dict(self.INT), "valueCategory": "lvalue",
                "referencedDecl": {"id": vid, "kind": "VarDecl", "name": name, "type": dict(self.INT)}}

    def xb_rval(self, vid, name):
        return {"kind": "ImplicitCastExpr", "castKind": "LValueToRValue", "type": dict(self.INT), "valueCategory": "prvalue",
                "inner": [self.xb_ref(vid, name)]}

    def xb_lit(self, v):
        return {"kind": "IntegerLiteral", "type": dict(self.INT), "valueCategory": "prvalue", "value": str(v)}

    def xb_assign(self, vid, name, e, at):
        return {"kind": "BinaryOperator", "opcode": "=", "type": dict(self.INT), "valueCategory": "prvalue",
                "range": at.get("range"), "inner": [self.xb_ref(vid, name), e]}

    def xb_flagtest(self, vid, at):
        return {"kind": "BinaryOperator", "opcode": "!=", "type": dict(self.INT), "valueCategory": "prvalue",
                "range": at.get("range"), "inner": [self.xb_rval(vid, "xb_ret"), self.xb_lit(0)]}

    def xb_tr(self, n, ids):
        """replace the returns below `n` (n itself is not a loop)"""
        if not isinstance(n, dict) or not self.has_return(n):
            return n
        k = n.get("kind")
        rid, vid = ids
        if k == "ReturnStmt":
            if not n.get("inner") or c2lean.parse_type(n["inner"][0].get("type")).kind != "int":
                self.err(n, "return without an integer value inside a loop")
            return {"kind": "CompoundStmt", "range": n.get("range"), "inner": [
                self.xb_assign(vid, "xb_rv", n["inner"][0], n), self.xb_assign(rid, "xb_ret", self.xb_lit(1), n),
                {"kind": "BreakStmt", "range": n.get("range")}]}
        if k in ("ForStmt", "WhileStmt"):
            inner = list(n["inner"])
            inner[-1] = self.xb_tr(inner[-1], ids)
            return {"kind": "CompoundStmt", "range": n.get("range"), "inner": [
                dict(n, inner=inner),
                {"kind": "IfStmt", "range": n.get("range"),
                 "inner": [self.xb_flagtest(rid, n), {"kind": "BreakStmt", "range": n.get("range")}]}]}
        if k in ("DoStmt", "SwitchStmt"):
            self.err(n, f"return inside a {k} inside a loop")
        return dict(n, inner=[self.xb_tr(c, ids) for c in n.get("inner", [])])

    def xb_rewrite_loop(self, n):
        self.xb_count = getattr(self, "xb_count", 0) + 1
        rid, vid = f"0xc2leanxbret{self.xb_count}", f"0xc2leanxbrv{self.xb_count}"
        ids = (rid, vid)

        def decl(i, nm):
            return {"kind": "DeclStmt", "range": n.get("range"), "inner": [
                {"kind": "VarDecl", "id": i, "name": nm, "type": dict(self.INT), "range": n.get("range"), "init": "c",
                 "inner": [self.xb_lit(0)]}]}
        inner = list(n["inner"])
        inner[-1] = self.xb_tr(inner[-1], ids)
        loop2 = dict(n, inner=inner, _xb_done=True)
        ret = {"kind": "IfStmt", "range": n.get("range"), "inner": [
            self.xb_flagtest(rid, n),
            {"kind": "ReturnStmt", "range": n.get("range"), "inner": [self.xb_rval(vid, "xb_rv")]}]}
        return [decl(rid, "xb_ret"), decl(vid, "xb_rv"), loop2, ret]

    def has_return(self, n):
        if isinstance(n, dict) and n.get("_xb_done"):
            return False
        return super().has_return(n)

    def hoist_assign(self, n):
        """IfStmt whose condition is `(v = e) REL c`  →  [v = e;  if (v REL c) …]   (else None)"""
        c = self.skip(n["inner"][0])
        if c.get("kind") != "BinaryOperator" or c.get("opcode") not in ("<", "<=", ">", ">=", "==", "!="):
            return None
        a = self.skip(c["inner"][0])
        if a.get("kind") != "BinaryOperator" or a.get("opcode") != "=":
            return None
        lhs = self.skip(a["inner"][0])
        if lhs.get("kind") != "DeclRefExpr" or c2lean.parse_type(lhs.get("type")).kind != "int":
            return None
        rd = {"kind": "ImplicitCastExpr", "castKind": "LValueToRValue", "type": lhs.get("type"), "valueCategory": "prvalue",
              "inner": [lhs], "range": lhs.get("range")}
        c2 = dict(c, inner=[rd, c["inner"][1]])
        return [a, dict(n, inner=[c2] + n["inner"][1:])]

    def call(self, n, want_value):
        callee = self.skip(n["inner"][0])
        while callee.get("kind") in ("ImplicitCastExpr", "ParenExpr") or \
                (callee.get("kind") == "UnaryOperator" and callee.get("opcode") == "*"):
            callee = self.skip(callee["inner"][0])
        if callee.get("kind") == "MemberExpr" and callee.get("name") in (self.opt("indirect") or ()):
            name = callee["name"]
            terms = []
            for a in n["inner"][1:]:
                if c2lean.parse_type(a.get("type")).kind == "int":
                    e = self.rv(a)
                    self.conds += e.conds
                    terms.append(self.atom(e.term))
            # rendered as a read-only memory family `ext_<name>` (so that loops receive it as a parameter)
            f = self.fam(("ext_" + name,), len(terms), c2lean.parse_type(n.get("type")), n, (1, 0))
            self.used_fams.add(f.comps)
            if not want_value:
                return None
            return self.E("(" + " ".join([f.name] + terms) + ")", [], c2lean.parse_type(n.get("type")))
        return super().call(n, want_value)

    def stmts(self, lst, out, ind, ctx, k):
        if lst:
            n, rest = lst[0], lst[1:]
            kind = n.get("kind")
            if kind == "IfStmt" and self.hoist_assign(n) is not None:
                return self.stmts(self.hoist_assign(n) + rest, out, ind, ctx, k)
            if kind in ("ForStmt", "WhileStmt") and not ctx.get("in_loop") and not n.get("_xb_done") \
                    and c2lean.FnXlate.has_return(self, n):
                return self.stmts(self.xb_rewrite_loop(n) + rest, out, ind, ctx, k)
            if kind == "DeclStmt" and len(n["inner"]) == 1 and self.static_table(n["inner"][0]) is not None:
                d = n["inner"][0]
                if self.mode != "ok":
                    vals = self.static_table(d)
                    self.loops.append(
                        f"/-- the literal initialiser of `static const char {d['name']}[]` in `{self.fn}` ({self.src}:{c2lean.line_of(d)}) -/\n"
                        f"def {self.lean_fn}_{c2lean.lean_name(d['name'])}_init : Int → Int := fun i =>\n"
                        f"  if i < 0 then 0 else ([{', '.join(str(x) for x in vals)}] : List Int).getD i.toNat 0")
                return self.stmts(rest, out, ind, ctx, k)
            if kind == "ReturnStmt" and self.opt("ptr_result") and n.get("inner") and \
                    c2lean.parse_type(n["inner"][0].get("type")).kind == "ptr":
                if ctx.get("in_loop"):
                    self.err(n, "return inside a loop")
                names = self.opt("extra_outs", [])
                self.frag_outs = [v for nm in names for v in self.vars.values() if v["cname"] == nm and v["kind"] == "int"]
                if len(self.frag_outs) != len(names):
                    self.err(n, f"extra_outs {names}: not all are integer locals in scope")
                out.append(ind + self.result(None))
                return
            if kind == "DoStmt":
                body, cnd = n["inner"][0], n["inner"][1]
                if self.is_zero(cnd) and not self.contains_kind(body, ("BreakStmt", "ContinueStmt")):
                    return self.stmts([body] + rest, out, ind, ctx, k)
            if self.callee_name(n) in NORETURN:
                if self.mode == "ok":
                    out.append(f"{ind}let ok := false")
                    self.nchecks += 1
                return self.stmts(rest, out, ind, ctx, k)
        return super().stmts(lst, out, ind, ctx, k)

    def exits(self, n):
        if n is not None and n.get("kind") == "DoStmt":
            return self.has_return(n), False
        return super().exits(n)

    def const_case(self, n):
        m = n
        while m.get("kind") in ("ConstantExpr", "ParenExpr", "ImplicitCastExpr"):
            if "value" in m and m["kind"] == "ConstantExpr":
                return int(m["value"])
            m = m["inner"][0]
        if m.get("kind") == "CharacterLiteral":
            return int(m["value"])
        return super().const_case(n)

    # -- switch with `break` -------------------------------------------------------------------
    def split_cases(self, n):
        body = n["inner"][-1]
        if body.get("kind") != "CompoundStmt":
            self.err(n, "switch without a compound body")
        cases, cur = [], None
        for c in body.get("inner", []):
            if c.get("kind") in ("CaseStmt", "DefaultStmt"):
                first, labels = c, []
                while first.get("kind") in ("CaseStmt", "DefaultStmt"):
                    labels.append(self.const_case(first["inner"][0]) if first["kind"] == "CaseStmt" else None)
                    first = first["inner"][-1]
                cur = [labels, [first]]
                cases.append(cur)
            else:
                if cur is None:
                    self.err(c, "statement before the first case label")
                cur[1].append(c)
        return cases

    def switch(self, n, out, ind, ctx, nxt):
        cases = self.split_cases(n)
        if all(None not in labels and self.exits({"kind": "CompoundStmt", "inner": sts})[1]
               and self.only_returns(sts) for labels, sts in cases):
            return super().switch(n, out, ind, ctx, nxt)
        norm = []
        for j, (labels, sts) in enumerate(cases):
            if sts and sts[-1].get("kind") == "BreakStmt":
                sts = sts[:-1]
            elif j != len(cases) - 1:
                self.err(n, "switch case that falls through into the next one")
            if any(self.contains_kind(s, ("BreakStmt", "ContinueStmt", "ReturnStmt")) for s in sts):
                self.err(n, "switch case with an inner break/continue/return besides the final `break`")
            norm.append((labels, sts))
        dflt = [c for c in norm if None in c[0]]
        if len(dflt) > 1 or any(len(c[0]) > 1 for c in dflt):
            self.err(n, "default label combined with case labels")
        chain = [c for c in norm if None not in c[0]] + dflt      # labels are disjoint: order is immaterial
        e = self.eval_rv(n["inner"][0], out, ind)
        self.ntmp += 1
        sv = f"sw{self.ntmp}"
        out.append(f"{ind}let {sv} := {e.term}")
        self.switch_chain(sv, chain, out, ind, ctx)
        return nxt(out, ind)

    def switch_chain(self, sv, chain, out, ind, ctx):
        if not chain:
            return
        labels, sts = chain[0]
        if None in labels:
            return self.stmts(sts, out, ind, ctx, lambda o_, i_: None)
        cnd = " ∨ ".join(f"{sv} = {self.lit(v)}" for v in labels)
        scope = set(self.vars)
        self.scope_ids = scope
        o1, a1, w1, c1 = self.scratch(lambda o: self.stmts(sts, o, ind + "    ", ctx, lambda o_, i_: None))
        self.drop_scope(scope)
        self.scope_ids = scope
        o2, a2, w2, c2 = self.scratch(lambda o: self.switch_chain(sv, chain[1:], o, ind + "    ", ctx))
        self.drop_scope(scope)
        self.scope_ids = scope
        vids, fcomps = self.sorted_state((a1 | a2) & scope, w1 | w2)
        names = self.state_tuple(vids, fcomps, self.mode == "ok" and c1 + c2 > 0)
        if not names:
            return
        self.ntmp += 1
        p = f"m{self.ntmp}"
        out.append(f"{ind}let {p} :=")
        out.append(f"{ind}  if {cnd} then")
        out.extend(o1)
        out.append(f"{ind}    {self.tup(names)}")
        out.append(f"{ind}  else")
        out.extend(o2)
        out.append(f"{ind}    {self.tup(names)}")
        self.unpack(names, p, out, ind)


if __name__ == "__main__":
    # python3 tools/c2lean_xb.py src/s3file.c chksum_accum   -> prints the translation
    print(c2lean.translate_file("Scratch", [{"src": sys.argv[1], "fn": f, "ignore_calls": ("err_msg",),
                                             "cls": "c2lean_xb:FnXlateB"} for f in sys.argv[2:]]))
