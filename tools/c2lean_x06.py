#!/usr/bin/env python3
"""c2lean_x06 — extension of tools/c2lean.py for the sample bookkeeping of `fe_process` and its helpers
(src/fe_interface.c: overflow_append, read_overflow_frame, create_overflow_frame, append_overflow_frame, fe_process,
fe_end, fe_process_int16/float32).  Selected per function by the UNITS key `"cls": "c2lean_x06:FnXlate06"`.

The extension is an *AST normalisation* run once before the unchanged core translator: it rewrites clang's typed AST
of the function into the integer subset the core handles.  Every rule is listed here — this is the trusted reading:

  N1 (float effects are havoc) a statement is DROPPED when its only effects are
       * stores to objects of floating type, or through an lvalue reached from a pointer-to-float (also through a
         local pointer initialised by a cast of a float pointer: SWAP_FLOAT32),
       * assignments to locals declared inside the dropped statement itself (`int16 sample`, `tmp`),
       * calls of the functions named in the item's `drop_calls` (memcpy, memmove, fe_read_frame_*, fe_write_frame …
         whose results are not used: they write only float memory / the opaque frame function of the hand model),
       * `assert(...)` (clang: `cond ? (void)0 : __assert_fail(...)`; a failing assertion aborts, it changes no value).
     A `for`/`while` loop is dropped when its body is dropped by these rules, its init/increment assign only a loop
     counter, and that counter is not mentioned after the loop (source order; mentions inside a later `for (c = …` loop
     that re-initialises the same counter do not count); the loop is ASSUMED TO TERMINATE.
     An `if` whose branches are all dropped is dropped (its condition must be free of calls and assignments).
     Declarations of locals no longer mentioned anywhere are dropped.
  N2 (input position) for a parameter `p` listed in `pos_params` (`void *inout_spch`, really `T **`) the pointer
     object `*p` (also read through a local alias `T **spch = (T **)p`, any element type) is an integer ELEMENT
     POSITION relative to an abstract base: memory family `<p>_pos : long` (written families are returned).
     `*p += k` adds k converted to `long`; `*p - q` is the `long` difference with the usual signed-overflow check.
     Both encodings (int16 / float32 elements) share the one family.
  N3 (positions held in locals/parameters) variables named in `intptr_vars` (`orig_spch`, `orig`) are pointers into
     the same input array and become `long` element positions; pointer casts between them are the identity.
  N4 (scalar cells) for `p` in `cell_params` (`size_t *inout_nsamps`) `*p` is the scalar family `<p>_val`.
  N5 (null flags) a pointer parameter `p` in `null_params` (`buf_cep`) becomes the integer parameter `<p>_isnull`
     (1 = NULL): `p == NULL` reads `<p>_isnull ≠ 0`, `p` as a truth value reads `<p>_isnull = 0`, passing `p` to a
     translated function passes the flag; every other use must have been dropped by N1.
  N6 (enum constants) a reference to an enumeration constant is replaced by its value, read from clang's AST of the
     enum named in the item's `enums` (implicit values count up from the previous one).
  N7 a cast of a pointer parameter to `void *` in a call argument is the identity.
Anything the rules do not cover is left to the core translator, which raises XlateError on it.
"""
import copy, json, subprocess, sys
from pathlib import Path
sys.path.insert(0, str(Path(__file__).resolve().parent))
import vlib
import c2lean
from c2lean import XlateError, parse_type, strip_quals, line_of


def kids(n):
    return [c for c in n.get("inner", []) if isinstance(c, dict) and "kind" in c]


def walk(n):
    if isinstance(n, dict) and "kind" in n:
        yield n
        for c in n.get("inner", []):
            yield from walk(c)


def boff(n, which="begin"):
    b = (n.get("range") or {}).get(which) or {}
    if "expansionLoc" in b:
        b = b["expansionLoc"]
    return b.get("offset", -1)


def is_float_text(t):
    t = strip_quals(t or "")
    return t in ("float", "double", "float32", "float64", "mfcc_t", "frame_t", "powspec_t", "window_t")


def floaty(n, depth=None):
    """type of the node is a floating type (depth 0) / a pointer of exactly `depth` levels to one (None: any depth)"""
    ty = n.get("type") or {}
    for key in ("desugaredQualType", "qualType"):
        t = strip_quals(ty.get(key, ""))
        d = 0
        while t.endswith("*"):
            t = strip_quals(t[:-1])
            d += 1
        if is_float_text(t) and (depth is None or d == depth):
            return True
    return False


_ENUMS = {}


def enum_values(src, ename):
    key = (str(vlib.REPO), src, ename)
    if key in _ENUMS:
        return _ENUMS[key]
    flags = [f for f in vlib.cflags("asan") if f.startswith(("-D", "-U", "-I"))]
    r = subprocess.run(["clang-14", "-Xclang", "-ast-dump=json", "-Xclang", f"-ast-dump-filter={ename}", "-fsyntax-only", "-w"]
                       + flags + [str(vlib.REPO / src)], stdout=subprocess.PIPE, stderr=subprocess.PIPE, text=True)
    if r.returncode != 0:
        raise XlateError(f"clang cannot parse {src}: {r.stderr[-800:]}")
    dec, i, txt, vals = json.JSONDecoder(), 0, r.stdout, {}
    while i < len(txt):
        while i < len(txt) and txt[i].isspace():
            i += 1
        if i >= len(txt):
            break
        if txt[i] != "{":          # "Dumping xxx:" header lines
            j = txt.find("\n", i)
            i = len(txt) if j < 0 else j + 1
            continue
        o, i = dec.raw_decode(txt, i)
        if o.get("kind") == "EnumDecl" and o.get("name") == ename:
            nxt = 0
            for c in kids(o):
                if c["kind"] != "EnumConstantDecl":
                    continue
                v = None
                for e in walk(c):
                    if e is not c and e.get("kind") == "ConstantExpr" and "value" in e:
                        v = int(e["value"])
                        break
                    if e is not c and e.get("kind") == "IntegerLiteral" and v is None:
                        v = int(e["value"])
                if v is None:
                    v = nxt
                vals[c["name"]] = v
                nxt = v + 1
    if not vals:
        raise XlateError(f"{src}: enum {ename} not found")
    _ENUMS[key] = vals
    return vals


LONG = {"qualType": "long"}
INT = {"qualType": "int"}


class FnXlate06(c2lean.FnXlate):
    def translate(self):
        if not getattr(self, "_normalised", False):
            self.normalise()
            self._normalised = True
        return super().translate()

    # ------------------------------------------------------------------------------------------
    def nerr(self, n, what):
        raise XlateError(f"{self.src}:{line_of(n)}: function {self.fn}: c2lean_x06 normalisation: {what}")

    def normalise(self):
        it = self.item
        self.pos_params = dict(it.get("pos_params", {}))
        self.cell_params = dict(it.get("cell_params", {}))
        self.intptr_vars = set(it.get("intptr_vars", ()))
        self.null_params = set(it.get("null_params", ()))
        self.drop_calls = set(it.get("drop_calls", ()))
        self.enum_consts = {}
        for en in it.get("enums", ()):
            self.enum_consts.update(enum_values(self.src, en))
        ast = self.ast
        self.params = {p["name"]: p for p in kids(ast) if p["kind"] == "ParmVarDecl"}
        body = [c for c in kids(ast) if c["kind"] == "CompoundStmt"][0]
        # classify aliases of position parameters: `T **spch = (T **)inout_spch`
        self.pos_ids = {}          # decl id -> param name
        for nm in self.pos_params:
            if nm in self.params:
                self.pos_ids[self.params[nm]["id"]] = nm
        for d in walk(body):
            if d["kind"] == "VarDecl" and kids(d):
                r = self.root_decl(kids(d)[-1])
                if r in self.pos_ids and parse_type(d.get("type")).kind == "ptr":
                    self.pos_ids[d["id"]] = self.pos_ids[r]
        self.cell_ids = {self.params[nm]["id"]: nm for nm in self.cell_params if nm in self.params}
        self.null_ids = {self.params[nm]["id"]: nm for nm in self.null_params if nm in self.params}
        self.intptr_ids = set()
        for d in walk(ast):
            if d["kind"] in ("VarDecl", "ParmVarDecl") and d.get("name") in self.intptr_vars:
                self.intptr_ids.add(d["id"])
        # N1
        self.fn_ast = ast
        self.filter_compound(body)
        # N2..N7
        for p in kids(ast):
            if p["kind"] == "ParmVarDecl":
                if p["id"] in self.null_ids:
                    p["name"] = p["name"] + "_isnull"
                    p["type"] = dict(INT)
                elif p["id"] in self.intptr_ids:
                    p["type"] = dict(LONG)
        self.rewrite_stmt(body)
        # unused declarations
        self.drop_unused(body)
        for n in walk(body):
            if n["kind"] == "DeclRefExpr" and n["referencedDecl"]["id"] in self.pos_ids \
                    and n["referencedDecl"]["kind"] == "VarDecl":
                self.nerr(n, f"alias `{n['referencedDecl']['name']}` of the input pointer used other than as `*{n['referencedDecl']['name']}`")

    def root_decl(self, n):
        """decl id at the bottom of a chain of parentheses / casts, or None"""
        while n.get("kind") in ("ParenExpr", "ImplicitCastExpr", "CStyleCastExpr"):
            n = kids(n)[0]
        if n.get("kind") == "DeclRefExpr":
            return n["referencedDecl"]["id"]
        return None

    # -- N1 ------------------------------------------------------------------------------------
    def target_ok(self, t, local_ids):
        """is the assigned lvalue `t` float memory or a local of the statement being dropped?"""
        n = t
        if floaty(n, 0):
            return True
        while True:
            k = n.get("kind")
            if k == "DeclRefExpr":
                rid = n["referencedDecl"]["id"]
                if rid in local_ids:
                    d = local_ids[rid]
                    if parse_type(d.get("type")).kind != "ptr":
                        return True
                    return any(floaty(e, 1) for c in kids(d) for e in walk(c))   # pointer local cast from a float pointer
                return False
            if k == "UnaryOperator" and n.get("opcode") == "*":
                if floaty(kids(n)[0], 1):
                    return True
                n = kids(n)[0]
                continue
            if k in ("ParenExpr", "ImplicitCastExpr", "CStyleCastExpr", "UnaryOperator", "MemberExpr"):
                n = kids(n)[0]
                continue
            if k == "ArraySubscriptExpr":
                a, i = kids(n)
                n = a if parse_type(a.get("type")).kind in ("ptr", "array") else i
                if floaty(n, 1):
                    return True
                continue
            return False

    def is_assert(self, n):
        return n.get("kind") == "ConditionalOperator" and any(
            e.get("kind") == "DeclRefExpr" and e["referencedDecl"].get("name") == "__assert_fail" for e in walk(n))

    def havoc(self, n, extra_ok=()):
        """statement `n` has only float / own-local effects (rule N1)"""
        if self.is_assert(self.strip_paren(n)):
            return True
        local_ids = {d["id"]: d for d in walk(n) if d["kind"] == "VarDecl"}
        for e in walk(n):
            k = e["kind"]
            if k in ("ReturnStmt", "BreakStmt", "ContinueStmt", "GotoStmt"):
                return False
            if k == "CallExpr":
                nm = None
                for c in walk(kids(e)[0]):
                    if c["kind"] == "DeclRefExpr":
                        nm = c["referencedDecl"].get("name")
                        break
                if nm not in self.drop_calls:
                    return False
            tgt = None
            if (k == "BinaryOperator" and e.get("opcode") == "=") or k == "CompoundAssignOperator":
                tgt = kids(e)[0]
            elif k == "UnaryOperator" and e.get("opcode") in ("++", "--"):
                tgt = kids(e)[0]
            if tgt is not None:
                if self.root_decl(tgt) in extra_ok and self.strip_paren(tgt).get("kind") == "DeclRefExpr":
                    continue
                if not self.target_ok(tgt, local_ids):
                    return False
        # it must have some effect-free or float content: fine either way
        return True

    def strip_paren(self, n):
        while n.get("kind") == "ParenExpr":
            n = kids(n)[0]
        return n

    def pure(self, n):
        for e in walk(n):
            if e["kind"] in ("CallExpr", "CompoundAssignOperator") or \
                    (e["kind"] == "BinaryOperator" and e.get("opcode") == "=") or \
                    (e["kind"] == "UnaryOperator" and e.get("opcode") in ("++", "--")):
                return False
        return True

    def droppable(self, n):
        k = n.get("kind")
        if k in ("DeclStmt", "ReturnStmt", "NullStmt"):
            return False
        if k == "CompoundStmt":
            return bool(kids(n)) and self.havoc(n)
        if k == "IfStmt":
            c = kids(n)
            return self.pure(c[0]) and all(self.havoc(b) for b in c[1:])
        if k in ("ForStmt", "WhileStmt"):
            inner = n["inner"]
            body = inner[-1]
            heads = [c for c in inner[:-1] if isinstance(c, dict) and "kind" in c]
            counters = set()
            for h in heads:
                for e in walk(h):
                    if e["kind"] == "CallExpr":
                        return False
                    if (e["kind"] == "BinaryOperator" and e.get("opcode") == "=") or e["kind"] == "CompoundAssignOperator" or \
                            (e["kind"] == "UnaryOperator" and e.get("opcode") in ("++", "--")):
                        t = self.strip_paren(kids(e)[0])
                        if t.get("kind") != "DeclRefExpr":
                            return False
                        counters.add(t["referencedDecl"]["id"])
                    if e["kind"] == "VarDecl":
                        counters.add(e["id"])
            if not self.havoc(body, extra_ok=counters):
                return False
            end = boff(n, "end")
            # later `for (c = …; …)` loops re-initialise the counter before anything in them reads it: exempt
            exempt = []
            for e in walk(self.fn_ast):
                if e["kind"] == "ForStmt" and e is not n and boff(e) > end >= 0:
                    init = e["inner"][0]
                    if isinstance(init, dict) and init.get("kind") == "BinaryOperator" and init.get("opcode") == "=" \
                            and self.strip_paren(kids(init)[0]).get("kind") == "DeclRefExpr" \
                            and self.strip_paren(kids(init)[0])["referencedDecl"]["id"] in counters and len(counters) == 1:
                        exempt.append((boff(e), boff(e, "end")))
            for e in walk(self.fn_ast):
                if e["kind"] == "DeclRefExpr" and e["referencedDecl"]["id"] in counters and boff(e) > end >= 0 \
                        and not any(a <= boff(e) <= b for a, b in exempt):
                    return False
            return True
        # expression statement
        return self.havoc(n)

    def filter_compound(self, c):
        new = []
        for s in c.get("inner", []):
            if not (isinstance(s, dict) and "kind" in s):
                continue
            if self.droppable(s):
                continue
            self.filter_inside(s)
            new.append(s)
        c["inner"] = new

    def filter_inside(self, s):
        k = s.get("kind")
        if k == "CompoundStmt":
            self.filter_compound(s)
        elif k == "IfStmt":
            inner = s["inner"]
            for j in range(1, len(inner)):
                b = inner[j]
                if b.get("kind") != "CompoundStmt":
                    b = inner[j] = {"kind": "CompoundStmt", "inner": [b], "range": b.get("range")}
                self.filter_compound(b)
        elif k in ("ForStmt", "WhileStmt"):
            b = s["inner"][-1]
            if b.get("kind") != "CompoundStmt":
                b = s["inner"][-1] = {"kind": "CompoundStmt", "inner": [b], "range": b.get("range")}
            self.filter_compound(b)

    # -- N2..N7 --------------------------------------------------------------------------------
    def param_ref(self, pname, node):
        p = self.params[pname]
        return {"kind": "ImplicitCastExpr", "castKind": "LValueToRValue", "type": p["type"], "range": node.get("range"),
                "inner": [{"kind": "DeclRefExpr", "type": p["type"], "range": node.get("range"),
                           "referencedDecl": {"id": p["id"], "kind": "ParmVarDecl", "name": p["name"], "type": p["type"]}}]}

    def field(self, pname, fname, ty, node):
        return {"kind": "MemberExpr", "isArrow": True, "name": fname, "type": ty, "range": node.get("range"),
                "inner": [self.param_ref(pname, node)], "_x06": True}

    def is_long(self, n):
        return strip_quals((n.get("type") or {}).get("qualType", "")) == "long" and "desugaredQualType" not in (n.get("type") or {})

    def to_long(self, n):
        t = parse_type(n.get("type"))
        if t.kind == "int" and t.signed and t.bits == 64:
            return n
        return {"kind": "ImplicitCastExpr", "castKind": "IntegralCast", "type": dict(LONG), "range": n.get("range"), "inner": [n]}

    def rewrite_stmt(self, n):
        """rewrite every expression below statement / expression node n, in place (children replaced)"""
        inner = n.get("inner")
        if not inner:
            return
        for j, c in enumerate(inner):
            if isinstance(c, dict) and "kind" in c:
                inner[j] = self.rw(c)

    def rw(self, n):
        k = n.get("kind")
        # N6
        if k == "DeclRefExpr" and n["referencedDecl"].get("kind") == "EnumConstantDecl":
            nm = n["referencedDecl"]["name"]
            if nm not in self.enum_consts:
                self.nerr(n, f"enumeration constant `{nm}` (name its enum in the item's `enums`)")
            return {"kind": "IntegerLiteral", "value": str(self.enum_consts[nm]), "type": dict(INT), "range": n.get("range")}
        # N2 / N4: `*p`
        if k == "UnaryOperator" and n.get("opcode") == "*":
            r = self.root_decl(kids(n)[0])
            if r in self.pos_ids:
                pn = self.pos_ids[r]
                return self.field(pn, self.pos_params[pn], dict(LONG), n)
            if r in self.cell_ids:
                pn = self.cell_ids[r]
                return self.field(pn, self.cell_params[pn], n["type"], n)
        # N5
        if k == "BinaryOperator" and n.get("opcode") in ("==", "!=") and parse_type(kids(n)[0].get("type")).kind == "ptr":
            a, b = kids(n)
            if self.is_null(a):
                a, b = b, a
            if self.is_null(b) and self.root_decl(a) in self.null_ids:
                flag = self.null_flag_rv(self.null_ids[self.root_decl(a)], n)
                return {"kind": "BinaryOperator", "opcode": "!=" if n["opcode"] == "==" else "==", "type": dict(INT),
                        "range": n.get("range"), "inner": [flag, {"kind": "IntegerLiteral", "value": "0", "type": dict(INT)}]}
        if k == "CallExpr":
            inner = n["inner"]
            for j in range(1, len(inner)):
                a = inner[j]
                r = self.root_decl(a)
                if r in self.null_ids:
                    inner[j] = self.null_flag_rv(self.null_ids[r], a)
                    continue
                # N7
                if r is not None and a.get("kind") in ("CStyleCastExpr", "ImplicitCastExpr") and a.get("castKind") == "BitCast" \
                        and strip_quals(a["type"]["qualType"]) == "void *" and any(p["id"] == r for p in self.params.values()):
                    b = a
                    while b.get("kind") in ("CStyleCastExpr", "ImplicitCastExpr", "ParenExpr") and b.get("castKind") != "LValueToRValue":
                        b = kids(b)[0]
                    inner[j] = b
                    continue
                inner[j] = self.rw(a)
            return n
        if k == "ImplicitCastExpr" and n.get("castKind") == "LValueToRValue" and self.root_decl(n) in self.null_ids \
                and kids(n)[0].get("kind") == "DeclRefExpr":
            flag = self.null_flag_rv(self.null_ids[self.root_decl(n)], n)
            return {"kind": "BinaryOperator", "opcode": "==", "type": dict(INT), "range": n.get("range"),
                    "inner": [flag, {"kind": "IntegerLiteral", "value": "0", "type": dict(INT)}]}
        # N3
        if k == "DeclRefExpr" and n["referencedDecl"]["id"] in self.intptr_ids:
            n["type"] = dict(LONG)
            n["referencedDecl"]["type"] = dict(LONG)
            return n
        if k == "VarDecl" and n["id"] in self.intptr_ids:
            n["type"] = dict(LONG)
        self.rewrite_stmt(n)
        ch = kids(n)
        # casts of positions: identity
        if k in ("ImplicitCastExpr", "CStyleCastExpr", "ParenExpr") and ch and self.is_pos(ch[0]) and \
                parse_type(n.get("type")).kind == "ptr":
            if n.get("castKind") == "LValueToRValue" or k == "ParenExpr":
                n["type"] = dict(LONG)
                return n
            return ch[0]
        if k == "CompoundAssignOperator" and self.is_pos(ch[0]) and parse_type(n.get("type")).kind == "ptr":
            n["type"] = dict(LONG)
            n["computeLHSType"] = dict(LONG)
            n["computeResultType"] = dict(LONG)
            n["inner"] = [ch[0], self.to_long(ch[1])]
            return n
        if k == "BinaryOperator" and n.get("opcode") == "=" and self.is_pos(ch[0]):
            n["type"] = dict(LONG)
            return n
        if k == "BinaryOperator" and n.get("opcode") in ("+", "-") and parse_type(n.get("type")).kind == "ptr" and \
                (self.is_pos(ch[0]) or self.is_pos(ch[1])):
            n["type"] = dict(LONG)
            n["inner"] = [self.to_long(ch[0]), self.to_long(ch[1])]
            return n
        return n

    def is_pos(self, n):
        return self.is_long(n) and (n.get("_x06") or n.get("kind") in ("DeclRefExpr", "ImplicitCastExpr", "ParenExpr", "BinaryOperator"))

    def null_flag_rv(self, pname, node):
        p = self.params[pname]     # already renamed/retyped or about to be: build the int reference explicitly
        nm = pname + "_isnull"
        return {"kind": "ImplicitCastExpr", "castKind": "LValueToRValue", "type": dict(INT), "range": node.get("range"),
                "inner": [{"kind": "DeclRefExpr", "type": dict(INT), "range": node.get("range"),
                           "referencedDecl": {"id": p["id"], "kind": "ParmVarDecl", "name": nm, "type": dict(INT)}}]}

    # -- unused declarations -------------------------------------------------------------------
    def drop_unused(self, body):
        changed = True
        while changed:
            changed = False
            used = {e["referencedDecl"]["id"] for e in walk(body) if e["kind"] == "DeclRefExpr"}
            for c in walk(body):
                if c["kind"] != "CompoundStmt":
                    continue
                new = []
                for s in c.get("inner", []):
                    if s.get("kind") == "DeclStmt":
                        keep = [d for d in s["inner"] if not (d.get("kind") == "VarDecl" and d["id"] not in used
                                                               and all(self.pure(i) for i in kids(d)))]
                        if len(keep) != len(s["inner"]):
                            changed = True
                        if not keep:
                            continue
                        s["inner"] = keep
                    new.append(s)
                c["inner"] = new

    # -- calls ---------------------------------------------------------------------------------
    # The core emits the arguments of a call of a translated function as "integers first, then all families"; the
    # generated signatures interleave them by parameter position.  For the helpers of fe_process (integer parameter
    # `encoding` AFTER the pointers) the two orders differ, so this override emits the arguments in signature order:
    # fuel, undef, then per C parameter the integer or the families reached through the pointer (sorted by path), then
    # globals.  Untranslated callees named in the item's `opaque_fams` are read as a global family `ext_<g>` of their
    # integer arguments (so that loops and callers pass them on like any other read-only memory).
    def call(self, n, want_value):
        callee = self.skip(n["inner"][0])
        while callee.get("kind") == "ImplicitCastExpr":
            callee = self.skip(callee["inner"][0])
        name = (callee.get("referencedDecl") or {}).get("name")
        if name in self.item.get("opaque_fams", ()):
            terms = []
            for a in n["inner"][1:]:
                if parse_type(a.get("type")).kind == "int":
                    e = self.rv(a)
                    self.conds += e.conds
                    terms.append(self.atom(e.term))
            rty = parse_type(n.get("type"))
            f = self.fam(("ext_" + name,), len(terms), rty, n, (1, 0))
            self.used_fams.add(f.comps)
            if not want_value:
                return None
            return self.E("(" + " ".join([f.name] + terms) + ")", [], rty)
        info = self.known.get(name)
        if info is None or (name in self.ignore_calls and not want_value):
            return super().call(n, want_value)
        args = n["inner"][1:]
        terms = []
        if info.has_fuel:
            self.uses_fuel = True
            terms.append("fuel")
        if info.has_undef:
            self.uses_undef = True
            terms.append("undef")
        if getattr(info, "opaque", None):
            self.err(n, f"call of `{name}` which has opaque external parameters")
        ptrs, slots = {}, []
        for (kind, pname, third), a in zip(info.params, args):
            if kind == "int":
                e = self.rv(a)
                self.conds += e.conds
                slots.append(("t", self.atom(e.term)))
            else:
                ptrs[pname] = self.ptr(a)
                slots.append(("p", third))
        fam_term, outs = {}, []
        for f in info.fams:
            root = f.comps[0]
            if f.rootkey[0] == 0 and root in ptrs:
                p = ptrs[root]
                if p.off is not None or p.idx:
                    self.err(n, f"pointer argument for `{root}` is not a plain base pointer")
                comps = p.fam + f.comps[1:]
            else:
                comps = f.comps     # a global
            mine = self.fam(comps, f.arity, f.ty, n, self.rootkey(comps) if f.rootkey[0] == 0 else (1, 0))
            self.used_fams.add(mine.comps)
            fam_term[f.comps] = mine.name
            if f in info.written:
                outs.append(mine)
        for s in slots:
            if s[0] == "t":
                terms.append(s[1])
            else:
                terms += [fam_term[f.comps] for f in info.fams if f.rootkey == (0, s[1])]
        terms += [fam_term[f.comps] for f in info.fams if f.rootkey[0] == 1]
        self.ntmp += 1
        r = f"call{self.ntmp}"
        self.pre.append(("let", r, " ".join([info.lean] + terms)))
        self.pre.append(("ok", " ".join([info.lean + "_ok"] + terms)))
        comps_n = (1 if info.ret_ty else 0) + len(info.written)

        def proj(i):
            if comps_n == 1:
                return r
            return r + ".2" * i + (".1" if i < comps_n - 1 else "")
        for j, w in enumerate(outs):
            w.written = True
            self.written_here.add(w.comps)
            self.pre.append(("letfam", w, proj(j + (1 if info.ret_ty else 0))))
        if want_value:
            if not info.ret_ty:
                self.err(n, f"value of void function `{name}`")
            return self.E(proj(0), [], info.ret_ty)
        return None
