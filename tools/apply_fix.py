#!/usr/bin/env python3
"""Coordinator helper: apply a repair patch to /repo as one `fix:` commit after the pinned tests pass.
  apply_fix.py <patch> <property> "<commit subject after 'fix: '>" "<what failed>" [--src-only]
1. brings /tmp/wt-coord to /repo's HEAD, applies the patch there, runs tools/pinned_tests.py
2. on success applies it to /repo, commits `fix: <subject>`, and appends a `fixed` entry to known_findings.json"""
import json, subprocess, sys
from pathlib import Path
ROOT = Path(__file__).resolve().parent.parent
WT = "/tmp/wt-applyfix"


def sh(cmd, **kw):
    return subprocess.run(cmd, shell=True, stdout=subprocess.PIPE, stderr=subprocess.STDOUT, text=True, **kw)


patch, prop, subject, what = sys.argv[1:5]
src_only = "--src-only" in sys.argv
if sh("git -C /repo status --porcelain --untracked-files=no").stdout.strip():
    sys.exit("refusing: /repo has uncommitted changes")
head = sh("git -C /repo rev-parse HEAD").stdout.strip()
if not Path(WT).exists():
    sh(f"git -C /repo worktree add --detach {WT} {head}")
sh(f"git -C {WT} checkout -q --detach {head}; git -C {WT} checkout -- .")
inc = "--include='src/*' --include='include/*'" if src_only else ""
r = sh(f"git -C {WT} apply {inc} {patch}")
if r.returncode != 0:
    sys.exit(f"patch does not apply to HEAD: {r.stdout}")
changed = sh(f"git -C {WT} status --porcelain --untracked-files=no").stdout
if any(l.split()[-1].startswith("tests/") for l in changed.strip().split("\n") if l.strip()):
    sh(f"git -C {WT} checkout -- .")
    sys.exit("patch edits tests/: use --src-only")
t = sh(f"python3 {ROOT}/tools/pinned_tests.py {WT}")
print(t.stdout.strip())
if t.returncode != 0:
    sh(f"git -C {WT} checkout -- .")
    sys.exit("pinned tests do not pass with this patch")
sh(f"git -C {WT} checkout -- .")
r = sh(f"git -C /repo apply {inc} {patch}")
if r.returncode != 0:
    sys.exit(r.stdout)
body = f"{what}\n\nPinned test suite: {t.stdout.strip()}"
sh("git -C /repo add -u src include")
c = subprocess.run(["git", "-C", "/repo", "commit", "-q", "-m", f"fix: {subject}", "-m", body])
commit = sh("git -C /repo rev-parse --short HEAD").stdout.strip()
kf = json.loads((ROOT / "known_findings.json").read_text())
kf["fixed"].append({"property": prop, "commit": commit, "patch": str(Path(patch).name), "what": what,
                    "line": f"fixed: property={prop} {commit} {what}"})
(ROOT / "known_findings.json").write_text(json.dumps(kf, indent=1))
print("committed", commit, changed.strip().replace("\n", "; "))
