"""C10: constants of the text readers, extracted from the current sources into
lean/SSVerif/Generated/TextInConsts.lean (keywords and comment character of the FSG reader, the
white-space sets of isspace_c / string_trim / the alignment-text tokeniser, the dictionary comment
markers and reserved words, the configuration type codes, the jsmn build mode)."""
import os, re, subprocess, tempfile
import vlib

GEN = vlib.LEAN / "SSVerif" / "Generated"
INC = ["-DHAVE_CONFIG_H", "-I" + str(vlib.HARNESS / "config")]


def _inc():
    return INC + ["-I" + str(vlib.REPO / "include"), "-I" + str(vlib.REPO / "src")]


def _run(cmd):
    r = subprocess.run(cmd, stdout=subprocess.PIPE, stderr=subprocess.PIPE, text=True)
    if r.returncode != 0:
        raise vlib.BuildError(f"{' '.join(cmd[:4])}…: {r.stderr[-800:]}")
    return r.stdout


def _macros(src):
    return dict(re.findall(r"^#define (\w+) (.*)$", _run(["gcc", "-E", "-dM"] + _inc() + [str(vlib.REPO / src)]), re.M))


def _cpp(src):
    return _run(["gcc", "-E", "-P"] + _inc() + [str(vlib.REPO / src)])


def _cstr(lit):
    """bytes of a C string literal body (without the quotes)"""
    return list(bytes(lit, "ascii").decode("unicode_escape").encode("latin1"))


def _one(values, what):
    vs = {tuple(v) for v in values}
    if len(vs) != 1:
        raise vlib.BuildError(f"{what}: expected one consistent value, found {sorted(vs)}")
    return list(vs.pop())


def gen_textin_consts():
    m = _macros("src/fsg_model.c")
    kw = {}
    for name in ("BEGIN", "END", "N", "NUM_STATES", "S", "START_STATE", "F", "FINAL_STATE", "T", "TRANSITION"):
        mm = re.fullmatch(r'"([^"\\]*)"', m.get(f"FSG_MODEL_{name}_DECL", "").strip())
        if not mm:
            raise vlib.BuildError(f"FSG_MODEL_{name}_DECL not found in fsg_model.c")
        kw[name] = list(mm.group(1).encode())
    mm = re.fullmatch(r"'(.)'", m.get("FSG_MODEL_COMMENT_CHAR", "").strip())
    if not mm:
        raise vlib.BuildError("FSG_MODEL_COMMENT_CHAR not found in fsg_model.c")
    comment = ord(mm.group(1))
    # the range test on the declared state count in fsg_model_read_s3file: `n_state = strtol(val, ...);
    # if (endptr == val || n_state < 0 [|| n_state > BOUND])`; BOUND (absent in the pinned tree: the
    # `long` was silently truncated to int32) becomes a constant of the model
    fm = _cpp("src/fsg_model.c")
    mm = re.search(r"n_state\s*=\s*strtol\s*\(\s*val\s*,\s*&endptr\s*,\s*10\s*\)\s*;\s*if\s*\(\s*endptr\s*==\s*val\s*\|\|\s*n_state\s*<\s*0\s*"
                   r"(?:\|\|\s*n_state\s*>\s*([^|&{};]*?))?\)\s*\{", fm)
    if not mm:
        raise vlib.BuildError("fsg_model_read_s3file: the test on the NUM_STATES value was not found in the expected form")
    nmax = None
    if mm.group(1) is not None:
        lit = re.sub(r"\(\s*(?:int32|int|long|int32_t)\s*\)|[()\s]|[uUlL]+$", "", mm.group(1))
        try:
            nmax = int(lit, 0)
        except ValueError:
            raise vlib.BuildError(f"fsg_model_read_s3file: upper bound of NUM_STATES is not an integer constant: {mm.group(1)!r}")
    sf = _cpp("src/strfuncs.c")
    mm = re.search(r'isspace_c\s*\(char ch\)\s*\{\s*return\s*\(\s*strchr\s*\(\s*"((?:[^"\\]|\\.)*)"\s*,\s*ch\s*\)\s*!=', sf)
    if not mm:
        raise vlib.BuildError("isspace_c not found in the expected form (strchr over a literal) in strfuncs.c")
    space = _cstr(mm.group(1))
    body = re.search(r"string_trim\s*\([^)]*\)\s*\{(.*?)\n\}", sf, re.S)
    if not body:
        raise vlib.BuildError("string_trim not found in strfuncs.c")
    trims = [_cstr(x) for x in re.findall(r'(?:strspn\s*\(\s*string\s*,|strchr\s*\()\s*"((?:[^"\\]|\\.)*)"', body.group(1))]
    if len(trims) < 2:
        raise vlib.BuildError("string_trim: the two white-space literals were not found")
    trim = _one([sorted(t) for t in trims], "string_trim white-space set")
    dec = _cpp("src/decoder.c")
    fn = re.search(r"decoder_set_align_text\s*\([^)]*\)\s*\{(.*?)\n\}", dec, re.S)
    if not fn:
        raise vlib.BuildError("decoder_set_align_text not found in decoder.c")
    delims = [_cstr(x) for x in re.findall(r'nextword\s*\(\s*ptr\s*,\s*"((?:[^"\\]|\\.)*)"', fn.group(1))]
    if len(delims) < 2:
        raise vlib.BuildError("decoder_set_align_text: nextword delimiter literals not found")
    delim = _one([sorted(d) for d in delims], "alignment-text delimiter set")
    dc = _cpp("src/dict.c")
    marks = set(re.findall(r'strncmp\s*\(\s*line\s*,\s*"(..)"\s*,\s*2\s*\)', dc))
    marks |= {a + b for a, b in re.findall(r"line\[0\]\s*==\s*'(.)'\s*&&\s*line\[1\]\s*==\s*'(.)'", dc)}
    if not marks or any(x[0] != x[1] for x in marks):
        raise vlib.BuildError(f"dictionary comment markers not found in the expected form: {sorted(marks)}")
    cmarks = sorted(ord(x[0]) for x in marks)
    dm = _macros("src/dict.c")
    words = {}
    for n in ("S3_START_WORD", "S3_FINISH_WORD", "S3_SILENCE_WORD"):
        mm = re.fullmatch(r'"([^"\\]*)"', dm.get(n, "").strip())
        if not mm:
            raise vlib.BuildError(f"{n} not found")
        words[n] = list(mm.group(1).encode())
    cm = _macros("src/config.c")
    strict, parent = "JSMN_STRICT" in cm, "JSMN_PARENT_LINKS" in cm
    with tempfile.TemporaryDirectory() as td:
        cf, ex = os.path.join(td, "k.c"), os.path.join(td, "k")
        open(cf, "w").write('#include <stdio.h>\n#include <soundswallower/configuration.h>\nint main(void){printf("%d %d %d %d %d\\n",'
                            "ARG_REQUIRED, ARG_INTEGER, ARG_FLOATING, ARG_STRING, ARG_BOOLEAN);return 0;}\n")
        _run(["gcc", "-w"] + _inc() + [cf, "-o", ex])
        req, ti, tf, ts, tb = [int(x) for x in _run([ex]).split()]
    body = ("-- GENERATED by tools/gen_textin.py from src/fsg_model.c, src/strfuncs.c, src/decoder.c, src/dict.c,\n"
            "-- include/soundswallower/dict.h, include/soundswallower/configuration.h, src/config.c — do not edit\n"
            "namespace SSVerif.Generated.TextIn\n"
            + "".join(f"def fsg{n.title().replace('_', '')}Decl : List UInt8 := {v}\n" for n, v in kw.items())
            + f"def fsgCommentChar : UInt8 := {comment}\n"
            f"/-- upper bound tested on the declared state count by the FSG reader (`none`: no test, the value is truncated to int32) -/\n"
            f"def fsgNStatesMax : Option Nat := {'none' if nmax is None else 'some ' + str(nmax)}\n"
            f"/-- the literal of `isspace_c` (its terminating NUL is found by `strchr` as well) -/\n"
            f"def isspaceChars : List UInt8 := {space}\n"
            f"def trimChars : List UInt8 := {trim}\n"
            f"def alignDelims : List UInt8 := {delim}\n"
            f"/-- a dictionary line starting with one of these bytes twice is a comment -/\n"
            f"def dictCommentMarks : List UInt8 := {cmarks}\n"
            f"def startWord : List UInt8 := {words['S3_START_WORD']}\n"
            f"def finishWord : List UInt8 := {words['S3_FINISH_WORD']}\n"
            f"def silenceWord : List UInt8 := {words['S3_SILENCE_WORD']}\n"
            f"def argRequired : Nat := {req}\ndef argInteger : Nat := {ti}\ndef argFloating : Nat := {tf}\n"
            f"def argString : Nat := {ts}\ndef argBoolean : Nat := {tb}\n"
            f"def jsmnStrict : Bool := {'true' if strict else 'false'}\n"
            f"def jsmnParentLinks : Bool := {'true' if parent else 'false'}\n"
            "end SSVerif.Generated.TextIn\n")
    path = GEN / "TextInConsts.lean"
    if path.exists() and path.read_text() == body:
        return False
    path.parent.mkdir(parents=True, exist_ok=True)
    vlib.atomic_write(path, body)
    return True
