#!/usr/bin/env python3
"""coordinator helper for the false-alarm probe: behaviour-preserving changes written by independent sub-agents
(they saw the 20 property texts and a scratch worktree, nothing of /verif) are kept under benign/<id>/ and every
quick check is run against each.  A check that raises an alarm on one is examined: either the change is not
harmless after all (then it is a seeded breaking change) or the check is brittle (then what it depends on is
recorded in DESIGN.md 9.2 and, where possible, the dependence is removed).

usage: benign.py import <srcdir> <tag>      # <srcdir>/b<i>/{patch.diff,meta.json} -> benign/<tag><i>/
       benign.py run <id> [props...]        # scratch worktree + VERIF_REPO, all (or the given) quick checks
       benign.py table                      # markdown table of the recorded results"""
import json, os, shutil, subprocess, sys, time
from concurrent.futures import ThreadPoolExecutor
from pathlib import Path
ROOT = Path(__file__).resolve().parent.parent
BEN = ROOT / "benign"


def sh(cmd, **kw):
    return subprocess.run(cmd, shell=True, stdout=subprocess.PIPE, stderr=subprocess.STDOUT, text=True, **kw)


def imp(src, tag):
    for d in sorted(Path(src).glob("b*")):
        if not (d / "patch.diff").exists():
            continue
        dst = BEN / f"{tag}{d.name[1:]}"
        dst.mkdir(parents=True, exist_ok=True)
        shutil.copy(d / "patch.diff", dst / "patch.diff")
        meta = json.loads((d / "meta.json").read_text()) if (d / "meta.json").exists() else {}
        meta["origin"] = "written by an independent sub-agent that saw only the 20 property texts and a scratch worktree"
        (dst / "meta.json").write_text(json.dumps(meta, indent=1))
        print("imported", dst.name)


def run(bid, props, wt=None, jobs=6):
    wt = wt or f"/tmp/wt-benign-{bid}"
    d = BEN / bid
    meta = json.loads((d / "meta.json").read_text())
    head = sh("git -C /repo rev-parse HEAD").stdout.strip()
    if not Path(wt).exists():
        sh(f"git -C /repo worktree add --detach {wt} {head}")
    sh(f"git -C {wt} checkout -q --detach {head}; git -C {wt} checkout -- .")
    r = sh(f"git -C {wt} apply {d/'patch.diff'} 2>&1")
    if r.returncode != 0:
        meta["applies"] = False
        (d / "meta.json").write_text(json.dumps(meta, indent=1))
        print(bid, "does not apply:", r.stdout[-300:])
        return
    allp = [c["property_id"] for c in json.loads((ROOT / "MANIFEST.json").read_text())["checks"]]
    props = props or allp
    saved = {p: (ROOT / "evidence" / f"{p}.json").read_text() for p in props if (ROOT / "evidence" / f"{p}.json").exists()}
    env = dict(os.environ, VERIF_REPO=wt)

    def one(p):
        t0 = time.time()
        c = subprocess.run(f"python3 tools/check.py {p} --tier quick", shell=True, cwd=ROOT, env=env,
                           stdout=subprocess.PIPE, stderr=subprocess.STDOUT, text=True)
        viol = [l for l in c.stdout.split("\n") if l.startswith("VIOLATION")]
        failed = [l[:300] for l in c.stdout.split("\n") if "obligation FAILED" in l][:4]
        return p, {"exit": c.returncode, "violation_lines": viol[:3], "failed_obligations": failed, "wall_s": round(time.time() - t0)}
    try:
        with ThreadPoolExecutor(jobs) as ex:
            res = dict(ex.map(one, props))
    finally:
        sh(f"git -C {wt} checkout -- .")
        for p, t in saved.items():
            (ROOT / "evidence" / f"{p}.json").write_text(t)
        sh("python3 tools/gen_consts.py", cwd=ROOT)
    meta.setdefault("check_results", {}).update(res)
    meta["applies"] = True
    meta["repo_head"] = head[:7]
    (d / "meta.json").write_text(json.dumps(meta, indent=1))
    alarms = {p: v for p, v in res.items() if v["exit"] != 0 or v["violation_lines"]}
    print(bid, "alarms:", sorted(alarms) or "none")
    for p, v in alarms.items():
        print("  ", p, v["violation_lines"][:1], v["failed_obligations"][:2])


def table():
    print("| id | kind | files | change | checks raising an alarm | disposition |")
    print("|----|------|-------|--------|-------------------------|-------------|")
    for d in sorted(BEN.glob("*")):
        m = json.loads((d / "meta.json").read_text())
        cr = m.get("check_results", {})
        al = sorted(p for p, v in cr.items() if v["exit"] != 0 or v["violation_lines"])
        print(f"| {d.name} | {m.get('kind','')} | {', '.join(m.get('files_changed', []))} | {(m.get('summary') or '').replace('|','/')[:200]} | "
              f"{', '.join(al) if al else ('none of ' + str(len(cr)))} | {m.get('disposition','')} |")


if __name__ == "__main__":
    a = sys.argv[1:]
    if a[0] == "import":
        imp(a[1], a[2])
    elif a[0] == "run":
        run(a[1], a[2:])
    elif a[0] == "table":
        table()
