#!/usr/bin/env python3
"""c2lean_x15 — additive extension of tools/c2lean.py for the ring operations of src/ps_endpointer.c (property C15).

`class FnXlate15(c2lean.FnXlate)` is selected per function by the UNITS key `"cls": "c2lean_x15:FnXlate15"`; the core
translator is untouched.  It works by REWRITING the clang AST of the one function (in memory) into the subset the core
translator already understands, plus three small overrides.  What it adds, and how each is to be read (trusted base):

  * floating point: every `double`/`float` VALUE is an opaque token, an `Int` code of which nothing is assumed; every
    floating OPERATION is an opaque function parameter of the translated definition:
        a + b, a += b   -> ext_fadd a b      a - b -> ext_fsub     a * b -> ext_fmul     a / b -> ext_fdiv
        a == b (etc.)   -> ext_feq a b ≠ 0   (ext_fne, ext_flt, ext_fle, ext_fgt, ext_fge)
        (double)i       -> ext_fofint i      (int)x -> ext_ftoint x      -x -> ext_fneg x     literal -> ext_flit <n>
    The theorems quantify over these parameters, so they hold for EVERY interpretation of the floating operations
    (IEEE doubles, or — the hand model's reading — clocks as counts with `ext_fadd := (· + ·)`).  A field of
    floating type is a memory family like an integer field (documented as "double, as an opaque token"); no range is
    assumed for it and no definedness check is emitted for a floating operation.
  * `memcpy` / `memmove` statements listed in `ignore_calls` are dropped: the PAYLOAD bytes are not modelled (the
    pointer arithmetic computing the destination IS translated, with its overflow check, as a local);
  * `if (p)`, `p == NULL`, `p != NULL`, `!p` for a pointer PARAMETER `p` reads a 0/1 parameter `<p>_isnull`
    (1 = the argument is NULL); `*p = e` is a store to the arity-1 family `<p>` at index 0;
  * a function returning a pointer (`"ptr_result": True`) returns an `Int`: the element offset of the returned
    pointer inside its base array (`ep->buf + k` -> `k`), `-1` for `return NULL`.  Which base array is not recorded
    (the translator insists that a pointer local has a single base).
  * a call of such a function (`"ptr_fns": (...)`) is an integer expression; a pointer local initialised by such a
    call is an integer local holding the offset;
  * a `NULL` argument for a pointer parameter of a translated callee passes `1` for `<p>_isnull` and a dummy
    object (`fun _ => 0`) for `*p`; what the callee writes to it is discarded; the opaque `ext_*` parameters of a
    callee are passed on (and become parameters of the caller);
  * a call of a translated function that writes no memory may stand under `&&`/`||`: it is hoisted in front of the
    statement (its value does not depend on when it is evaluated; its definedness check is then required even when C
    would not have evaluated the call — `_ok` gets stricter, never laxer);
  * an `if` of which one branch may, but need not, return: the statements that follow are translated once per
    branch (continuation duplicated).
  * `&x` of an integer local as the argument for a pointer parameter `p` of a translated callee: the callee sees
    `p != NULL` and `*p = x`; after the call `x` is what the callee left in `*p`;
  * `"first_while": True` translates only the first `while` loop of the function, as a fragment in the sense of
    c2lean's `lines` (locals declared outside become parameters; the families written / locals assigned are the
    result); the line range is taken from the AST, not from the registry;
  * the opaque `ext_*` parameters are passed to loop definitions (text patch of the emitted loop: every opaque function
    used so far becomes a leading parameter of the loop definition and of its calls).
  * `assert(c)` (glibc expansion: a statement expression calling `__assert_fail`): the value function ignores it,
    the definedness function requires `c` (a failing assertion is not a defined execution);
  * `"effects": {"g": [(field, arity, term, C type), ...]}`: a call `g(p)` of an UNTRANSLATED function is replaced by its
    STATED effect on the object behind `p`: each listed field family of `p` is rebound to the given Lean term (written
    over the old family names); nothing else changes, no definedness condition is added.  This is an ASSUMPTION about
    `g` made by the registry entry, not derived from g's text (used for `ep_linearize`: allocation + memcpy/memmove).
Everything else is the semantics of tools/c2lean.py (see its docstring).
"""
import copy, sys
from pathlib import Path
sys.path.insert(0, str(Path(__file__).resolve().parent))
import c2lean
from c2lean import Ty, parse_type, strip_quals

FLOAT_TYPES = {"double", "float", "long double", "float32", "float64"}
FOPS = {"+": "fadd", "-": "fsub", "*": "fmul", "/": "fdiv"}
FCMP = {"==": "feq", "!=": "fne", "<": "flt", "<=": "fle", ">": "fgt", ">=": "fge"}
TOKEN = {"qualType": "long"}          # the carrier of an opaque floating token: an integer no check is ever emitted for


def is_float(tnode):
    if not tnode:
        return False
    t = strip_quals(tnode.get("desugaredQualType") or tnode.get("qualType", ""))
    return t in FLOAT_TYPES


class FnXlate15(c2lean.FnXlate):
    def __init__(self, src, fn, known, ignore_calls=(), lines=None, lean_fn=None, opaque_calls=()):
        super().__init__(src, fn, known, ignore_calls, lines, lean_fn, opaque_calls)
        self.float_fields = set()
        self.ptr_result = False
        self.prepared = False

    # the item dict is attached after construction: prepare lazily
    def prepare(self):
        if self.prepared:
            return
        self.prepared = True
        it = getattr(self, "item", {}) or {}
        self.ptr_result = bool(it.get("ptr_result"))
        self.ptr_fns = set(it.get("ptr_fns", ()))
        self.ast = self.defloat(self.ast)
        if self.ptr_fns:
            self.long_ids = set()
            self.deptr(self.ast)
        self.effects = dict(it.get("effects", {}))
        self.ast = self.deassert(self.ast)
        if it.get("first_while"):
            # translate only the first `while` loop of the function (as a fragment: locals declared outside it
            # become parameters, the locals it assigns and the families it writes are the result)
            def find(n):
                if isinstance(n, dict):
                    if n.get("kind") == "WhileStmt":
                        return n
                    for c in n.get("inner", []):
                        r = find(c)
                        if r is not None:
                            return r
                return None
            w = find(self.ast)
            if w is None:
                raise c2lean.XlateError(f"{self.src}: function {self.fn}: first_while given but there is no while loop")
            self.lines = (c2lean.line_of(w), self.end_line(w))
        if self.ptr_result:
            qt = self.ast["type"]["qualType"]
            head, _, tail = qt.partition("(")
            if parse_type({"qualType": head.strip()}).kind != "ptr":
                raise c2lean.XlateError(f"{self.src}: function {self.fn}: ptr_result given but the result type is `{head}`")
            self.ast["type"] = {"qualType": "long (" + tail}

    def translate(self):
        self.prepare()
        return super().translate()

    # -- AST rewriting: floating point -> opaque calls on tokens -------------------------------------
    def fcall(self, name, args, like, ty=None):
        self.opaque_calls.add(name)
        return {"kind": "CallExpr", "type": dict(ty or TOKEN), "range": like.get("range"), "x15": True,
                "inner": [{"kind": "DeclRefExpr", "type": {"qualType": "opaque"}, "range": like.get("range"),
                           "referencedDecl": {"kind": "FunctionDecl", "name": name}}] + args}

    def defloat(self, n):
        """bottom-up rewrite of one node (dict); lists and scalars are returned unchanged"""
        if not isinstance(n, dict) or "kind" not in n:
            return n
        was_float = is_float(n.get("type"))
        kids_float = [is_float(c.get("type")) if isinstance(c, dict) else False for c in n.get("inner", [])]
        if "inner" in n:
            n["inner"] = [self.defloat(c) for c in n["inner"]]
        k = n["kind"]
        if k == "MemberExpr" and was_float:
            self.float_fields.add(n.get("name"))
        if k in ("VarDecl", "ParmVarDecl") and was_float:
            n["type"] = dict(TOKEN)
            return n
        if k == "FunctionDecl":
            return n
        if k == "CompoundAssignOperator" and (was_float or is_float(n.get("computeResultType"))):
            op = n["opcode"][:-1]
            if op not in FOPS or not was_float:
                self.err(n, f"compound assignment `{n['opcode']}` mixing floating and integer types")
            lhs, rhs = n["inner"]
            rd = {"kind": "ImplicitCastExpr", "castKind": "LValueToRValue", "type": dict(TOKEN), "range": n.get("range"),
                  "inner": [copy.deepcopy(lhs)]}
            return {"kind": "BinaryOperator", "opcode": "=", "type": dict(TOKEN), "range": n.get("range"),
                    "inner": [lhs, self.fcall(FOPS[op], [rd, rhs], n)]}
        if k == "BinaryOperator" and n.get("opcode") in FOPS and was_float:
            return self.fcall(FOPS[n["opcode"]], n["inner"], n)
        if k == "BinaryOperator" and n.get("opcode") in FCMP and any(kids_float):
            if not all(kids_float):
                self.err(n, "comparison of a floating and a non-floating value")
            call = self.fcall(FCMP[n["opcode"]], n["inner"], n, {"qualType": "int"})
            zero = {"kind": "IntegerLiteral", "type": {"qualType": "int"}, "value": "0", "range": n.get("range")}
            return {"kind": "BinaryOperator", "opcode": "!=", "type": {"qualType": "int"}, "range": n.get("range"),
                    "inner": [call, zero]}
        if k == "UnaryOperator" and was_float and n.get("opcode") == "-":
            return self.fcall("fneg", n["inner"], n)
        if k == "FloatingLiteral":
            self.err(n, "floating literal (give it a name)")
        if k in ("ImplicitCastExpr", "CStyleCastExpr"):
            ck = n.get("castKind")
            if ck == "IntegralToFloating":
                return self.fcall("fofint", n["inner"], n)
            if ck == "FloatingToIntegral":
                return self.fcall("ftoint", n["inner"], n, n.get("type"))
            if ck == "FloatingCast":
                return n["inner"][0]
            if ck == "FloatingToBoolean":
                self.err(n, "floating value used as a condition")
        if was_float:
            if k in ("MemberExpr", "DeclRefExpr", "ParenExpr", "ArraySubscriptExpr", "ImplicitCastExpr", "ConditionalOperator",
                     "CallExpr") or (k == "BinaryOperator" and n.get("opcode") == "="):
                n["type"] = dict(TOKEN)
                return n
            self.err(n, f"floating-point construct {k} {n.get('opcode', '')}")
        return n

    def fam(self, comps, arity, ty, node, rootkey):
        if comps[-1] in self.float_fields and comps not in self.fams:
            ty = Ty("int", True, 64, "double, as an opaque token")
        return super().fam(comps, arity, ty, node, rootkey)

    # -- null test of a pointer parameter --------------------------------------------------------------
    def param_of(self, n):
        """the pointer PARAMETER `n` reads (an rvalue use of the bare parameter), or None"""
        n = self.skip(n)
        if n.get("kind") == "ImplicitCastExpr" and n.get("castKind") == "LValueToRValue":
            d = self.skip(n["inner"][0])
            if d.get("kind") == "DeclRefExpr" and (d.get("referencedDecl") or {}).get("kind") == "ParmVarDecl":
                v = self.vars.get(d["referencedDecl"]["id"])
                if v is not None and v["kind"] == "ptr" and v["param"]:
                    return v
        return None

    def param_null(self, v, node):
        comps = (v["cname"], "isnull")
        f = self.fam(comps, 0, Ty("int", False, 1, "_Bool (the argument is NULL)"), node, self.rootkey(comps))
        self.used_fams.add(f.comps)
        return f.name

    def null_flag(self, n, node):
        v = self.param_of(n)
        if v is not None:
            return self.param_null(v, node)
        return super().null_flag(n, node)

    def cond(self, n):
        v = self.param_of(n)
        if v is not None:
            return f"({self.param_null(v, n)} = 0)", []
        return super().cond(n)

    def cpath(self, f):
        if len(f.comps) == 2 and f.comps[1] == "isnull" and f.arity == 0:
            return f"{f.comps[0]} == NULL"
        return super().cpath(f)

    # -- pointer results -------------------------------------------------------------------------------
    def stmts(self, lst, out, ind, ctx, k):
        if lst and lst[0].get("kind") == "ReturnStmt" and self.ptr_result and lst[0].get("inner"):
            n = lst[0]
            e = n["inner"][0]
            if parse_type(e.get("type")).kind == "ptr":
                if ctx.get("in_loop"):
                    self.err(n, "return inside a loop")
                if self.is_null(e):
                    out.append(ind + self.result("(-1)"))
                    return
                self.begin_expr()
                p = self.ptr(e)
                self.flush_pre(out, ind)
                self.flush_checks(out, ind, self.conds)
                if p.idx:
                    self.err(n, "returned pointer with an indexed base")
                out.append(ind + self.result(p.off if p.off is not None else "0"))
                return
        return super().stmts(lst, out, ind, ctx, k)

    # -- calls of pointer-result functions: integer expressions -------------------------------------------
    def callee_name(self, n):
        if n.get("kind") != "CallExpr":
            return None
        c = self.skip(n["inner"][0])
        while c.get("kind") == "ImplicitCastExpr":
            c = self.skip(c["inner"][0])
        return (c.get("referencedDecl") or {}).get("name")

    def deptr(self, n):
        """bottom-up: a call of a `ptr_fns` function, a local initialised by one, and reads of such a local are `long`s"""
        if not isinstance(n, dict) or "kind" not in n:
            return
        for c in n.get("inner", []):
            self.deptr(c)
        k = n["kind"]
        kids = [c for c in n.get("inner", []) if isinstance(c, dict) and "kind" in c]
        is_long = lambda c: c.get("x15long")
        if k == "CallExpr" and self.callee_name(n) in self.ptr_fns:
            n["type"], n["x15long"] = dict(TOKEN), True
        elif k == "VarDecl" and kids and is_long(kids[-1]) and parse_type(n.get("type")).kind == "ptr":
            n["type"] = dict(TOKEN)
            self.long_ids.add(n["id"])
        elif k == "DeclRefExpr" and (n.get("referencedDecl") or {}).get("id") in self.long_ids:
            n["type"], n["x15long"] = dict(TOKEN), True
            n["referencedDecl"]["type"] = dict(TOKEN)
        elif k in ("ImplicitCastExpr", "ParenExpr") and kids and is_long(kids[0]) and \
                (k == "ParenExpr" or n.get("castKind") in ("NoOp", "LValueToRValue")):
            n["type"], n["x15long"] = dict(TOKEN), True

    def pure_known(self, n):
        info = self.known.get(self.callee_name(n))
        return info is not None and not info.written

    def rv(self, n):
        m = self.skip(n)
        if m.get("kind") == "CallExpr" and self.guarded and (self.pure_known(m) or m.get("x15")):
            g = self.guarded
            self.guarded = False
            try:
                return self.call(m, want_value=True)
            finally:
                self.guarded = g
        return super().rv(n)

    def call(self, n, want_value):
        name = self.callee_name(n)
        info = self.known.get(name)
        if info is None:
            return super().call(n, want_value)
        args = n["inner"][1:]
        null_args = {pname for (kind, pname, _), a in zip(info.params, args) if kind == "ptr" and self.is_null(a)}
        addr_args = {}      # pointer parameter -> integer local whose address is passed (`&x`)
        for (kind, pname, _), a in zip(info.params, args):
            if kind == "ptr":
                u = self.skip(a)
                if u.get("kind") == "UnaryOperator" and u.get("opcode") == "&":
                    lv = self.lvalue(u["inner"][0])
                    if lv.var is None or lv.var["kind"] != "int":
                        self.err(n, "`&` of something that is not an integer local, as an argument")
                    addr_args[pname] = lv.var
        if not null_args and not addr_args and not getattr(info, "opaque", None):
            return super().call(n, want_value)
        # the core's call(), plus: opaque parameters passed on, NULL pointer arguments
        terms = []
        if info.has_fuel:
            self.uses_fuel = True
            terms.append("fuel")
        if info.has_undef:
            self.uses_undef = True
            terms.append("undef")
        for nm, ar in info.opaque:
            if self.opaque_used.setdefault(nm, ar) != ar:
                self.err(n, f"opaque call `{nm}` with differing numbers of integer arguments")
            terms.append(f"ext_{c2lean.lean_name(nm)}")
        # arguments in the order of the callee's signature: per C parameter the integer, or the families behind the
        # pointer (sorted by key, as translate_once emits them); then the global families
        outs = {}           # callee family (comps) -> caller's family, or None = written but discarded (NULL argument)

        def pass_fam(f, p):
            root = f.comps[0]
            if root in addr_args:
                # `&x` for an integer local x: the object behind the parameter is x (index 0), it is not NULL
                v = addr_args[root]
                if f.comps == (root, "isnull"):
                    terms.append("0")
                elif f.comps == (root,) and f.arity == 1:
                    terms.append(f"(fun _ => {v['name']})")
                    if f in info.written:
                        outs[f.comps] = ("local", v)
                else:
                    self.err(n, f"`&{v['cname']}` passed for a parameter the callee uses as `{'.'.join(f.comps)}`")
                return
            if root in null_args:
                if f.comps == (root, "isnull"):
                    terms.append("1")
                else:
                    terms.append("(fun " + "_ " * f.arity + "=> 0)" if f.arity else "0")
                if f in info.written:
                    outs[f.comps] = None
                return
            if p is not None:
                if p.off is not None or p.idx:
                    self.err(n, f"pointer argument for `{root}` is not a plain base pointer")
                comps = p.fam + f.comps[1:]
            else:
                comps = f.comps
            mine = self.fam(comps, f.arity, f.ty, n, self.rootkey(comps))
            self.used_fams.add(mine.comps)
            terms.append(mine.name)
            if f in info.written:
                outs[f.comps] = mine
        for (kind, pname, third), a in zip(info.params, args):
            if kind == "int":
                e = self.rv(a)
                self.conds += e.conds
                terms.append(self.atom(e.term))
                continue
            mine_fams = [f for f in info.fams if f.rootkey == (0, third)]
            p = None
            if pname not in null_args and pname not in addr_args and mine_fams:
                p = self.ptr(a)
            for f in mine_fams:
                pass_fam(f, p)
        for f in info.fams:
            if f.rootkey[0] == 1:
                pass_fam(f, None)
        outs = [outs[f.comps] for f in info.written]
        self.ntmp += 1
        r = f"call{self.ntmp}"
        self.pre.append(("let", r, " ".join([info.lean] + terms)))
        self.pre.append(("ok", " ".join([info.lean + "_ok"] + terms)))
        comps_n = (1 if info.ret_ty else 0) + len(info.written)

        def proj(i):
            if comps_n == 1:
                return r
            return r + ".2" * i + (".1" if i < comps_n - 1 else "")
        for j, w in enumerate(outs):
            if w is None:
                continue
            if isinstance(w, tuple):
                v = w[1]
                self.pre.append(("let", v["name"], f"{proj(j + (1 if info.ret_ty else 0))} 0"))
                self.assigned_here.add(v["decl"]["id"])
                v["assigned"] = True
                continue
            w.written = True
            self.written_here.add(w.comps)
            self.pre.append(("letfam", w, proj(j + (1 if info.ret_ty else 0))))
        if want_value:
            if not info.ret_ty:
                self.err(n, f"value of void function `{name}`")
            return self.E(proj(0), [], info.ret_ty)
        return None

    # -- an `if` of which a branch may, but need not, leave: the continuation is translated in both branches ----
    def if_stmt(self, n, out, ind, ctx, nxt):
        inner = n["inner"]
        th, el = inner[1], (inner[2] if len(inner) > 2 else None)
        m1, mu1 = self.exits(th)
        m2, mu2 = self.exits(el)
        if (m1 or m2) and not (mu1 or mu2) and not ctx.get("in_loop"):
            c = self.eval_cond(inner[0], out, ind)
            scope = set(self.vars)
            ptrs = {i: (v["ptr"], v.get("alias")) for i, v in self.vars.items()}
            out.append(f"{ind}if {c} then")
            self.stmts([th], out, ind + "  ", ctx, lambda o, i: (self.drop_scope(scope), nxt(o, i)))
            self.drop_scope(scope)
            for i, (p, a) in ptrs.items():
                if i in self.vars:
                    self.vars[i]["ptr"], self.vars[i]["alias"] = p, a
            out.append(f"{ind}else")
            self.stmts([el] if el else [], out, ind + "  ", ctx, lambda o, i: (self.drop_scope(scope), nxt(o, i)))
            self.drop_scope(scope)
            return
        return super().if_stmt(n, out, ind, ctx, nxt)

    # -- loops: the opaque `ext_*` functions used so far are passed to the loop definition -------------------
    def loop(self, n, out, ind, ctx, nxt):
        import re
        mark, pos = len(self.loops), len(out)

        def patched(o, i):
            exts = [(f"ext_{c2lean.lean_name(nm)}", ar) for nm, ar in sorted(self.opaque_used.items())]
            if exts:
                names = [re.match(r"(?s).*?\ndef (\S+) ", "\n" + L).group(1) for L in self.loops[mark:]]
                sig = " ".join(f"({e} : {' → '.join(['Int'] * (ar + 1))})" for e, ar in exts)
                use = " ".join(e for e, _ in exts)

                def fix(text):
                    for nm in names:
                        text = re.sub(rf"(?<![A-Za-z0-9_])def {re.escape(nm)} (?!\(ext_)", f"def {nm} {sig} ", text)
                        text = re.sub(rf"(?<![A-Za-z0-9_`])(?<!def ){re.escape(nm)} (?!ext_)", f"{nm} {use} ", text)
                    return text
                for j in range(mark, len(self.loops)):
                    self.loops[j] = fix(self.loops[j])
                for j in range(pos, len(o)):
                    o[j] = fix(o[j])
            return nxt(o, i)
        return super().loop(n, out, ind, ctx, patched)

    # -- assert ---------------------------------------------------------------------------------------------
    def mentions(self, n, name):
        if isinstance(n, dict):
            if (n.get("referencedDecl") or {}).get("name") == name:
                return True
            return any(self.mentions(c, name) for c in n.get("inner", []))
        return False

    def deassert(self, n):
        if not isinstance(n, dict):
            return n
        if n.get("kind") == "CompoundStmt":
            kids = []
            for c in n.get("inner", []):
                if isinstance(c, dict) and c.get("kind") not in ("CompoundStmt", "IfStmt", "WhileStmt", "ForStmt", "DoStmt",
                                                               "SwitchStmt", "DeclStmt", "ReturnStmt") \
                        and self.mentions(c, "__assert_fail"):
                    def first_if(m):
                        if isinstance(m, dict):
                            if m.get("kind") == "IfStmt":
                                return m
                            for k in m.get("inner", []):
                                r = first_if(k)
                                if r is not None:
                                    return r
                        return None
                    i = first_if(c)
                    if i is None:
                        self.err(c, "assert expansion without an if statement")
                    kids.append({"kind": "X15Assert", "range": c.get("range"), "cond": i["inner"][0]})
                else:
                    kids.append(self.deassert(c))
            n["inner"] = kids
            return n
        if "inner" in n:
            n["inner"] = [self.deassert(c) for c in n["inner"]]
        return n

    def expr_stmt(self, n, out, ind):
        if n.get("kind") == "X15Assert":
            c = self.eval_cond(n["cond"], out, ind)
            self.flush_checks(out, ind, [c])
            return
        m = self.skip(n)
        if m.get("kind") == "CallExpr" and self.callee_name(m) in getattr(self, "effects", {}):
            name = self.callee_name(m)
            self.begin_expr()
            p = self.ptr(m["inner"][1])
            if p.off is not None or p.idx:
                self.err(n, f"argument of effect call `{name}` is not a plain base pointer")
            for field, arity, term, tname in self.effects[name]:
                comps = p.fam + (field,)
                f = self.fam(comps, arity, parse_type({"qualType": tname}), n, self.rootkey(comps))
                f.written = True
                self.used_fams.add(f.comps)
                self.written_here.add(f.comps)
                out.append(f"{ind}let {f.name} := {term}")
            return
        return super().expr_stmt(n, out, ind)
