"""C18: numeric constants of the score arithmetic, evaluated by the C compiler from the CURRENT headers
(a tiny dumper program is compiled against /repo/include and run), written to
lean/SSVerif/Generated/RangeConsts.lean.  The theorems of Props/C18 are re-checked by `lake build`
against this file, so a changed constant (e.g. a WORST_SCORE that no longer leaves head-room in int32)
breaks a proof obligation."""
import subprocess, tempfile, os
import vlib

GEN = vlib.LEAN / "SSVerif" / "Generated"

EXPRS = [
    # (lean name, C expression, lean type)
    ("worstScore", "(long long)WORST_SCORE", "Int"),
    ("senscrShift", "(long long)SENSCR_SHIFT", "Nat"),
    ("tmatWorstScore", "(long long)TMAT_WORST_SCORE", "Int"),
    ("maxNFrames", "(long long)MAX_N_FRAMES", "Int"),
    ("maxNegAscr", "(long long)MAX_NEG_ASCR", "Int"),
    ("maxNegMixw", "(long long)MAX_NEG_MIXW", "Int"),
    ("worstDist", "(long long)WORST_DIST", "Int"),
    ("senscrDummy", "(long long)SENSCR_DUMMY", "Int"),
    ("hmmMaxNState", "(long long)HMM_MAX_NSTATE", "Nat"),
    ("intMin", "(long long)INT_MIN", "Int"),
    ("int32Max", "(long long)MAX_INT32", "Int"),
    ("int32Min", "(long long)MAX_NEG_INT32", "Int"),
    ("int16Max", "(long long)MAX_INT16", "Int"),
    ("int16Min", "(long long)MAX_NEG_INT16", "Int"),
    ("badSenid", "(long long)BAD_SENID", "Nat"),
    ("badSsid", "(long long)BAD_SSID", "Nat"),
    ("cmnWin", "(long long)CMN_WIN", "Nat"),
    ("cmnWinHwm", "(long long)CMN_WIN_HWM", "Nat"),
    ("sizeofSenscr", "(long long)sizeof(((acmod_t *)0)->senone_scores[0])", "Nat"),
    ("sizeofHmmScore", "(long long)sizeof(((hmm_t *)0)->score[0])", "Nat"),
    ("sizeofHistScore", "(long long)sizeof(((fsg_hist_entry_t *)0)->score)", "Nat"),
    ("sizeofTp", "(long long)sizeof(***((hmm_context_t *)0)->tp)", "Nat"),
]

SRC = r"""
#include <stdio.h>
#include <limits.h>
#include <soundswallower/prim_type.h>
#include <soundswallower/hmm.h>
#include <soundswallower/acmod.h>
#include <soundswallower/cmn.h>
#include <soundswallower/bin_mdef.h>
#include <soundswallower/fsg_history.h>
#include <soundswallower/tied_mgau_common.h>
int main(void) {
%s
  return 0;
}
"""

# behavioural constant (C18More): does hmm_vit_eval_anytopo floor the entry state at WORST_SCORE like the other
# states?  Evaluated by RUNNING the current src/hmm.c (included into a probe with stub allocators) on a 4-state HMM
# whose entry state holds WORST_SCORE and whose senone scores are 1000: the floor is there iff the new entry score is
# still >= WORST_SCORE - 255 (one transition below the floor), without it it is WORST_SCORE - 1010.
PROBE = r"""
#include <stdio.h>
#include <stdlib.h>
#include <stdarg.h>
#include <hmm.c>
void *__ckd_calloc__(size_t n, size_t s, const char *f, int l) { (void)f; (void)l; return calloc(n ? n : 1, s ? s : 1); }
void ckd_free(void *p) { free(p); }
void err_msg(err_lvl_t lvl, const char *path, long ln, const char *fmt, ...) { (void)lvl; (void)path; (void)ln; (void)fmt; }
int main(void) {
  uint8 row[4][5] = {{10,20,255,255,255},{255,10,20,255,255},{255,255,10,20,255},{255,255,255,10,20}};
  uint8 *rows[4] = { row[0], row[1], row[2], row[3] };
  uint8 **tp[1] = { rows };
  uint16 seq[4] = {0,1,2,3}; uint16 *sseq[1] = { seq };
  int16 senscore[4] = {1000,1000,1000,1000};
  hmm_context_t *ctx = hmm_context_init(4, (uint8 **const *)tp, senscore, sseq);
  hmm_t h;
  hmm_init(ctx, &h, 0, 0, 0);
  hmm_vit_eval(&h);
  printf("anytopoClamp0 %%d\n", hmm_in_score(&h) >= WORST_SCORE - 255 ? 1 : 0);
  return 0;
}
"""

# literal of the renormalisation test of state_align_search_step (not a macro): read from the source text
RENORM_RE = r"best_score\s*-\s*(0[xX][0-9a-fA-F]+|\d+)\s*\)\s*WORSE_THAN\s+WORST_SCORE"


def extra_consts():
    import re
    with tempfile.TemporaryDirectory() as td:
        c = os.path.join(td, "p.c")
        exe = os.path.join(td, "p")
        open(c, "w").write(PROBE.replace("%%", "%"))
        r = subprocess.run(["gcc", "-w", "-DHAVE_CONFIG_H", "-I" + str(vlib.HARNESS / "config"),
                            "-I" + str(vlib.REPO / "include"), "-I" + str(vlib.REPO / "src"), c, "-o", exe],
                           stdout=subprocess.PIPE, stderr=subprocess.STDOUT, text=True)
        if r.returncode != 0:
            raise vlib.BuildError("C18 anytopo probe does not compile:\n" + r.stdout[-1500:])
        out = subprocess.run([exe], stdout=subprocess.PIPE, text=True).stdout
    clamp0 = int(out.split()[1])
    src = (vlib.REPO / "src" / "state_align_search.c").read_text()
    m = re.search(RENORM_RE, src)
    if not m:
        raise vlib.BuildError("C18: renormalisation test of state_align_search_step not found "
                              "(pattern `best_score - <literal>) WORSE_THAN WORST_SCORE`)")
    return clamp0, int(m.group(1), 0)


def gen_range_consts():
    body = "\n".join(f'  printf("%s %%lld\\n", {e});' % n for n, e, _ in EXPRS)
    with tempfile.TemporaryDirectory() as td:
        c = os.path.join(td, "d.c")
        exe = os.path.join(td, "d")
        open(c, "w").write(SRC % body)
        r = subprocess.run(["gcc", "-w", "-DHAVE_CONFIG_H", "-I" + str(vlib.HARNESS / "config"),
                            "-I" + str(vlib.REPO / "include"), "-I" + str(vlib.REPO / "src"), c, "-o", exe],
                           stdout=subprocess.PIPE, stderr=subprocess.STDOUT, text=True)
        if r.returncode != 0:
            raise vlib.BuildError("C18 constant dumper does not compile (a constant the model depends on is gone?):\n"
                                  + r.stdout[-1500:])
        out = subprocess.run([exe], stdout=subprocess.PIPE, text=True).stdout
    vals = dict(l.split() for l in out.strip().split("\n"))
    lines = ["-- GENERATED by tools/gen_ranges.py from include/soundswallower/{hmm,acmod,cmn,bin_mdef,fsg_history,"
             "tied_mgau_common,prim_type}.h — do not edit",
             "namespace SSVerif.Generated.Ranges"]
    for n, _, ty in EXPRS:
        v = int(vals[n])
        lines.append(f"def {n} : {ty} := {v}" if ty == "Nat" or v >= 0 else f"def {n} : {ty} := {v}")
    clamp0, margin = extra_consts()
    lines.append("-- literal of the renormalisation test in state_align_search_step (src/state_align_search.c)")
    lines.append(f"def alignRenormMargin : Int := {margin}")
    lines.append("-- behaviour of hmm_vit_eval_anytopo on the entry state, probed by running src/hmm.c (see gen_ranges.py)")
    lines.append(f"def anytopoClamp0 : Bool := {'true' if clamp0 else 'false'}")
    lines.append("end SSVerif.Generated.Ranges")
    path = GEN / "RangeConsts.lean"
    text = "\n".join(lines) + "\n"
    if path.exists() and path.read_text() == text:
        return False
    path.parent.mkdir(parents=True, exist_ok=True)
    vlib.atomic_write(path, text)
    return True


def read_consts():
    import re
    txt = (GEN / "RangeConsts.lean").read_text()
    return {m.group(1): int(m.group(2)) for m in re.finditer(r"def (\w+) : \w+ := (-?\d+)", txt)}
