#!/usr/bin/env python3
"""Entry point of every registered check:  python3 tools/check.py C20 --tier quick|thorough [--replay F]

exit 0: the property held on everything explored (KNOWN-FINDING lines may be printed)
exit 1: a line `VIOLATION property=<id> replay=<path>[ no-failing-input-found]` was printed
"""
import argparse, importlib, os, sys, traceback
from pathlib import Path
sys.path.insert(0, str(Path(__file__).resolve().parent))
import vlib, gen_consts


def main():
    ap = argparse.ArgumentParser()
    ap.add_argument("prop")
    ap.add_argument("--tier", default=os.environ.get("VERIF_TIER", "quick"), choices=["quick", "thorough"])
    ap.add_argument("--seed", type=int, default=int(os.environ.get("VERIF_SEED", "1")))
    ap.add_argument("--replay", default=None)
    a = ap.parse_args()
    prop = a.prop.upper()
    mod = importlib.import_module(f"props.{prop.lower()}")
    c = vlib.Check(prop, a.tier, a.seed)
    try:
        try:
            changed = gen_consts.generate(prop)
            if changed:
                vlib.log(f"[{prop}] regenerated: {changed}")
            c.oblige("constants/tables regenerated from the current sources", True)
        except vlib.BuildError as e:
            c.oblige("constants/tables regenerated from the current sources", False, str(e))
        if a.replay:
            mod.replay(c, a.replay)
        else:
            mod.check(c)
    except vlib.BuildError as e:
        c.oblige("build of the code under test / harness", False, str(e))
    except Exception:
        c.oblige("check machinery ran to completion", False, traceback.format_exc())
    sys.exit(mod.finish(c) if hasattr(mod, "finish") else c.finish())


if __name__ == "__main__":
    main()
