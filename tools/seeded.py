#!/usr/bin/env python3
"""Coordinator helper for seeded breaking changes.
  seeded.py import <PROP> <srcdir>       copy <srcdir>/m*/ {patch.diff,demo.c,meta.json} to /verif/seeded/<PROP>-m<i>/
  seeded.py run <seeded-id> [tier]       apply the patch to /repo, run the property's check, revert, record the outcome
  seeded.py runall [PROP]
Patches are never committed to /repo; the tree is restored with `git checkout -- .` whatever happens."""
import json, shutil, subprocess, sys, time
from pathlib import Path
ROOT = Path(__file__).resolve().parent.parent
SEED = ROOT / "seeded"


def sh(cmd, **kw):
    return subprocess.run(cmd, shell=True, stdout=subprocess.PIPE, stderr=subprocess.STDOUT, text=True, **kw)


def imp(prop, src, tag=""):
    for d in sorted(Path(src).glob("m*")):
        if not (d / "patch.diff").exists():
            continue
        dst = SEED / f"{prop}-{tag}{d.name}"
        dst.mkdir(parents=True, exist_ok=True)
        for f in d.iterdir():
            if f.is_file() and f.stat().st_size < 200000 and f.suffix in (".diff", ".c", ".json", ".h", ".sh", ".txt", ".gram", ".fsg", ".py"):
                shutil.copy(f, dst / f.name)
                if f.suffix in (".c", ".h", ".sh", ".py"):
                    # demos refer to their author's scratch worktree; point them at /repo (same files)
                    t = (dst / f.name).read_text()
                    (dst / f.name).write_text(t.replace(str(Path(src).parent), "/repo"))
        meta = json.loads((dst / "meta.json").read_text()) if (dst / "meta.json").exists() else {}
        meta["property"] = prop
        meta.setdefault("origin", "written by an independent sub-agent that saw only the property text and a scratch worktree")
        (dst / "meta.json").write_text(json.dumps(meta, indent=1))
        print("imported", dst)


def run(sid, tier="quick", wt=None):
    """apply the change to a scratch worktree at /repo's HEAD and run the property's check against it
    (VERIF_REPO=<worktree>), so that /repo itself and whatever else is running against it stay undisturbed;
    evidence and generated files are restored / regenerated from /repo afterwards"""
    d = SEED / sid
    wt = wt or f"/tmp/wt-seeded-{sid}"     # one worktree per change: several runs may go on at once
    meta = json.loads((d / "meta.json").read_text())
    prop = meta["property"]
    head = sh("git -C /repo rev-parse HEAD").stdout.strip()
    if not Path(wt).exists():
        sh(f"git -C /repo worktree add --detach {wt} {head}")
    sh(f"git -C {wt} checkout -q --detach {head}; git -C {wt} checkout -- .")
    r = sh(f"git -C {wt} apply {d/'patch.diff'} 2>&1")
    applied = r.returncode == 0
    out = ""
    ev = ROOT / "evidence" / f"{prop}.json"
    ev_saved = ev.read_text() if ev.exists() else None   # committed evidence must come from the unchanged tree
    try:
        if not applied:
            meta["check_result"] = {"applies": False, "detail": r.stdout[-400:]}
        else:
            t0 = time.time()
            import os
            env = dict(os.environ, VERIF_REPO=wt)
            c = subprocess.run(f"python3 tools/check.py {prop} --tier {tier}", shell=True, cwd=ROOT, env=env,
                               stdout=subprocess.PIPE, stderr=subprocess.STDOUT, text=True)
            out = c.stdout
            viol = [l for l in out.split("\n") if l.startswith("VIOLATION")]
            meta["check_result"] = {"applies": True, "tier": tier, "exit": c.returncode, "caught": c.returncode == 1 and bool(viol),
                                    "violation_lines": viol[:3], "wall_s": round(time.time() - t0, 1),
                                    "repo_head": head[:7],
                                    "ran": f"scratch worktree of /repo HEAD + seeded/{sid}/patch.diff; VERIF_REPO=<worktree> python3 tools/check.py {prop} --tier {tier} (equivalent to: git -C /repo apply <patch>; check; git -C /repo checkout -- .)"}
            if viol:
                rp = viol[0].split("replay=")[1].split()[0]
                try:
                    meta["check_result"]["replay_excerpt"] = Path(rp).read_text()[:1500]
                except Exception:
                    pass
    finally:
        sh(f"git -C /repo worktree remove --force {wt}")
        if ev_saved is not None:
            ev.write_text(ev_saved)
        sh(f"python3 tools/gen_consts.py {prop}", cwd=ROOT)   # generated files back to /repo's values
    (d / "meta.json").write_text(json.dumps(meta, indent=1))
    print(sid, meta["check_result"].get("caught"), meta["check_result"].get("violation_lines"))
    if not meta["check_result"].get("caught"):
        print(out[-1500:])


def confirm(sid, wt=None):
    """independent confirmation in a scratch worktree at /repo's HEAD: pinned tests pass with the change,
    demo fails with it and passes without it"""
    d = SEED / sid
    wt = wt or f"/tmp/wt-confirm-{sid}"   # one worktree per change (removed at the end): confirmations may run in parallel
    meta = json.loads((d / "meta.json").read_text())
    head = sh("git -C /repo rev-parse HEAD").stdout.strip()
    if not Path(wt).exists():
        sh(f"git -C /repo worktree add --detach {wt} {head}")
    sh(f"git -C {wt} checkout -q --detach {head}; git -C {wt} checkout -- .")
    demo = (d / "demo.c")
    src = demo.read_text()
    res = {"repo_head": head[:7]}
    def build_and_demo(tag):
        t = sh(f"python3 {ROOT}/tools/pinned_tests.py {wt}")
        res[f"pinned_tests_{tag}"] = t.stdout.strip().split("\n")[-1]
        c = sh(f"cc -w -O1 -I{wt}/include -I{wt}/src -I{wt}/_build {demo} {meta.get('demo_extra_flags', '')} {wt}/_build/libsoundswallower.a -lm -o {wt}/_build/demo_seeded")
        if c.returncode != 0:
            res[f"demo_{tag}"] = "does not compile: " + c.stdout[-300:]
            return None
        try:
            r = sh(f"{wt}/_build/demo_seeded", timeout=300, cwd=wt)
            res[f"demo_{tag}"] = f"exit {r.returncode}: " + r.stdout.strip()[-200:]
            return r.returncode
        except subprocess.TimeoutExpired:
            res[f"demo_{tag}"] = "timeout"
            return -1
    a = sh(f"git -C {wt} apply {d/'patch.diff'}")
    if a.returncode != 0:
        res["applies"] = False
    else:
        rc_with = build_and_demo("with_change")
        sh(f"git -C {wt} checkout -- .")
        rc_without = build_and_demo("without_change")
        res["confirmed"] = bool(rc_with not in (0, None) and rc_without == 0 and "[]" in res.get("pinned_tests_with_change", ""))
    meta["coordinator_confirmation"] = res
    (d / "meta.json").write_text(json.dumps(meta, indent=1))
    sh(f"git -C /repo worktree remove --force {wt}")
    print(sid, res)


if __name__ == "__main__":
    if sys.argv[1] == "import":
        imp(sys.argv[2], sys.argv[3], sys.argv[4] if len(sys.argv) > 4 else "")
    elif sys.argv[1] == "run":
        run(sys.argv[2], sys.argv[3] if len(sys.argv) > 3 else "quick")
    elif sys.argv[1] == "confirm":
        confirm(sys.argv[2])
    elif sys.argv[1] == "runall":
        for d in sorted(SEED.iterdir()):
            if len(sys.argv) < 3 or d.name.startswith(sys.argv[2] + "-"):
                run(d.name)
