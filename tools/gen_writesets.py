#!/usr/bin/env python3
"""C08 static write sets: from the clang-14 JSON AST of every library source of the CURRENT tree compute

 (a) the static call graph — direct calls, calls through function-pointer members resolved by what is ever
     stored in that member (initialiser lists of the static vtables `fsg_funcs`, `ptm_mgau_funcs`, `fe_warp_conf[]`, …
     and assignments such as `fcb->compute_feat = feat_s3_1x39_cep2feat`), every other indirect call resolved to
     every function whose address is taken anywhere and that has the same number of parameters; a function whose
     address is taken inside F (callback handed to qsort / hash-table walkers) counts as called by F;
 (b) per function the MAY-WRITE set of fields of the state-carrying structs (same inventory and the same
     `<struct>__<field>` keys as tools/gen_fields.py / Generated/Fields.lean) and of writable globals
     (`<object>__<symbol>` as printed by nm);

closes (b) over (a) from the public entry points of every API phase and writes
lean/SSVerif/Generated/WriteSets.lean (one `List Field` + one `List Global` per phase) and a JSON side file with
witness call chains (.build/gen/c08_writesets.json) for tools/props/c08.py.

What counts as a write of field `S.f` (over-approximation rules; DESIGN C08 lists what escapes them):
  asg    `x->f`, `x->f[i]…`, `*x->f`, `x->f.g`, `x.f` is the target of `=`, `op=`, `++`, `--`
  rec    an lvalue of type `struct S` is assigned as a whole, or `S *` is handed as non-const `void *` to a function
         without a body in the library (memset, memcpy, fread …): every field of S
  addr   `&x->f…` is taken anywhere except as an argument for a pointer-to-const parameter
  decay  an array-typed lvalue rooted in `x->f` decays to a pointer that reaches a non-const parameter / variable
  ptr    the pointer VALUE of `x->f…` (pointee not a struct) is passed for a non-const pointer parameter, copied
         into a non-const pointer variable / member, or returned: the buffer the field owns may be written through it
  alloc  `T *x = ckd_calloc/ckd_malloc(…)`: every field of T (a fresh object replaces the old one)
         (a pointer STORED in a member `y->g = x->f` counts when something writes through `y->g`, i.e. when the content
         of member g is written anywhere in the library)
  own    a field of a record OUTSIDE the inventory is written through `x->f->…`: attributed to the owning field f
Arguments of printf-like functions after the format string are treated as read.
Per-file summaries are cached by content hash (source + every header + this script) under .build/ws-cache.
"""
import hashlib, json, os, re, subprocess, sys
from concurrent.futures import ProcessPoolExecutor
from pathlib import Path
import vlib
import gen_fields

VERSION = "ws-7"
STRUCTS = gen_fields.STRUCTS
INV = set(STRUCTS)
PRINTF_LIKE = {"err_msg": 4, "err_msg_system": 4, "printf": 1, "fprintf": 2, "sprintf": 2, "snprintf": 3,
               "ckd_fail": 1, "string_join": 0}

# API phases: name -> public entry points (decoder.c).  A name that no longer exists is reported (`missingEntries`).
PHASES = [
    ("init", ["decoder_init", "decoder_create", "decoder_reinit", "decoder_reinit_feat", "decoder_apply_mllr",
              "decoder_set_logfile", "decoder_init_config", "decoder_init_cleanup", "decoder_init_fe", "decoder_init_feat",
              "decoder_init_feat_s3file", "decoder_init_acmod_pre", "decoder_init_acmod_post", "decoder_init_acmod",
              "decoder_init_dict", "decoder_init_dict_s3file", "decoder_init_grammar", "decoder_init_grammar_s3file"]),
    ("setGrammar", ["decoder_set_fsg", "decoder_set_jsgf_file", "decoder_set_jsgf_string", "decoder_set_align_text"]),
    ("addWord", ["decoder_add_word"]),
    ("setCmn", ["decoder_set_cmn"]),
    ("getCmn", ["decoder_get_cmn"]),
    ("startUtt", ["decoder_start_utt"]),
    ("process", ["decoder_process_int16", "decoder_process_float32"]),
    ("endUtt", ["decoder_end_utt"]),
    ("query", ["decoder_hyp", "decoder_prob", "decoder_seg_iter", "seg_iter_next", "seg_iter_word", "seg_iter_frames",
               "seg_iter_prob", "seg_iter_free", "decoder_lattice", "decoder_n_frames", "decoder_utt_time",
               "decoder_all_time", "decoder_nbest", "hyp_iter_next", "hyp_iter_hyp", "hyp_iter_seg", "hyp_iter_free",
               "decoder_lookup_word", "decoder_config", "decoder_logmath", "decoder_fe", "decoder_feat"]),
    ("queryAlign", ["decoder_alignment"]),
    ("resultJson", ["decoder_result_json"]),
    ("free", ["decoder_free"]),
]

# public functions of decoder.c that belong to no phase, with the reason
NOT_PHASED = {"decoder_retain": "increments decoder_s.refcount only"}
API_NAME = re.compile(r"^(decoder|seg_iter|hyp_iter)_")

# what the void* members of the generic containers hold, as far as it hangs off the decoder (hand-listed; every
# void* member met on the way is reported as an `opaqueEdge`)
VOID_EDGES = {"blkarray_list_s.ptr": ["fsg_hist_entry_s"], "hmm_context_s.udata": [], "anytype_s.ptr": [],
              "hash_entry_s.val": ["config_val_s", "config_param_s"]}

# Constructor cuts: (function, structs, reason).  Below `function`, writes to fields of `structs` go to the object
# that the function allocates (the analysis is type-based and cannot tell objects of one struct apart).
CUTS = [
    ("state_align_search_init", ["search_module_s", "hmm_context_s", "hmm_s"],
     "decoder_alignment / decoder_result_json build a NEW state_align_search module (ckd_calloc in "
     "state_align_search_init, search_module_init + hmm_context_init + hmm_init on its own memory), run it over "
     "the stored features and free it; its search_module_s base / HMM context / HMM array are not the decoder's"),
    ("state_align_search_free", ["search_module_s", "hmm_context_s", "hmm_s"],
     "frees exactly that object (reached at utterance time only for d->align, see slotRefinements)"),
    ("state_align_search_start", ["hmm_s"], "enters sas->hmms[0], the HMM array owned by the state_align_search object"),
    ("state_align_search_step", ["hmm_s"], "evaluates / prunes / extends sas->hmms[], the HMM array owned by the state_align_search "
     "object (when that object is the decoder's main search — decoder_set_align_text — the same fields are written "
     "by the fsg_search_* implementation of the vtable member, which is followed)"),
] + [(fn, ["*"],
      "reference-counted release of an object the decoder itself holds a reference to for its whole life "
      "(decoder_init_* store it in decoder_s / acmod_s; dropped only by decoder_free / decoder_reinit): when a cache "
      "object (lattice, alignment, search module) releases its own reference the count stays >= 1 and the "
      "destructor body is dead; only the write to the reference counter is kept")
     for fn in ("dict_free", "dict2pid_free", "logmath_free", "bin_mdef_free", "config_free", "fsg_model_free",
                "acmod_free", "fe_free", "feat_free", "tmat_free")]


# Call-site refinements of vtable calls: (calling function, member, targets kept, reason).
_ALIGN_ONLY = ("applied to d->align only, and d->align is only ever assigned the result of state_align_search_init "
               "(decoder_alignment) or NULL: the call can only reach the state_align_search_* implementation")
SLOT_REFINE = [(fn, f"searchfuncs_s.{m}", [f"state_align_search_{m}"], _ALIGN_ONLY)
               for fn, ms in (("decoder_start_utt", ["free"]), ("decoder_end_utt", ["free"]),
                              ("decoder_alignment", ["free", "start", "step", "finish"])) for m in ms]


def ident(s):
    return re.sub(r"[^A-Za-z0-9_]", "_", s)


def clang_cmd(src):
    return ["clang-14", "-Xclang", "-ast-dump=json", "-fsyntax-only", "-UNDEBUG", "-D" + vlib.GUARD, "-DHAVE_CONFIG_H",
            "-I" + str(vlib.HARNESS / "config"), "-I" + str(vlib.REPO / "include"), "-I" + str(vlib.REPO / "src"),
            "-w", str(src)]


# ----------------------------------------------------------------------------------------------------------
# per translation unit

def tstr(n):
    t = n.get("type") or {}
    return t.get("desugaredQualType") or t.get("qualType") or ""


def is_ptr(ts):
    return "*" in ts or ts.endswith("]")


def readonly_ptr(ts):
    """True when nothing can be written through a value of this type (not a data pointer, or const at every level)"""
    if "(" in ts:          # function pointer
        return True
    if ts.endswith("]"):
        ts = re.sub(r"\s*\[[^\]]*\]$", " *", ts)
    parts = ts.split("*")
    if len(parts) < 2:
        return True
    return all("const" in p.split() for p in parts[:-1])


class TU:
    def __init__(self, ast, stem):
        self.stem = stem
        self.field = {}         # FieldDecl id -> (record name, field name)
        self.rec_fields = {}    # record name -> [field names] (declaration order, named fields)
        self.td_anon = {}       # typedef name -> record name (anonymous records named by their typedef)
        self.td_rec = {}        # typedef name -> record name (any typedef of a record type)
        self.globals = {}       # VarDecl id -> global key dict
        self.gdefs = []         # definitions in this TU
        self.static_funcs = set()
        self.funcs = {}         # key -> summary
        self.slots = {}         # "rec.field" / "var:<global>" -> set(function keys)
        self.addr_global = set()
        self.hmm_init_mpx = []
        self.written_records = set()   # records outside the inventory with a field written somewhere
        self.exposed_records = set()   # (callee, record outside the inventory) handed over as void *
        self.line = 0
        self.file = ""
        self._records(ast)
        self._toplevel(ast)

    # -- records ---------------------------------------------------------------------------------------
    def _records(self, ast):
        owned = {}
        for n in ast["inner"]:
            if n["kind"] == "TypedefDecl":
                for i in n.get("inner", []):
                    od = i.get("ownedTagDecl")
                    if od:
                        owned[od["id"]] = n["name"]

        self.file = ""
        self.rec_types = {}     # record name -> [(field, desugared type)] for records defined in the tree
        self.rec_kind = {}
        anon_count = {}

        def rec(n, parent):
            self._track(n)
            if n.get("kind") == "RecordDecl" and n.get("completeDefinition"):
                name = n.get("name") or owned.get(n["id"])
                if not name:
                    anon_count[parent] = anon_count.get(parent, 0) + 1
                    name = f"{parent}::anon{anon_count[parent]}"
                if "name" not in n and n["id"] in owned:
                    self.td_anon[owned[n["id"]]] = name
                fl = []
                for f in n.get("inner", []):
                    if f.get("kind") == "FieldDecl":
                        self.field[f["id"]] = (name, f.get("name", ""))
                        if "name" in f:
                            fl.append(f["name"])
                self.rec_fields[name] = fl
                if self.file.startswith(str(vlib.REPO)) or self.file.startswith(str(vlib.BUILD)):
                    self.rec_types[name] = [[f.get("name", ""), tstr(f)] for f in n.get("inner", []) if f.get("kind") == "FieldDecl"]
                    self.rec_kind[name] = n.get("tagUsed", "struct")
                for f in n.get("inner", []):
                    rec(f, name)
                return
            for c in n.get("inner", []) or []:
                if isinstance(c, dict):
                    rec(c, parent)
        rec(ast, "")
        for n in ast["inner"]:
            if n["kind"] == "TypedefDecl":
                ts = tstr(n)
                m = re.match(r"^(?:const |volatile )*(?:struct|union) (\w+)$", ts)
                if m:
                    self.td_rec[n["name"]] = m.group(1)
                elif n["name"] in self.td_anon:
                    self.td_rec[n["name"]] = self.td_anon[n["name"]]

    def rec_of(self, ts):
        """record name of a (desugared) type string that IS a record type, else None"""
        ts = re.sub(r"\b(const|volatile|restrict)\b", "", ts).strip()
        m = re.match(r"^(?:struct|union) (\w+)$", ts)
        if m:
            return m.group(1)
        return self.td_rec.get(ts)

    def pointee_rec(self, ts):
        """record name when ts is a pointer (exactly one level) to a record"""
        ts = ts.strip()
        if ts.endswith("*"):
            return self.rec_of(ts[:-1])
        return None

    def base_is_record(self, ts):
        base = re.sub(r"\[[^\]]*\]|\*", " ", ts)
        return self.rec_of(base) is not None or "struct " in base or "union " in base

    # -- top level -------------------------------------------------------------------------------------
    def gkey(self, name, static, func=None):
        sym = f"{func}.{name}" if func else name
        return {"name": name, "static": static, "sym": sym, "stem": self.stem if (static or func) else None}

    def _toplevel(self, ast):
        for n in ast["inner"]:
            if n["kind"] == "FunctionDecl" and n.get("storageClass") == "static":
                self.static_funcs.add(n["name"])
        for n in ast["inner"]:
            if n["kind"] == "VarDecl":
                sc = n.get("storageClass")
                g = self.gkey(n["name"], sc == "static")
                self.globals[n["id"]] = g
                if sc != "extern":
                    self.gdefs.append({"name": n["name"], "static": sc == "static", "type": tstr(n)})
        for n in ast["inner"]:
            self._track(n)
            if n["kind"] == "VarDecl" and n.get("inner"):
                self.cur = None
                self._init_slots(n)
            elif n["kind"] == "FunctionDecl" and any(c.get("kind") == "CompoundStmt" for c in n.get("inner", [])):
                self._function(n)

    def fkey(self, name):
        return f"{self.stem}:{name}" if name in self.static_funcs else name

    def _track(self, n):
        for k in ("loc", "range"):
            v = n.get(k)
            if not v:
                continue
            if k == "range":
                v = v.get("begin", {})
            for w in (v, v.get("expansionLoc", {}), v.get("spellingLoc", {})):
                if "file" in w:
                    self.file = w["file"]
                if "line" in w and "includedFrom" not in w:
                    self.line = w["line"]

    def _init_slots(self, var):
        """function addresses in the initialiser of a global: vtable slots"""
        gname = var["name"]

        def walk(n, slot):
            k = n.get("kind")
            if k == "InitListExpr":
                r = self.rec_of(tstr(n))
                kids = [c for c in n.get("inner", [])]
                if r and r in self.rec_fields and "field" not in n:
                    for c, f in zip(kids, self.rec_fields[r]):
                        walk(c, f"{r}.{f}")
                else:
                    for c in kids:
                        walk(c, slot)
                for c in n.get("array_filler", []) or []:
                    walk(c, slot)
                return
            if k == "DeclRefExpr" and n.get("referencedDecl", {}).get("kind") == "FunctionDecl":
                fk = self.fkey(n["referencedDecl"]["name"])
                self.slots.setdefault(slot or f"var:{gname}", set()).add(fk)
                self.addr_global.add(fk)
                return
            for c in n.get("inner", []) or []:
                walk(c, slot)
        for c in var.get("inner", []):
            walk(c, None)

    # -- functions -------------------------------------------------------------------------------------
    def _function(self, fn):
        name = fn["name"]
        key = self.fkey(name)
        params = [c for c in fn.get("inner", []) if c.get("kind") == "ParmVarDecl"]
        S = {"name": name, "file": self.stem, "static": name in self.static_funcs, "nparams": len(params),
             "params": [p["id"] for p in params],
             "variadic": bool(fn.get("variadic")), "calls": set(), "slotcalls": set(), "indcalls": set(), "addr": set(),
             "w": {}, "g": {}, "recexp": set(), "ncalls_ind": 0, "wt": set(), "flows": [], "cw": set(), "gr": set()}
        self.cur = S
        self.funcs[key] = S
        self.fname = name
        self.callee_use = set()
        self.handled = set()
        for c in fn.get("inner", []):
            if c.get("kind") == "CompoundStmt":
                self.visit(c)

    def items_of(self, out, kind):
        """-> ({field key: {kind: line}}, {global ref: {kind: line}}) restricted to the inventory"""
        w, g = {}, {}
        for it in out:
            if it[0] == "f":
                _, r, f, content = it
                if r and r not in INV:
                    self.written_records.add(r)
                if (r in INV or r in self.rec_types) and f and "::" not in r:
                    w.setdefault(f"{r}.{f}", {}).setdefault(kind, self.line)
                if r and f and content:
                    self.last_content.add(f"{r}.{f}")
            elif it[0] == "rec":
                todo, seen = [it[1]], set()
                while todo:                 # the record and every record embedded in it (fsg_search_s.base …)
                    r = todo.pop()
                    if r in seen or not (r in INV or r in self.rec_types):
                        continue
                    seen.add(r)
                    for f in self.rec_fields.get(r, []):
                        if "::" not in r:
                            w.setdefault(f"{r}.{f}", {}).setdefault("alloc" if kind == "alloc" else "rec", self.line)
                    for f, t in self.rec_types.get(r, []):
                        if "*" not in t and "(" not in t:
                            base = re.sub(r"\[[^\]]*\]", "", t)
                            x = self.rec_of(base)
                            if x:
                                todo.append(x)
            elif it[0] == "g":
                g.setdefault(it[1], {}).setdefault(kind, self.line)
        return w, g

    def note(self, out, kind, dst=None):
        """dst None: unconditional write; else a flow that counts when dst turns out to be written through"""
        self.last_content = set()
        w, g = self.items_of(out, kind)
        S = self.cur
        if dst is None:
            S["cw"].update(self.last_content)
        if not w and not g:
            return
        if dst is None:
            for k, v in w.items():
                for kk, ln in v.items():
                    S["w"].setdefault(k, {}).setdefault(kk, ln)
            for k, v in g.items():
                for kk, ln in v.items():
                    S["g"].setdefault(k, {}).setdefault(kk, ln)
        else:
            S["flows"].append([{"w": w, "g": g}, dst])

    def gref(self, rd):
        g = self.globals.get(rd["id"])
        if g is None:
            return None
        return f"{g['stem'] or ''}|{g['sym']}"

    def lv(self, e, out, top=True):
        """fields / globals that own the storage designated by lvalue (or pointer expression) e;
        returns (id of the local variable / parameter at the root or None, whether a dereference was passed)"""
        first, deref = True, False
        while True:
            k = e.get("kind")
            if first and top:
                r = self.rec_of(tstr(e))
                if r and e.get("valueCategory") == "lvalue":
                    out.append(("rec", r))
                if r and r not in INV:
                    self.written_records.add(r)
            first = False
            if k in ("ParenExpr", "ImplicitCastExpr", "CStyleCastExpr", "ConstantExpr"):
                e = e["inner"][0]
                continue
            if k == "ArraySubscriptExpr":
                a, b = e["inner"]
                e = a if is_ptr(tstr(a)) or not is_ptr(tstr(b)) else b
                if not tstr(self.peel(e)).endswith("]"):
                    deref = True
                continue
            if k == "UnaryOperator":
                op = e.get("opcode")
                if op in ("*", "++", "--", "&", "__extension__"):
                    if op == "*":
                        deref = True
                    e = e["inner"][0]
                    continue
                return None, deref
            if k == "BinaryOperator":
                op = e.get("opcode")
                if op in ("+", "-"):
                    a, b = e["inner"]
                    e = a if is_ptr(tstr(a)) else b
                    continue
                if op == ",":
                    e = e["inner"][1]
                    continue
                if op == "=":
                    e = e["inner"][0]
                    continue
                return None, deref
            if k == "CompoundAssignOperator":
                e = e["inner"][0]
                continue
            if k == "ConditionalOperator":
                r1 = self.lv(e["inner"][1], out, False)
                r2 = self.lv(e["inner"][2], out, False)
                for r in (r1, r2):      # rare: treat the roots as written through (over-approximation)
                    if r[0] is not None:
                        self.cur["wt"].add(r[0])
                return None, True
            if k == "MemberExpr":
                r, f = self.field.get(e.get("referencedMemberDecl"), (None, None))
                out.append(("f", r, f, deref))      # deref: the location lies in what the member points to
                if e.get("isArrow"):
                    deref = True
                    if r in INV:
                        return None, True
                e = e["inner"][0]
                continue
            if k == "DeclRefExpr":
                rd = e.get("referencedDecl", {})
                if rd.get("kind") == "VarDecl":
                    g = self.gref(rd)
                    if g:
                        out.append(("g", g))
                        return None, deref
                    return rd["id"], deref
                if rd.get("kind") == "ParmVarDecl":
                    return rd["id"], deref
                return None, deref
            return None, deref

    def write(self, e, kind="asg"):
        out = []
        root, deref = self.lv(e, out)
        if out and out[0][0] == "f" and out[0][1] not in INV:
            kind = "own" if kind == "asg" else kind
        self.note(out, kind)
        if root is not None and deref:
            self.cur["wt"].add(root)

    def src(self, lvexpr, kind, dst, items=True, value=False):
        """the storage designated by lvexpr (or reachable from the pointer held in it) flows to dst"""
        out = []
        root, deref = self.lv(lvexpr, out, False)
        if items:
            self.note(out, kind, dst)
        if root is not None and (deref or value):
            self.cur["flows"].append([{"v": root}, dst])

    def expose(self, e, dst):
        """e is a pointer-valued expression flowing to dst (variable, callee parameter, or escape)"""
        while True:
            k = e.get("kind")
            if k in ("ParenExpr", "CStyleCastExpr", "ConstantExpr"):
                e = e["inner"][0]
                continue
            if k == "ImplicitCastExpr":
                ck = e.get("castKind")
                sub = e["inner"][0]
                if ck == "ArrayToPointerDecay":
                    self.src(sub, "decay", dst)
                    return
                if ck == "LValueToRValue":
                    ts = tstr(sub)
                    if is_ptr(ts):
                        self.src(sub, "ptr", dst, items=not self.base_is_record(ts), value=True)
                    return
                e = sub
                continue
            if k == "UnaryOperator":
                op = e.get("opcode")
                if op == "&":
                    if e["id"] in self.handled:
                        return
                    self.handled.add(e["id"])
                    self.src(e["inner"][0], "addr", dst)
                    return
                if op in ("++", "--"):
                    ts = tstr(e["inner"][0])
                    if is_ptr(ts):
                        self.src(e["inner"][0], "ptr", dst, items=not self.base_is_record(ts), value=True)
                    return
                return
            if k == "BinaryOperator":
                op = e.get("opcode")
                if op in ("+", "-"):
                    a, b = e["inner"]
                    e = a if is_ptr(tstr(a)) else b
                    continue
                if op in (",", "="):
                    e = e["inner"][1]
                    continue
                return
            if k == "CompoundAssignOperator":
                e = e["inner"][0]
                if is_ptr(tstr(e)):
                    self.src(e, "ptr", dst, items=not self.base_is_record(tstr(e)), value=True)
                return
            if k == "ConditionalOperator":
                self.expose(e["inner"][1], dst)
                self.expose(e["inner"][2], dst)
                return
            return

    @staticmethod
    def peel(e, kinds=("ParenExpr", "ImplicitCastExpr", "CStyleCastExpr", "ConstantExpr")):
        while e.get("kind") in kinds or (e.get("kind") == "UnaryOperator" and e.get("opcode") == "*" and "deref" in kinds):
            e = e["inner"][0]
        return e

    def func_refs(self, e, acc):
        if e.get("kind") == "DeclRefExpr" and e.get("referencedDecl", {}).get("kind") == "FunctionDecl" \
                and e["id"] not in self.callee_use:
            acc.add(self.fkey(e["referencedDecl"]["name"]))
        for c in e.get("inner", []) or []:
            if isinstance(c, dict):
                self.func_refs(c, acc)

    ALLOCS = ("__ckd_calloc__", "__ckd_malloc__", "calloc", "malloc")

    def alloc_of(self, rhs, ts):
        """`T *x = ckd_calloc(...)`: a fresh (zeroed) T — counts as a write of every field of T (kind alloc)"""
        e = self.peel(rhs)
        if e.get("kind") != "CallExpr":
            return
        c = self.peel(e["inner"][0])
        if c.get("kind") == "DeclRefExpr" and c.get("referencedDecl", {}).get("name") in self.ALLOCS:
            r = self.pointee_rec(ts)
            if r:
                self.last_content = set()
                w, g = self.items_of([("rec", r)], "alloc")
                for k, v in w.items():
                    self.cur["w"].setdefault(k, {}).setdefault("alloc", self.line)

    def local_id(self, e):
        e = self.peel(e)
        if e.get("kind") == "DeclRefExpr":
            rd = e.get("referencedDecl", {})
            if rd.get("kind") == "ParmVarDecl" or (rd.get("kind") == "VarDecl" and rd["id"] not in self.globals):
                return rd["id"]
        return None

    def call(self, n):
        S = self.cur
        callee, args = n["inner"][0], n["inner"][1:]
        c = self.peel(callee, ("ParenExpr", "ImplicitCastExpr", "CStyleCastExpr", "ConstantExpr", "deref"))
        cname, slot = None, None
        if c.get("kind") == "DeclRefExpr":
            rd = c.get("referencedDecl", {})
            if rd.get("kind") == "FunctionDecl":
                cname = rd["name"]
                S["calls"].add(self.fkey(cname))
                self.callee_use.add(c["id"])
            else:
                g = self.gref(rd) if rd.get("kind") == "VarDecl" else None
                if g:
                    slot = f"var:{rd['name']}"
                    S["slotcalls"].add((slot, len(args)))
                else:
                    S["indcalls"].add(len(args))
                S["ncalls_ind"] += 1
        elif c.get("kind") == "MemberExpr":
            r, f = self.field.get(c.get("referencedMemberDecl"), (None, None))
            slot = f"{r}.{f}"
            S["slotcalls"].add((slot, len(args)))
            S["ncalls_ind"] += 1
        else:
            root = self.peel(c, ("ParenExpr", "ImplicitCastExpr", "CStyleCastExpr", "ArraySubscriptExpr", "deref"))
            rd = root.get("referencedDecl", {}) if root.get("kind") == "DeclRefExpr" else {}
            if rd.get("kind") == "VarDecl" and self.gref(rd):
                slot = f"var:{rd['name']}"
                S["slotcalls"].add((slot, len(args)))
            else:
                S["indcalls"].add(len(args))
            S["ncalls_ind"] += 1
        if cname == "hmm_init" and len(args) >= 3:
            a2 = self.peel(args[2])
            self.hmm_init_mpx.append(str(a2.get("value")) if a2.get("kind") == "IntegerLiteral" else a2.get("kind", "?"))
        ro_from = PRINTF_LIKE.get(cname, None) if cname else None
        for i, a in enumerate(args):
            ts = tstr(a)
            pa = self.peel(a)
            if ro_from is not None and i >= ro_from or not is_ptr(ts) or readonly_ptr(ts):
                if pa.get("kind") == "UnaryOperator" and pa.get("opcode") == "&":
                    self.handled.add(pa["id"])
                continue
            if cname:
                dst = ["arg", self.fkey(cname), i]
            elif slot:
                dst = ["slotarg", slot, len(args), i]
            else:
                dst = ["esc"]
            self.expose(a, dst)
            if cname and re.match(r"^(void|char|unsigned char) \*$", ts) is not None:
                r = self.pointee_rec(tstr(pa))
                if pa.get("kind") == "UnaryOperator" and pa.get("opcode") == "&":
                    r = self.rec_of(tstr(pa["inner"][0]))
                if r in INV or r in self.rec_types:
                    S["recexp"].add((cname, r))
                if r and r not in INV:
                    self.exposed_records.add((cname, r))

    def visit(self, n):
        self._track(n)
        k = n.get("kind")
        S = self.cur
        if k == "UnaryExprOrTypeTraitExpr":
            return
        if k == "CallExpr":
            self.call(n)
        elif k == "BinaryOperator" and n.get("opcode") == "=":
            lhs, rhs = n["inner"]
            self.write(lhs)
            lt = tstr(lhs)
            self.alloc_of(rhs, lt)
            if is_ptr(lt) and not readonly_ptr(lt):
                lid = self.local_id(lhs)
                pm = self.peel(lhs)
                if lid is not None:
                    dst = ["var", lid]
                elif pm.get("kind") == "MemberExpr" and self.field.get(pm.get("referencedMemberDecl"), (None, None))[0]:
                    # the pointer is stored in a member: it is written through iff the member's content is
                    dst = ["field", "%s.%s" % self.field[pm["referencedMemberDecl"]]]
                else:
                    dst = ["esc"]
                self.expose(rhs, dst)
            pl = self.peel(lhs)
            if "(" in lt or pl.get("kind") == "MemberExpr":
                acc = set()
                self.func_refs(rhs, acc)
                if acc:
                    if pl.get("kind") == "MemberExpr":
                        r, f = self.field.get(pl.get("referencedMemberDecl"), (None, None))
                        self.slots.setdefault(f"{r}.{f}", set()).update(acc)
                    elif pl.get("kind") == "DeclRefExpr" and pl.get("referencedDecl", {}).get("kind") == "VarDecl" \
                            and self.gref(pl["referencedDecl"]):
                        self.slots.setdefault(f"var:{pl['referencedDecl']['name']}", set()).update(acc)
        elif k == "CompoundAssignOperator":
            self.write(n["inner"][0])
        elif k == "UnaryOperator":
            op = n.get("opcode")
            if op in ("++", "--"):
                self.write(n["inner"][0])
            elif op == "&" and n["id"] not in self.handled:
                self.handled.add(n["id"])
                self.src(n["inner"][0], "addr", ["esc"])
        elif k == "VarDecl":
            static = n.get("storageClass") == "static"
            if static:
                self.globals[n["id"]] = self.gkey(n["name"], True, self.fname)
                self.gdefs.append({"name": n["name"], "static": True, "func": self.fname, "type": tstr(n)})
            ts = tstr(n)
            for c in n.get("inner", []):
                if "kind" in c and c["kind"].endswith("Expr"):
                    self.alloc_of(c, ts)
            if n.get("inner") and not readonly_ptr(ts) or (n.get("inner") and self.base_is_record(ts)):
                simple = "*" in ts and not ts.endswith("]") and not static
                for c in n["inner"]:
                    if "kind" in c and c["kind"].endswith(("Expr", "Operator")):
                        if simple:
                            self.expose(c, ["var", n["id"]])
                        else:
                            self._expose_init(c)
        elif k == "ReturnStmt":
            for c in n.get("inner", []):
                ts = tstr(c)
                if is_ptr(ts) and not readonly_ptr(ts):
                    self.expose(c, ["esc"])
        elif k == "DeclRefExpr":
            rd = n.get("referencedDecl", {})
            if rd.get("kind") == "FunctionDecl" and n["id"] not in self.callee_use:
                S["addr"].add(self.fkey(rd["name"]))
            elif rd.get("kind") == "VarDecl":
                g = self.gref(rd)
                if g:
                    S["gr"].add(g)
        for c in n.get("inner", []) or []:
            if isinstance(c, dict) and "kind" in c:
                self.visit(c)

    def _expose_init(self, c):
        """initialiser of an aggregate / static local: every pointer-valued leaf escapes"""
        if c.get("kind") == "InitListExpr":
            for x in c.get("inner", []):
                self._expose_init(x)
            return
        ts = tstr(c)
        if is_ptr(ts) and not readonly_ptr(ts):
            self.expose(c, ["esc"])

    def summary(self):
        fs = {}
        for k, S in self.funcs.items():
            fs[k] = {"name": S["name"], "file": S["file"], "static": S["static"], "nparams": S["nparams"],
                     "variadic": S["variadic"], "calls": sorted(S["calls"]),
                     "slotcalls": sorted(list(x) for x in S["slotcalls"]), "indcalls": sorted(S["indcalls"]),
                     "addr": sorted(S["addr"]), "w": S["w"], "g": S["g"], "recexp": sorted(list(x) for x in S["recexp"]),
                     "ncalls_ind": S["ncalls_ind"], "params": S["params"], "wt": sorted(S["wt"]), "flows": S["flows"], "cw": sorted(S["cw"]), "gr": sorted(S["gr"])}
        return {"stem": self.stem, "funcs": fs, "slots": {k: sorted(v) for k, v in self.slots.items()},
                "addr_global": sorted(self.addr_global), "gdefs": self.gdefs, "td_rec": self.td_rec,
                "written_records": sorted(self.written_records), "hmm_init_mpx": self.hmm_init_mpx,
                "exposed_records": sorted(list(x) for x in self.exposed_records),
                "records": {r: self.rec_fields[r] for r in self.rec_fields if r in INV or r in self.rec_types},
                "rec_types": self.rec_types, "rec_kind": self.rec_kind}


def stem_of(s):
    return s.replace("/", "_")[:-2]


def analyze_file(arg):
    src, stem, cache = arg
    r = subprocess.run(clang_cmd(src), stdout=subprocess.PIPE, stderr=subprocess.PIPE)
    if r.returncode != 0:
        return stem, {"error": r.stderr.decode(errors="replace")[-1500:]}
    sys.setrecursionlimit(20000)
    ast = json.loads(r.stdout)
    summ = TU(ast, stem).summary()
    tmp = Path(str(cache) + f".tmp{os.getpid()}")
    tmp.write_text(json.dumps(summ))
    os.replace(tmp, cache)
    return stem, summ


def header_hash():
    h = hashlib.sha256()
    h.update(VERSION.encode())
    h.update(Path(__file__).read_bytes())
    for sub in ("include", "src"):
        for p in sorted((vlib.REPO / sub).rglob("*.h")):
            h.update(str(p.relative_to(vlib.REPO)).encode())
            h.update(p.read_bytes())
    h.update((vlib.HARNESS / "config" / "config.h").read_bytes())
    return h.hexdigest()


def summaries():
    cdir = vlib.BUILD / "ws-cache"
    cdir.mkdir(parents=True, exist_ok=True)
    hh = header_hash()
    res, todo = {}, []
    for s in vlib.repo_sources():
        src = vlib.REPO / "src" / s
        key = hashlib.sha256(hh.encode() + s.encode() + src.read_bytes()).hexdigest()[:24]
        cache = cdir / f"{stem_of(s)}-{key}.json"
        if cache.exists():
            try:
                res[stem_of(s)] = json.loads(cache.read_text())
                os.utime(cache)
                continue
            except Exception:
                pass
        todo.append((src, stem_of(s), cache))
    if todo:
        with ProcessPoolExecutor(max_workers=min(8, len(todo))) as ex:
            for stem, summ in ex.map(analyze_file, todo):
                if "error" in summ:
                    raise vlib.BuildError(f"clang cannot parse {stem}.c: {summ['error']}")
                res[stem] = summ
        # prune old cache entries (keep the newest 600 files)
        files = sorted(cdir.glob("*.json"), key=lambda p: p.stat().st_mtime, reverse=True)
        for p in files[600:]:
            try:
                p.unlink()
            except OSError:
                pass
    return res, len(todo)


# ----------------------------------------------------------------------------------------------------------
# whole program

class Program:
    def __init__(self, summ):
        self.funcs, self.slots, self.addr = {}, {}, set()
        self.gdef_extern, self.records, self.td_rec, self.gtype, self.rec_types = {}, {}, {}, {}, {}
        self.written_records, self.exposed_records = set(), set()
        self.hmm_init_mpx = []
        for stem, s in sorted(summ.items()):
            for k, f in s["funcs"].items():
                self.funcs[k] = f
            for k, v in s["slots"].items():
                self.slots.setdefault(k, set()).update(v)
            self.addr.update(s["addr_global"])
            for g in s["gdefs"]:
                if not g["static"]:
                    self.gdef_extern.setdefault(g["name"], stem)
                    self.gtype["|" + g["name"]] = g["type"]
                else:
                    self.gtype[f"{stem}|{g['func'] + '.' if g.get('func') else ''}{g['name']}"] = g["type"]
            for r, fl in s["records"].items():
                self.records.setdefault(r, fl)
            self.td_rec.update(s["td_rec"])
            for r, fl in s["rec_types"].items():
                self.rec_types.setdefault(r, fl)
            self.written_records.update(s["written_records"])
            self.hmm_init_mpx += s["hmm_init_mpx"]
            self.exposed_records.update(tuple(x) for x in s["exposed_records"])
        for f in self.funcs.values():
            self.addr.update(f["addr"])
        for v in self.slots.values():
            self.addr.update(v)
        self.by_nparams = {}
        for k in self.addr:
            f = self.funcs.get(k)
            if f:
                self.by_nparams.setdefault(f["nparams"], set()).add(k)
        self.n_unresolved_slot = 0
        self.edges = {k: self._edges(k) for k in self.funcs}
        self._resolve_flows()

    def _edges(self, k):
        f = self.funcs[k]
        out = set(c for c in f["calls"] if c in self.funcs)
        out.update(a for a in f["addr"] if a in self.funcs)
        refine = {b: c for a, b, c, _ in SLOT_REFINE if a == f["name"]}
        for slot, n in f["slotcalls"]:
            tg = self.slot_targets(slot, n)
            if slot in refine:
                tg = [t for t in tg if self.funcs[t]["name"] in refine[slot]]
            if not [t for t in self.slots.get(slot, ()) if t in self.funcs]:
                self.n_unresolved_slot += 1
            out.update(tg)
        for n in f["indcalls"]:
            out.update(self.by_nparams.get(n, ()))
        return out

    def slot_targets(self, slot, n):
        return [t for t in self.slots.get(slot, ()) if t in self.funcs] or sorted(self.by_nparams.get(n, ()))

    def _resolve_flows(self):
        """which local pointers / parameters are written through (directly, or by flowing into one that is)"""
        T, CW = set(), set()
        for k, f in self.funcs.items():
            for v in f["wt"]:
                T.add((k, v))
            CW.update(f["cw"])

        def tainted(k, dst):
            t = dst[0]
            if t == "esc":
                return True
            if t == "var":
                return (k, dst[1]) in T
            if t == "field":
                return dst[1] in CW
            if t == "arg":
                cf = self.funcs.get(dst[1])
                if cf is None:
                    return True          # no body in the library (libc): non-const pointer parameter = written
                i = dst[2]
                return i >= len(cf["params"]) or (dst[1], cf["params"][i]) in T
            if t == "slotarg":
                tg = self.slot_targets(dst[1], dst[2])
                i = dst[3]
                return not tg or any(i >= len(self.funcs[x]["params"]) or (x, self.funcs[x]["params"][i]) in T for x in tg)
            return True
        changed = True
        while changed:
            changed = False
            for k, f in self.funcs.items():
                for src, dst in f["flows"]:
                    if "v" in src:
                        if (k, src["v"]) not in T and tainted(k, dst):
                            T.add((k, src["v"]))
                            changed = True
                    elif not set(src["w"]) <= CW and tainted(k, dst):
                        CW.update(src["w"])       # the member's content is reachable from something written through
                        changed = True
        self.n_flows = self.n_flows_live = 0
        for k, f in self.funcs.items():
            for src, dst in f["flows"]:
                if "v" in src:
                    continue
                self.n_flows += 1
                if tainted(k, dst):
                    self.n_flows_live += 1
                    for fk, kinds in src["w"].items():
                        for kk, ln in kinds.items():
                            f["w"].setdefault(fk, {}).setdefault(kk, ln)
                    for gk, kinds in src["g"].items():
                        for kk, ln in kinds.items():
                            f["g"].setdefault(gk, {}).setdefault(kk, ln)

    def recs_in(self, ts):
        if "(" in ts:
            return []
        base = re.sub(r"\[[^\]]*\]|\*|\b(const|volatile|restrict)\b", " ", ts).strip()
        m = re.match(r"^(?:struct|union) (\w+)$", base)
        if m:
            return [m.group(1)]
        return [self.td_rec[base]] if base in self.td_rec else []

    def reachable(self, root="decoder_s"):
        """records of the tree reachable from `root` through fields of pointer / array / struct type, through
        'subclassing' (a record whose FIRST member embeds a reachable record: search_module_s -> fsg_search_s …) and
        through the hand-listed contents of void* containers (VOID_EDGES); -> (ordered list, opaque void* fields)"""
        sub = {}
        for r, fl in self.rec_types.items():
            if fl and "*" not in fl[0][1] and "[" not in fl[0][1]:
                for b in self.recs_in(fl[0][1]):
                    sub.setdefault(b, []).append(r)
        reach, seen, opaque = [root], {root}, []
        i = 0
        while i < len(reach):
            r = reach[i]
            i += 1
            nxt = []
            for f, t in self.rec_types.get(r, []):
                if re.search(r"\bvoid\b", t) and "*" in t and "(" not in t:
                    opaque.append(f"{r}.{f}")
                    nxt += VOID_EDGES.get(f"{r}.{f}", [])
                nxt += self.recs_in(t)
            nxt += sorted(sub.get(r, []))
            nxt += sorted(x for x in self.rec_types if x.startswith(r + "::"))
            for x in nxt:
                if x not in seen and x in self.rec_types:
                    seen.add(x)
                    reach.append(x)
        return reach, opaque

    def grec(self, ts):
        ts = re.sub(r"\[[^\]]*\]", "", ts)
        ts = re.sub(r"\b(const|volatile)\b", "", ts).strip()
        m = re.match(r"^(?:struct|union) (\w+)$", ts)
        return m.group(1) if m else self.td_rec.get(ts)

    def immutable_global(self, ref, kinds):
        """a global of record type R that is only ever exposed by address, where no field of R is written anywhere in
        the library and no R is handed to a body-less function as void*: the vtables (`fsg_funcs`, `fsg_segfuncs`, …)"""
        if any(k in ("asg", "own", "rec") for k in kinds):
            return False
        r = self.grec(self.gtype.get(ref, ""))
        return bool(r) and r not in INV and r not in self.written_records and \
            not any(x[1] == r and x[0] not in self.funcs for x in self.exposed_records)

    def gname(self, ref):
        stem, sym = ref.split("|")
        if not stem:
            stem = self.gdef_extern.get(sym, "?")
        return f"{ident(stem)}__{ident(sym)}"

    def own(self, k, mask):
        """own writes of function k: {field key: kinds}, {global key: kinds}"""
        f = self.funcs[k]
        w = {fk: v for fk, v in f["w"].items() if fk.split(".")[0] not in mask and
             ("*" not in mask or re.match(r"^ref(count|cnt)$", fk.split(".")[1]))}
        for callee, r in f["recexp"]:
            if callee not in self.funcs and r not in mask and "*" not in mask:
                for fl in self.records.get(r, []):
                    w.setdefault(f"{r}.{fl}", {"rec": 0})
        return w, {gk: v for gk, v in f["g"].items() if not self.immutable_global(gk, v)}

    def closure(self, entries):
        """-> {field key: (chain, kinds)}, {global key: (chain, kinds)}, set of reached functions"""
        cuts = {}
        for fn, structs, _ in CUTS:
            cuts.setdefault(fn, set()).update(structs)
        W, G, seen, reached = {}, {}, {}, set()
        self.last_refs = {}
        stack = []
        for e in entries:
            if e in self.funcs:
                stack.append((e, frozenset(), None))
        while stack:
            k, mask, parent = stack.pop()
            name = self.funcs[k]["name"]
            if name in cuts:
                mask = frozenset(mask | cuts[name])
            if (k, mask) in seen:
                continue
            seen[(k, mask)] = parent
            reached.add(k)
            w, g = self.own(k, mask)
            for gk in self.funcs[k]["gr"]:
                self.last_refs.setdefault(self.gname(gk), self.funcs[k]["name"])
            if w or g:
                chain = []
                cur = (k, mask)
                while cur is not None and len(chain) < 40:
                    chain.append(self.funcs[cur[0]]["name"])
                    cur = seen[cur]
                chain.reverse()
                for fk, kinds in w.items():
                    W.setdefault(fk, (chain, kinds))
                for gk, kinds in g.items():
                    G.setdefault(self.gname(gk), (chain, kinds))
            for t in sorted(self.edges[k]):
                if (t, mask) not in seen:
                    stack.append((t, mask, (k, mask)))
        return W, G, reached


def selftest(src):
    """analyse one stand-alone C file; -> {entry function: (sorted field keys, sorted global syms)} for every `entry_*`"""
    r = subprocess.run(clang_cmd(src), stdout=subprocess.PIPE, stderr=subprocess.PIPE)
    if r.returncode != 0:
        raise vlib.BuildError("self-test input does not parse: " + r.stderr.decode(errors="replace")[-800:])
    sys.setrecursionlimit(20000)
    summ = json.loads(json.dumps(TU(json.loads(r.stdout), "selftest").summary()))
    P = Program({"selftest": summ})
    res = {}
    for k, f in sorted(P.funcs.items()):
        if f["name"].startswith("entry_"):
            W, G, _ = P.closure([k])
            res[f["name"]] = (sorted(W), sorted(g.split("__", 1)[1] for g in G))
    return res


def lean_list(name, ty, items, doc=None):
    L = []
    if doc:
        L.append(f"/-- {doc} -/")
    if len(items) <= 100:
        L.append(f"def {name} : List {ty} := [" + ", ".join(items) + "]")
        return L
    parts = []
    for i in range(0, len(items), 100):
        pn = f"{name}_{i // 100}"
        parts.append(pn)
        L.append(f"def {pn} : List {ty} := [" + ", ".join(items[i:i + 100]) + "]")
    L.append(f"def {name} : List {ty} := " + " ++ ".join(parts))
    return L


def lstr(s):
    return '"' + s.replace("\\", "\\\\").replace('"', '\\"') + '"'


def analyse():
    summ, nfresh = summaries()
    P = Program(summ)
    known_globals = {f"{ident(o)}__{ident(g)}" for o, g in gen_fields.writable_globals()}
    order = {f"{s}.{f}": i for i, (s, f) in enumerate((s, f) for s in STRUCTS for f in P.records.get(s, []))}
    reach, opaque = P.reachable()
    named = [r for r in reach if "::" not in r]
    tier2 = [r for r in named if r not in INV]
    order2 = {f"{s}.{f}": i for i, (s, f) in enumerate((s, f) for s in tier2 for f in P.records.get(s, []))}
    embedded = {}
    for r in STRUCTS:
        for f, t in P.rec_types.get(r, []):
            if "*" not in t and "[" not in t and "(" not in t:
                for x in P.recs_in(t):
                    if x in INV:
                        embedded[f"{r}.{f}"] = x
    inv = {"reach": named, "tier2": tier2, "opaque": sorted(set(opaque)), "embedded": embedded,
           "tier1_unreachable": [r for r in STRUCTS if r not in named],
           "nfields": {r: len(P.records.get(r, [])) for r in named},
           "rfields": [(s, f) for s in tier2 for f in P.records.get(s, [])]}
    phases, info = [], {}
    for ph, entries in PHASES:
        W, G, reached = P.closure(entries)
        refs = dict(P.last_refs)
        fields = sorted((k for k in W if k in order), key=lambda k: order[k])
        rfields = sorted((k for k in W if k in order2), key=lambda k: order2[k])
        globs = sorted(g for g in G if g in known_globals)
        unknown = sorted(g for g in G if g not in known_globals)
        grefs = sorted(g for g in refs if g in known_globals)
        phases.append((ph, entries, fields, globs, unknown, rfields, grefs))
        info[ph] = {"entries": entries, "missing_entries": [e for e in entries if e not in P.funcs],
                    "n_functions": len(reached), "n_fields": len(fields), "n_globals": len(globs), "n_rfields": len(rfields),
                    "fields": {k.replace(".", "__"): {"chain": W[k][0], "kinds": W[k][1]} for k in fields},
                    "rfields": {k.replace(".", "__"): {"chain": W[k][0], "kinds": W[k][1]} for k in rfields},
                    "globals": {g: {"chain": G[g][0], "kinds": G[g][1]} for g in sorted(G)},
                    "unknown_globals": unknown, "global_refs": {g: refs[g] for g in grefs}}
    assigned = {e for _, es in PHASES for e in es} | set(NOT_PHASED)
    inv["unassigned_api"] = sorted(f["name"] for f in P.funcs.values()
                                   if f["file"] == "decoder" and not f["static"] and API_NAME.match(f["name"])
                                   and f["name"] not in assigned)
    npairs = sum(len([k for k in f["w"] if k in order or k in order2]) for f in P.funcs.values())
    ngpairs = sum(len(f["g"]) for f in P.funcs.values())
    stats = {"files": len(summ), "files_reanalysed": nfresh, "functions": len(P.funcs), "function_field_pairs": npairs,
             "function_global_pairs": ngpairs, "indirect_call_sites": sum(f["ncalls_ind"] for f in P.funcs.values()),
             "slots": {k: sorted(v) for k, v in sorted(P.slots.items())},
             "address_taken_functions": len(P.addr), "slot_calls_without_known_target": P.n_unresolved_slot,
             "pointer_flows": P.n_flows, "pointer_flows_reaching_a_write": P.n_flows_live,
             "reachable_structs": len(named), "tier2_structs": len(tier2), "tier2_fields": len(order2),
             "opaque_void_members": inv["opaque"], "unassigned_api": inv["unassigned_api"], "hmm_init_mpx_arguments": sorted(P.hmm_init_mpx),
             "cuts": [[a, b, c] for a, b, c in CUTS], "slot_refinements": [[a, b, c, d] for a, b, c, d in SLOT_REFINE]}
    return phases, info, stats, inv


def render_reach(inv):
    named, tier2 = inv["reach"], inv["tier2"]
    L = ["-- GENERATED by tools/gen_writesets.py: every struct of the tree reachable from decoder_s through pointer / array /",
         "-- embedded-struct members (transitively; plus 'subclasses' embedding a reachable struct as first member and the",
         "-- hand-listed contents of void* containers) — do not edit",
         "namespace SSVerif.Generated.Reach", "",
         "/-- every named struct reachable from `decoder_s` -/",
         "inductive RStruct"] + [f"  | {ident(r)}" for r in named] + ["  deriving DecidableEq, Repr", ""]
    L += lean_list("allRStructs", "RStruct", ["." + ident(r) for r in named])
    L += ["def RStruct.cname : RStruct → String"] + [f"  | .{ident(r)} => {lstr(r)}" for r in named]
    L += ["/-- number of named members of the struct in the current headers -/", "def RStruct.nfields : RStruct → Nat"] + \
         [f"  | .{ident(r)} => {inv['nfields'][r]}" for r in named]
    L += lean_list("tier1Structs", "RStruct", ["." + ident(r) for r in named if r in INV],
                   "structs whose fields are inventoried one by one in Generated/Fields.lean (snapshotted by the harness)")
    L += ["/-- structs of the field inventory (tools/gen_fields.py STRUCTS) that are NOT reachable from decoder_s -/",
          "def tier1Unreachable : List String := [" + ", ".join(lstr(r) for r in inv["tier1_unreachable"]) + "]",
          "/-- `void *` members met on the way: reachability stops there (except for the hand-listed contents) -/",
          "def opaqueEdges : List String := [" + ", ".join(lstr(r) for r in inv["opaque"]) + "]", "",
          "/-- every field of the reachable structs outside the tier-1 inventory, `<struct>__<field>` -/",
          "inductive RField"] + [f"  | {ident(s)}__{ident(f)}" for s, f in inv["rfields"]] + ["  deriving DecidableEq, Repr", ""]
    L += lean_list("allRFields", "RField", [f".{ident(s)}__{ident(f)}" for s, f in inv["rfields"]])
    L += ["def RField.struct : RField → RStruct"] + [f"  | .{ident(s)}__{ident(f)} => .{ident(s)}" for s, f in inv["rfields"]]
    L += ["def RField.cname : RField → String"] + [f"  | .{ident(s)}__{ident(f)} => {lstr(s + '.' + f)}" for s, f in inv["rfields"]]
    L += ["", "end SSVerif.Generated.Reach", ""]
    return "\n".join(L)


def render(phases, info, stats):
    L = ["-- GENERATED by tools/gen_writesets.py from the clang AST of every src/*.c of the current tree — do not edit",
         "import SSVerif.Generated.Fields",
         "import SSVerif.Generated.Reach",
         "namespace SSVerif.Generated.WriteSets",
         "open SSVerif.Generated SSVerif.Generated.Reach", "",
         "/-- API phases whose transitive may-write sets are listed below (entry points: see `entries`) -/",
         "inductive ApiPhase", "  | " + " | ".join(ph for ph, *_ in phases), "  deriving DecidableEq, Repr", "",
         "def allApiPhases : List ApiPhase := [" + ", ".join("." + ph for ph, *_ in phases) + "]", ""]
    for ph, entries, fields, globs, unknown, rfields, grefs in phases:
        L += lean_list(f"mayWrite_{ph}", "Field", ["." + k.replace(".", "__") for k in fields],
                       f"fields that code reachable from {', '.join(entries)} may write ({len(fields)})")
        L += lean_list(f"mayWriteGlobals_{ph}", "Global", ["." + g for g in globs])
        L += lean_list(f"mayWriteR_{ph}", "RField", ["." + k.replace(".", "__") for k in rfields])
        L += lean_list(f"mayRefGlobals_{ph}", "Global", ["." + g for g in grefs])
    L += ["", "def mayWrite : ApiPhase → List Field"] + [f"  | .{ph} => mayWrite_{ph}" for ph, *_ in phases]
    L += ["def mayWriteGlobals : ApiPhase → List Global"] + [f"  | .{ph} => mayWriteGlobals_{ph}" for ph, *_ in phases]
    L += ["/-- writable globals that code reachable from the phase mentions at all (read, written or address taken) -/",
          "def mayRefGlobals : ApiPhase → List Global"] + [f"  | .{ph} => mayRefGlobals_{ph}" for ph, *_ in phases]
    L += ["def mayWriteR : ApiPhase → List RField"] + [f"  | .{ph} => mayWriteR_{ph}" for ph, *_ in phases]
    L += ["def entries : ApiPhase → List String"] + \
         [f"  | .{ph} => [" + ", ".join(lstr(e) for e in entries) + "]" for ph, entries, *_ in phases]
    L += ["/-- entry points named by the generator that the current tree does not define -/",
          "def missingEntries : List String := [" +
          ", ".join(lstr(e) for ph, *_ in phases for e in info[ph]["missing_entries"]) + "]",
          "/-- public functions `decoder_*` / `seg_iter_*` / `hyp_iter_*` defined in decoder.c that the generator assigns to no phase -/",
          "def unassignedApiFunctions : List String := [" + ", ".join(lstr(e) for e in stats["unassigned_api"]) + "]",
          "/-- globals written according to the AST that `nm` does not list as writable data (phase, name) -/",
          "def unknownWrittenGlobals : List (String × String) := [" +
          ", ".join(f"({lstr(ph)}, {lstr(g)})" for ph, _, _, _, unknown, *_ in phases for g in unknown) + "]",
          "/-- constructor cuts applied by the analysis: (function, structs whose fields are not followed below it, reason) -/",
          "def cuts : List (String × List String × String) := [" +
          ", ".join(f"({lstr(a)}, [" + ", ".join(lstr(x) for x in b) + f"], {lstr(c)})" for a, b, c in CUTS) + "]",
          "/-- call-site refinements of vtable calls: (calling function, member, targets kept, reason) -/",
          "def slotRefinements : List (String × String × List String × String) := [" +
          ", ".join(f"({lstr(a)}, {lstr(b)}, [" + ", ".join(lstr(x) for x in c) + f"], {lstr(d)})" for a, b, c, d in SLOT_REFINE) + "]",
          "/-- third argument (`mpx`) of every call of hmm_init in the library, as written (literal value or AST kind) -/",
          "def hmmInitMpxArgs : List String := [" + ", ".join(lstr(x) for x in stats["hmm_init_mpx_arguments"]) + "]",
          "", "end SSVerif.Generated.WriteSets", ""]
    return "\n".join(L)


def side_path():
    return vlib.BUILD / "gen" / "c08_writesets.json"


def gen_writesets():
    import gen_consts
    phases, info, stats, inv = analyse()
    side_path().parent.mkdir(parents=True, exist_ok=True)
    gen_consts.write_if_changed(side_path(), json.dumps({"phases": info, "stats": stats,
                                                         "reach": {k: v for k, v in inv.items() if k != "rfields"}}, indent=1))
    a = gen_consts.write_if_changed(gen_consts.GEN / "Reach.lean", render_reach(inv))
    b = gen_consts.write_if_changed(gen_consts.GEN / "WriteSets.lean", render(phases, info, stats))
    return a or b


if __name__ == "__main__":
    import time
    t0 = time.time()
    if len(sys.argv) > 1 and sys.argv[1] == "show":
        phases, info, stats, inv = analyse()
        for ph in sys.argv[2:] or [p for p, *_ in phases]:
            print(f"== {ph}: {info[ph]['n_functions']} functions, {info[ph]['n_fields']} fields, globals {sorted(info[ph]['globals'])}")
            for k, v in list(info[ph]["fields"].items()) + list(info[ph]["rfields"].items()):
                print(f"   {k:40s} {','.join(f'{a}@{b}' for a, b in v['kinds'].items()):24s} {' > '.join(v['chain'][-4:])}")
        print({k: v for k, v in stats.items() if k != "slots"})
    else:
        print(gen_writesets())
    print(f"{time.time() - t0:.1f}s", file=sys.stderr)
