"""C10 -> C16 bridge (audit item B7, second half): dictionary texts.

Used by tools/props/c10.py.  For every `dict` case the harness (real `dict_init_s3file` under
ASan/UBSan) dumps the dictionary it built (words in id order with phones, base id, alt pointer;
`dict_wordid` of every stored spelling; start/finish/silence ids; counts of the refusal messages) and
the driver prints the same for `DictLoad.loadDict` (C10's tokeniser model feeding C16's
`dict_add_word` model — the function the theorems `C10_dict_*` / `C16_wf_files_and_additions` are
about).  `compare` diffs them exactly and evaluates C16's invariant `WF` (an independent Python
reading of `Proofs/Dict.lean: WF`) on what the *implementation* returned.

`bridge_cases` is an extra stream of dictionary texts (own random stream, so that the main C10
stream of a seed is unchanged) aimed at the alternate-pronunciation machinery and at the tokeniser's
corners, with and without `dictcase`.
"""
import re

import vlib


def first(lines, key):
    for l in lines:
        if l == key or l.startswith(key + " "):
            return l[len(key):].strip()
    return None


def word2basestr(w):
    """dict_word2basestr (src/dict.c:417-436) on a byte string"""
    n = len(w)
    if n == 0 or w[n - 1] != 0x29:
        return None
    i = n - 2
    while i > 0 and w[i] != 0x28:
        i -= 1
    return w[:i] if i > 0 else None


def upper(b):
    return bytes((c - 32) if 97 <= c <= 122 else c for c in b)


def parse_entries(s):
    out = []
    for e in (s or "").split():
        w, ph, bw, alt = e.split(":")
        out.append((bytes.fromhex(w) if w != "-" else b"", [int(x) for x in ph.split(",")] if ph else [], int(bw), int(alt)))
    return out


def wf_oracle(ents, wids, special, hdr, n_ci, nocase):
    """C16's invariant on the implementation's dictionary; returns the list of broken clauses"""
    bad = []
    n = len(ents)
    norm = upper if nocase else (lambda x: x)
    # ht_complete / ht_sound: dict_wordid(word[i]) = i, spellings pairwise different modulo the case mode
    if wids is not None and wids != list(range(n)):
        k = next(i for i in range(max(n, len(wids))) if i >= len(wids) or i >= n or wids[i] != i)
        bad.append(f"ht_complete: dict_wordid of stored word {k} is {wids[k] if k < len(wids) else None}")
    index = {}
    for i, (w, _, _, _) in enumerate(ents):
        if norm(w) in index:
            bad.append(f"ht_sound: words {index[norm(w)]} and {i} carry the same spelling")
        else:
            index[norm(w)] = i
        if not w:
            bad.append(f"word_ne: word {i} is empty")
    base = [word2basestr(w) is None for (w, _, _, _) in ents]
    for i, (w, ph, bw, alt) in enumerate(ents):
        b = word2basestr(w)
        if not ph:
            bad.append(f"word {i} has an empty pronunciation")
        if any(not (0 <= x < n_ci) for x in ph):
            bad.append(f"word {i}: phone id outside [0,{n_ci})")
        if b is None:
            if bw != i:
                bad.append(f"base_self: base word {i} has basewid {bw}")
        else:
            if index.get(norm(b)) != bw or not (0 <= bw < i):
                bad.append(f"base_alt: alternate {i} ({w!r}) has basewid {bw}, its base spelling is registered as {index.get(norm(b))}")
        if not (-1 <= alt < n):
            bad.append(f"word {i}: alt id {alt} outside [-1,{n})")
    if bad:
        return bad
    # chains: from every base word the alt pointers visit, without repetition, exactly the alternates whose
    # basewid is the base word or on the chain; every alternate is on exactly one chain
    owner = {}
    for r in range(n):
        if not base[r]:
            continue
        x, seen = ents[r][3], []
        while x != -1 and len(seen) <= n:
            if x in seen:
                bad.append(f"chains.nodup: alt chain of {r} repeats {x}")
                break
            seen.append(x)
            x = ents[x][3]
        if len(seen) > n:
            bad.append(f"chains: alt chain of {r} does not terminate")
        for j in seen:
            if base[j]:
                bad.append(f"chains.mem: base word {j} is on the alt chain of {r}")
            if j in owner:
                bad.append(f"chains.disj: word {j} on the chains of {owner[j]} and {r}")
            owner[j] = r
            if ents[j][2] != r and ents[j][2] not in seen:
                bad.append(f"chains.mem: word {j} on the chain of {r} has basewid {ents[j][2]}")
    for j in range(n):
        if not base[j] and j not in owner:
            bad.append(f"chains.cover: alternate {j} is on no alt chain (its base word cannot reach it)")
    # special words and filler range (C10_dict_special_words)
    if special is not None and hdr is not None:
        st, fi, si = special
        nw, fs, fe = hdr
        want = (index.get(norm(b"<s>"), -1), index.get(norm(b"</s>"), -1), index.get(norm(b"<sil>"), -1))
        if (st, fi, si) != want:
            bad.append(f"special ids {special} but the spellings are registered as {want}")
        if fe != nw - 1 or fs > fe:
            bad.append(f"filler range [{fs},{fe}] with {nw} words")
        if 0 <= si < n:
            b = ents[si][2]
            if b in (st, fi) or not (fs <= b <= fe):
                bad.append("<sil> is not a filler word")
    return bad


def compare(case, cl, ml, facts, stats=None):
    """returns (mismatches, invariant violations of the implementation's dictionary)"""
    mis, wf = [], []
    nocase = case.flag == "nocase"
    st = stats if stats is not None else {}
    st["cases"] = st.get("cases", 0) + 1
    if nocase:
        st["nocase"] = st.get("nocase", 0) + 1
    c_rej = first(cl, "rej") is not None
    l_rej, l_ok = first(ml, "Lrej"), first(ml, "Lok")
    if l_rej is None and l_ok is None:
        return ["the driver printed no verdict of DictLoad.loadDict"], wf
    sim = first(ml, "Lsim")
    if not nocase and sim != "1":
        mis.append("DictLoad.loadDict (C16 object) and TextIn.dictInit (C10 object) differ on this input (projection)")
    if c_rej:
        st["refused:" + str(l_rej)] = st.get("refused:" + str(l_rej), 0) + 1
        if l_rej is None:
            mis.append("implementation refuses, DictLoad.loadDict accepts")
        return mis, wf
    if first(cl, "ok") is None:
        return mis, wf   # no verdict: reported by the caller
    if l_ok is None:
        mis.append(f"implementation accepts, DictLoad.loadDict refuses ({l_rej})")
        return mis, wf
    st["accepted"] = st.get("accepted", 0) + 1
    if first(cl, "ok") != l_ok:
        mis.append(f"bridge header: implementation {first(cl, 'ok')}, loadDict {l_ok}")
    cw, lw = first(cl, "words") or "", first(ml, "Lwords") or ""
    if cw != lw:
        a, b = cw.split(), lw.split()
        d = next((k for k in range(max(len(a), len(b))) if k >= len(a) or k >= len(b) or a[k] != b[k]), None)
        mis.append(f"bridge entries differ at word {d}: implementation {a[d] if d is not None and d < len(a) else None}, "
                   f"loadDict {b[d] if d is not None and d < len(b) else None}")
    cwid, lwid = first(cl, "wids"), first(ml, "Lwids")
    if cwid is None or cwid != lwid:
        mis.append("dict_wordid of the stored spellings: implementation and loadDict differ")
    if first(cl, "special") != first(ml, "Lspecial"):
        mis.append(f"start/finish/silence ids: implementation {first(cl, 'special')}, loadDict {first(ml, 'Lspecial')}")
    if first(ml, "Lfound") != "1":
        mis.append("loadDict: a line reported as loaded is not found by lookup with its phones (C10_dict_loaded_found re-evaluated)")
    # refusal messages of the implementation = report of the model
    rep = [int(x) for x in (first(ml, "Lrep") or "").split()]
    msgs = [int(x) for x in (first(cl, "dictmsgs") or "").split()]
    if len(rep) == 7 and len(msgs) == 5:
        comment, blank, nopron, badphone, dup, nobase, loaded = rep
        want = [nopron, badphone, dup + nobase, nobase, 0]
        if msgs != want:
            mis.append(f"refusal messages [no-pron, unknown-phone, failed-to-add, missing-base, empty-word]: implementation {msgs}, "
                       f"loadDict report {want}")
        for k, v in zip(("comment", "blank", "no-pronunciation", "unknown-phone", "duplicate", "missing-base", "loaded"), rep):
            st["lines:" + k] = st.get("lines:" + k, 0) + v
    else:
        mis.append("refusal message counts missing")
    # the invariant, on the implementation's own dump
    ents = parse_entries(cw)
    try:
        wids = [int(x) for x in (cwid or "").split()]
        special = tuple(int(x) for x in (first(cl, "special") or "").split())
        hdr = tuple(int(x) for x in first(cl, "ok").split())
    except ValueError:
        wids, special, hdr = None, None, None
    wf += wf_oracle(ents, wids, special, hdr, len(facts["phones"]), nocase)
    # run-time additions after the load (alternate of word 0, duplicate, alternate without base): same outcome, same table,
    # and the invariant still holds on the implementation's dictionary (C16_wf_loaded_then_anything)
    if first(cl, "adds") != first(ml, "Ladds") or first(cl, "adds") is None:
        mis.append(f"dict_add_word after the load: implementation returns {first(cl, 'adds')}, model {first(ml, 'Ladds')}")
    if (first(cl, "words2") or "") != (first(ml, "Lwords2") or "") or first(cl, "wids2") != first(ml, "Lwids2"):
        mis.append("word table after the run-time additions: implementation and model differ")
    try:
        wf2 = wf_oracle(parse_entries(first(cl, "words2")), [int(x) for x in (first(cl, "wids2") or "").split()], None, None,
                        len(facts["phones"]), nocase)
    except ValueError:
        wf2 = ["unreadable dump after the run-time additions"]
    wf += ["after run-time additions: " + x for x in wf2]
    a = (first(cl, "adds") or "").split()
    if len(a) == 3:
        st["post-load additions accepted"] = st.get("post-load additions accepted", 0) + sum(1 for x in a if x != "-1")
        st["post-load additions refused"] = st.get("post-load additions refused", 0) + sum(1 for x in a if x == "-1")
    nalt = sum(1 for (w, _, _, _) in ents if word2basestr(w) is not None)
    if nalt:
        st["dicts-with-alternates"] = st.get("dicts-with-alternates", 0) + 1
        st["alternates"] = st.get("alternates", 0) + nalt
        if any(word2basestr(w) is not None and word2basestr(ents[bw][0]) is not None for (w, _, bw, _) in ents if 0 <= bw < len(ents)):
            st["alternates-of-alternates"] = st.get("alternates-of-alternates", 0) + 1
    st["words"] = st.get("words", 0) + len(ents)
    return mis, wf


def check_consts(c):
    """MAX_S3WID of the model = the header's"""
    try:
        txt = (vlib.REPO / "include" / "soundswallower" / "s3types.h").read_text()
        m = re.search(r"#define\s+MAX_S3WID\s+\(\(int32\)\s*(0x[0-9a-fA-F]+|\d+)\)", txt)
        lean = (vlib.ROOT / "lean" / "SSVerif" / "Model" / "DictLoad.lean").read_text()
        m2 = re.search(r"def maxS3wid : Nat := (0x[0-9a-fA-F]+|\d+)", lean)
        ok = bool(m and m2 and int(m.group(1), 0) == int(m2.group(1), 0))
        c.oblige("DictLoad.maxS3wid equals MAX_S3WID of include/soundswallower/s3types.h", ok, f"{m and m.group(1)} vs {m2 and m2.group(1)}")
    except OSError as e:
        c.oblige("DictLoad.maxS3wid equals MAX_S3WID of include/soundswallower/s3types.h", False, str(e))


def check_sil(c, facts_lines, facts):
    """hypothesis `hs : sil < phones.length` of C10_dict_wf / C10_dict_both_invariants, on the acoustic model the harness loaded"""
    sil = next((int(l.split()[2]) for l in facts_lines if l.startswith("- sil ")), None)
    c.oblige("the silence phone id printed by the harness is a CI phone id of the acoustic model (hypothesis hs of C10_dict_wf, "
             "C10_dict_both_invariants)", sil is not None and 0 <= sil < len(facts["phones"]), f"sil={sil}, {len(facts['phones'])} phones")


# ------------------------------------------------------------------------------------------------
# the extra stream

SPELL = [b"foo", b"Foo", b"FOO", b"bar", b"a", b"go(", b"x)", b"(2)", b"caf\xc3\xa9", b"\xe4\xbd\xa0\xe5\xa5\xbd", b"w-1", b"it's", b"<sil>", b"<s>",
         b"</s>", b"[noise]", b"++um++", b"a(b", b"q"]
SUFFIX = [b"(2)", b"(3)", b"(0)", b"(1)", b"(999999999999)", b"()", b"(x)", b"(2)(3)", b"(2)(2)", b"((2))", b"(2))", b"(-1)", b"( 2)", b"(2) ", b"(10)", b"(02)"]


def bridge_cases(Case, seed, facts, tier):
    """dictionary texts aimed at alternates, duplicates, case variants and tokeniser corners"""
    r = vlib.Rng((seed * 0x9E3779B1 + 0xC10D1C7) & 0xFFFFFFFF)
    phones = [p for p in facts["phones"] if p]
    n = 260 if tier == "quick" else 6000
    out = []

    def pron(lo=1, hi=4):
        return [r.choice(phones) for _ in range(r.range(lo, hi))]

    def mk_lines(filler):
        lines = []
        pool = [b"<sil>", b"[noise]", b"++um++", b"<s>", b"</s>", b"[laugh]"] if filler else SPELL
        for _ in range(r.range(0, 9)):
            kind = r.weighted([("base", 10), ("alt", 12), ("altchain", 4), ("dupe", 4), ("wordonly", 2), ("unk", 2), ("lowerphone", 2),
                               ("comment", 2), ("blank", 2), ("long", 1), ("altfirst", 2), ("casevar", 3), ("nulword", 1), ("manyalts", 1)])
            w = r.choice(pool)
            if kind == "base":
                lines.append([w] + pron())
            elif kind == "alt":
                lines.append([w + r.choice(SUFFIX)] + pron())
            elif kind == "altchain":
                lines.append([w] + pron())
                for k in range(2, r.range(3, 6)):
                    lines.append([w + b"(%d)" % k] + pron())
                if r.chance(0.5):
                    lines.append([w + b"(2)(2)"] + pron())
            elif kind == "dupe" and lines:
                lines.append(list(r.choice(lines)))
            elif kind == "wordonly":
                lines.append([w + (r.choice(SUFFIX) if r.chance(0.5) else b"")])
            elif kind == "unk":
                lines.append([w + (r.choice(SUFFIX) if r.chance(0.5) else b"")] + pron(0, 2) + [r.choice([b"XX", b"ah", b"SILX", b"\xc3\xa9"])] + pron(0, 2))
            elif kind == "lowerphone":
                lines.append([w] + [p.lower() for p in pron()])
            elif kind == "comment":
                lines.append([r.choice([b"##", b";;", b"##foo(2)", b";;foo", b"#", b";", b"#;x", b" ##x"]), w] + pron())
            elif kind == "blank":
                lines.append(r.choice([[], [b""], [b"", b""]]))
            elif kind == "long":
                lines.append([r.choice([b"L" * r.choice([4090, 4092, 4093, 5000, 9000]), w]) + (b"(2)" if r.chance(0.3) else b"")] +
                             pron(1, r.choice([3, 700, 2100])))
            elif kind == "altfirst":
                lines.insert(0, [w + b"(2)"] + pron())
            elif kind == "casevar":
                v = r.choice([w.upper(), w.lower(), w.capitalize()])
                lines.append([v + (r.choice([b"(2)", b"(3)"]) if r.chance(0.6) else b"")] + pron())
            elif kind == "nulword":
                lines.append([r.choice([b"a\0b", b"\0", b"foo\0(2)", b"foo(2)\0x", b"\x0b", b"foo\x0c(2)"])] + pron())
            elif kind == "manyalts":
                lines.append([w] + pron())
                for k in range(2, r.choice([12, 40])):
                    lines.append([w + b"(%d)" % k] + pron(1, 2))
        if r.chance(0.3):
            r.shuffle(lines)
        return lines

    def render(lines):
        outb = b""
        for k, l in enumerate(lines):
            sep = r.choice([b" ", b" ", b"\t", b"  ", b" \t ", b"\0", b"\x0b", b" \r"])
            lead = r.choice([b"", b"", b"", b" ", b"\t"])
            outb += lead + sep.join(l) + r.choice([b"", b"", b" ", b"\t"])
            if k < len(lines) - 1 or r.chance(0.7):
                outb += r.choice([b"\n", b"\n", b"\n", b"\r\n", b"\n\n"])
        return outb

    for _ in range(n):
        main = render(mk_lines(False))
        fd = None
        if r.chance(0.6):
            fd = render(mk_lines(True)) if r.chance(0.8) else b"<sil> SIL\n"
        flag = "nocase" if r.chance(0.35) else None
        out.append(Case("dict", main, fd, flag, gen="dict:bridge" + (":nocase" if flag else "")))
    return out
