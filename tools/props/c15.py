"""C15 — endpointed speech segments are exact excerpts with consistent timestamps.

Lean: SSVerif/Props/C15.lean — the ring queue + state machine of ps_endpointer.c (model M3, with fix
D01 applied) refines an unbounded FIFO capped at maxlen, for every accepted configuration, every
decision sequence, every end-of-stream point and reuse after it; segment/timestamp/end-of-stream
theorems follow on the FIFO.
Tie: harness/h_c15.c includes the real ps_endpointer.c + ps_vad.c (ASan/UBSan, asserts on) with
vad_classify replaced by a stub reading the decision from the frame; the same op lines run on the
model's own definitions (ssdriver c15); outputs are diffed.  The float part of endpointer_init is not
modelled: the driver is fed the (maxlen, start_frames, end_frames, frame_size) the real initialiser
produced and re-decides acceptance on them.
Oracle: an independent Python reference of the property (deque of pending frames) evaluated on what the
C code returned, plus direct checks (ids strictly increasing, consecutive inside a segment, times).
"""
import itertools, json, re
import vlib

RATES = (8000, 16000, 32000, 48000)


def _define(header, name, default):
    try:
        txt = (vlib.REPO / "include" / "soundswallower" / header).read_text()
        m = re.search(r"#define\s+%s\s+([-0-9.eE]+)" % name, txt)
        return float(m.group(1)) if m else default
    except OSError:
        return default


DEF_WINDOW = _define("endpointer.h", "ENDPOINTER_DEFAULT_WINDOW", 0.3)
DEF_RATIO = _define("endpointer.h", "ENDPOINTER_DEFAULT_RATIO", 0.9)
DEF_SR = int(_define("vad.h", "VAD_DEFAULT_SAMPLE_RATE", 16000))
DEF_FL = _define("vad.h", "VAD_DEFAULT_FRAME_LENGTH", 0.03)


# ---------------------------------------------------------------------------
# untrusted generator-side port of the float part of vad_set_input_params / endpointer_init

def py_init(window, ratio, mode, sr, fl):
    """(maxlen, start, end, fs, sr) the initialiser computes, or None when the VAD rejects the parameters"""
    if mode not in (0, 1, 2, 3):
        return None
    if sr == 0:
        sr = DEF_SR
    if fl == 0:
        fl = DEF_FL
    closest, best = 0, 0.5
    for r in RATES:
        diff = abs(1.0 - r / sr)
        if diff < best:
            closest, best = r, diff
    if closest == 0:
        return None
    fs = int(closest * fl)
    if fs not in [closest // 1000 * ms for ms in (10, 20, 30)]:
        return None
    if window == 0:
        window = DEF_WINDOW
    if ratio == 0:
        ratio = DEF_RATIO
    flen = fs / sr
    maxlen = int(window / flen + 0.5)
    start = int(ratio * maxlen)
    end = int((1.0 - ratio) * maxlen + 0.5)
    return maxlen, start, end, fs, sr


def accepted(m, s, e):
    return 0 < s < m and 0 < e < m


def producible(maxlen):
    """all (start, end) pairs the initialiser can produce for a given maxlen (fine ratio sweep)"""
    out = {}
    for i in range(1, 4000):
        r = i / 4000.0
        s, e = int(r * maxlen), int((1.0 - r) * maxlen + 0.5)
        if accepted(maxlen, s, e):
            out.setdefault((s, e), r)
    return out


# ---------------------------------------------------------------------------
# running

INIT_RE = re.compile(r"init ok maxlen=(-?\d+) start=(-?\d+) end=(-?\d+) fs=(\d+) sr=(-?\d+)")


def canon_line(l):
    l = l.split(" | ")[0]
    return re.sub(r" sr=-?\d+$", "", l)


def split_cases(ops):
    cases, cur = [], []
    for op in ops:
        if op.startswith("init ") and cur:
            cases.append(cur)
            cur = []
        cur.append(op)
    if cur:
        cases.append(cur)
    return cases


def driver_ops(ops, hout):
    """op lines for the model: `init` lines carry what the real initialiser produced"""
    res = []
    for i, op in enumerate(ops):
        if op.startswith("init "):
            line = hout[i] if i < len(hout) else ""
            m = INIT_RE.match(line)
            if m:
                res.append("init %s %s %s %s" % m.group(1, 2, 3, 4))
            else:
                w = op.split()
                pi = py_init(float(w[1]), float(w[2]), int(w[3]), int(w[4]), float(w[5]))
                res.append("initfail" if pi is None else "init %d %d %d %d" % pi[:4])
        else:
            res.append(op)
    return res


DRIVER = None   # private copy of ssdriver (the shared binary is relinked whenever anybody rebuilds the library)


def private_copies(c, binp):
    """copy the harness binary and the driver into this run's scratch directory: the shared build directories are
    pruned / relinked by concurrent checks of other properties"""
    global DRIVER
    import shutil, time
    for attempt in range(60):
        try:
            with vlib.flock("lake.lock"):
                shutil.copy2(vlib.driver_path(), c.scratch / "ssdriver")
            hb = c.scratch / "h_c15"
            if not binp.exists():
                binp = vlib.build_harness("h_c15")
            shutil.copy2(binp, hb)
            DRIVER = c.scratch / "ssdriver"
            return hb
        except (FileNotFoundError, OSError):
            time.sleep(1.0)
    raise vlib.BuildError("driver / harness binary keeps disappearing (concurrent rebuilds)")


def run_driver(text, timeout):
    import subprocess
    r = subprocess.run([str(DRIVER or vlib.driver_path()), "c15"], input=text.encode(), stdout=subprocess.PIPE,
                       stderr=subprocess.PIPE, timeout=timeout)
    return r.returncode, r.stdout.decode(errors="replace"), r.stderr.decode(errors="replace")


def run_both(ops, binp, timeout=1800):
    text = "\n".join(ops) + "\n"
    rc, out, err = vlib.run_bin(binp, stdin_text=text, timeout=timeout)
    hout = out.rstrip("\n").split("\n") if out.strip() else []
    dops = driver_ops(ops, hout)
    rc2, mout, merr = run_driver("\n".join(dops) + "\n", timeout)
    mlines = mout.rstrip("\n").split("\n") if mout.strip() else []
    return (rc, hout, err), (rc2, mlines, merr)


# ---------------------------------------------------------------------------
# the property evaluated on the implementation's output

def parse_fields(line):
    d = {}
    for tok in line.replace(" | ", " ").split()[1:]:
        if "=" in tok:
            k, v = tok.split("=", 1)
            d[k] = v
    return d


def oracle(ops, hout, rc):
    """list of property violations of the implementation on one case (ops[0] is the init line)"""
    bad = []
    if rc != 0 or len(hout) < len(ops):
        bad.append(f"the library died (exit code {rc}) inside op #{len(hout)}: "
                   f"{ops[len(hout)] if len(hout) < len(ops) else '?'}")
    m = INIT_RE.match(hout[0]) if hout else None
    w = ops[0].split()
    pi = py_init(float(w[1]), float(w[2]), int(w[3]), int(w[4]), float(w[5]))
    if not m:
        if pi is not None and accepted(*pi[:3]) and hout and hout[0].startswith("init fail"):
            bad.append(f"initialiser rejected parameters whose thresholds {pi} are acceptable")
        return bad
    maxlen, S, E, fs, sr = (int(x) for x in m.groups())
    if not accepted(maxlen, S, E):
        bad.append(f"initialiser accepted impossible thresholds maxlen={maxlen} start={S} end={E}")
        return bad
    # reference: pending frames not yet handed back, at most maxlen most recent
    q, insp, qstart, tsf, tss, start, end, nid, lastret = [], False, 0, 0, 0, 0, 0, 0, None
    first_stream = True
    for i, op in enumerate(ops[1:], 1):
        if i >= len(hout):
            break
        f = parse_fields(hout[i])
        kind, arg = op.split()
        exp_err = 0
        if kind == "p":
            d = int(arg)
            if len(q) == maxlen:
                q.pop(0)
                qstart += 1
            q.append((nid, d))
            nid += 1
            tsf += 1
            cnt = sum(x[1] for x in q)
            ret = None
            was = insp
            if insp:
                ret = q.pop(0)[0]
                qstart += 1
                if cnt < E:
                    end, insp = qstart * fs, False
            elif cnt > S:
                start, end, insp = qstart * fs, 0, True
                ret = q.pop(0)[0]
                qstart += 1
            exp_ret = "none" if ret is None else str(ret)
            if f.get("ret") != exp_ret:
                bad.append(f"op #{i} ({op}): returned frame {f.get('ret')}, the property requires {exp_ret} "
                           f"(speech count {cnt}, in_speech before {int(was)})")
            # direct, model-free checks
            if f.get("ret") not in ("none", None) and f["ret"].isdigit():
                r = int(f["ret"])
                if lastret is not None and r <= lastret:
                    bad.append(f"op #{i}: returned id {r} after {lastret} (repeat / out of order)")
                if was and lastret is not None and r != lastret + 1:
                    bad.append(f"op #{i}: gap inside a segment ({lastret} then {r})")
                if not was and first_stream and f.get("start") != str(r * fs):
                    bad.append(f"op #{i}: speech_start {f.get('start')} != position {r * fs} of first returned frame {r}")
                if was and f.get("insp") == "0" and first_stream and f.get("end") != str((r + 1) * fs):
                    bad.append(f"op #{i}: speech_end {f.get('end')} != end position {(r + 1) * fs} of last returned frame {r}")
                lastret = r
        else:
            nsamp = int(arg)
            if nsamp > fs:
                exp_ret, exp_out, exp_err = "null", "untouched", 1
            elif not insp:
                exp_ret, exp_out = "null", "0"
            else:
                ids = []
                while q and q[0][1]:
                    ids.append(q.pop(0)[0])
                    qstart += 1
                end = qstart * fs
                parts = [str(x) for x in ids]
                outn = len(ids) * fs
                if not q:
                    tss += nsamp
                    outn += nsamp
                    end = tsf * fs + tss
                    if nsamp:
                        parts.append(f"T{nsamp}")
                else:
                    qstart += 1
                q, insp = [], False
                exp_ret, exp_out = (",".join(parts) if outn else "-"), str(outn)
                for r in ids:
                    if lastret is not None and r != lastret + 1:
                        bad.append(f"op #{i}: end_stream returned {r} after {lastret}")
                    lastret = r
                first_stream = False
            if f.get("ret") != exp_ret or f.get("out") != exp_out:
                bad.append(f"op #{i} ({op}): end_stream returned {f.get('ret')} out={f.get('out')}, "
                           f"the property requires {exp_ret} out={exp_out}")
        exp = {"insp": str(int(insp)), "start": str(start), "end": str(end), "err": str(exp_err)}
        for k, v in exp.items():
            if f.get(k) != v:
                bad.append(f"op #{i} ({op}): {k}={f.get(k)}, the property requires {v}")
        if bad:
            break
    return bad


# ---------------------------------------------------------------------------
# coverage measured on the implementation's output

def measure(ops, hout, st):
    m = INIT_RE.match(hout[0]) if hout else None
    if not m:
        st["init"]["rejected"] += 1
        return False
    maxlen, S, E, fs, sr = (int(x) for x in m.groups())
    st["init"]["accepted"] += 1
    st["maxlen"][maxlen] = st["maxlen"].get(maxlen, 0) + 1
    st["frame_size"][fs] = st["frame_size"].get(fs, 0) + 1
    st["sample_rate"][sr] = st["sample_rate"].get(sr, 0) + 1
    pos, n, insp, ends = 0, 0, False, 0
    b = st["branches"]
    nontrivial = False
    for i, op in enumerate(ops[1:], 1):
        if i >= len(hout):
            break
        f = parse_fields(hout[i])
        if op[0] == "p":
            if n == maxlen:
                b["push_full_drops_oldest"] += 1
                n1 = maxlen
                pos1 = (pos + 1) % maxlen
            else:
                n1, pos1 = n + 1, pos
            if n1 == maxlen:
                b["count_full"] += 1
            else:
                b["count_partial"] += 1
                if pos1 != 0:
                    b["count_partial_wrapped_pos"] += 1
                if pos1 == maxlen - 1:
                    b["count_partial_pos_is_last_slot(D01)"] += 1
                if pos1 + n1 > maxlen:
                    b["count_partial_crosses_end"] += 1
            ni = f["insp"] == "1"
            if insp and not ni:
                b["speech_end_trigger"] += 1
                nontrivial = True
            elif insp:
                b["in_speech_continue"] += 1
            elif ni:
                b["speech_start_trigger"] += 1
                if n1 < maxlen:
                    b["speech_start_before_queue_full"] += 1
                if ends:
                    b["speech_start_after_end_stream(reuse)"] += 1
            else:
                b["not_in_speech_stay"] += 1
            insp = ni
        else:
            if f["out"] == "untouched":
                b["end_too_long"] += 1
            elif f["ret"] == "null":
                b["end_not_in_speech"] += 1
            else:
                ends += 1
                nontrivial = True
                if pos != 0:
                    b["end_linearize_rotates"] += 1
                k = f["ret"].count(",") + 1 if f["ret"] != "-" else 0
                trail = f["ts"] == f["end"]      # speech_end = timestamp only on the trailing-samples branch
                if n == 0:
                    b["end_empty_queue"] += 1
                elif trail:
                    b["end_all_speech_plus_trailing"] += 1
                else:
                    b["end_stops_at_nonspeech"] += 1
                    if int(f["n"]) == 0 and k < n - 1:
                        b["end_discards_unpopped_frames"] += 1
                if op.split()[1] == "0":
                    b["end_nsamp_0"] += 1
                elif int(op.split()[1]) == fs:
                    b["end_nsamp_full_frame"] += 1
            insp = f["insp"] == "1"
        pos, n = int(f["pos"]), int(f["n"])
    return nontrivial


BRANCHES = ["push_full_drops_oldest", "count_full", "count_partial", "count_partial_wrapped_pos",
            "count_partial_pos_is_last_slot(D01)", "count_partial_crosses_end", "speech_end_trigger",
            "in_speech_continue", "speech_start_trigger", "speech_start_before_queue_full",
            "speech_start_after_end_stream(reuse)", "not_in_speech_stay", "end_too_long", "end_not_in_speech",
            "end_linearize_rotates", "end_empty_queue", "end_all_speech_plus_trailing", "end_stops_at_nonspeech",
            "end_discards_unpopped_frames", "end_nsamp_0", "end_nsamp_full_frame"]


def new_stats():
    return {"init": {"accepted": 0, "rejected": 0}, "maxlen": {}, "frame_size": {}, "sample_rate": {},
            "branches": {k: 0 for k in BRANCHES}, "ops": {"p0": 0, "p1": 0, "e": 0}, "exhaustive_scopes": [], "seen": set()}


# ---------------------------------------------------------------------------
# judging a batch

def judge(c, binp, ops, label, st=None):
    """implementation vs model vs property on a batch of cases; on a problem shrink and report. True = all fine"""
    (rc, hout, err), (rc2, mlines, merr) = run_both(ops, binp)
    ch, cm = [canon_line(l) for l in hout], [canon_line(l) for l in mlines]
    cases = split_cases(ops)
    if rc == 0 and rc2 == 0 and ch == cm and len(ch) == len(ops):
        # the property itself, evaluated on the implementation's output, case by case
        off, allok = 0, True
        for case in cases:
            ho = hout[off:off + len(case)]
            off += len(case)
            bad = oracle(case, ho, 0)
            if st is not None:
                hcase = hash(tuple(case))
                if measure(case, ho, st) and hcase not in st["seen"]:
                    st["nontrivial"] = st.get("nontrivial", 0) + 1
                st["seen"].add(hcase)
            if bad:
                allok = False
                report(c, binp, case, label)
                break
        return allok
    if rc2 != 0:
        c.oblige(f"model driver runs ({label})", False, merr[-500:])
        return False
    # locate the first failing case
    off = 0
    for case in cases:
        ho, mo = ch[off:off + len(case)], cm[off:off + len(case)]
        off += len(case)
        if ho != mo or len(ho) < len(case):
            break
    report(c, binp, case, label)
    return False


def case_fails(binp, case):
    (rc, hout, err), (rc2, mlines, _) = run_both(case, binp)
    ch, cm = [canon_line(l) for l in hout], [canon_line(l) for l in mlines]
    return rc != 0 or ch != cm or len(ch) != len(case) or bool(oracle(case, hout, rc))


def oracle_fails(binp, case):
    (rc, hout, err), _ = run_both(case, binp)
    return bool(oracle(case, hout, rc))


def report(c, binp, case, label):
    """shrink a failing case; prefer a witness on which the *implementation* breaks the property (oracle), searching
    continuations of the diverging history when the divergence is not yet visible in the observables"""
    head, body = case[0], case[1:]
    pi = None
    try:
        w = head.split()
        pi = py_init(float(w[1]), float(w[2]), int(w[3]), int(w[4]), float(w[5]))
    except Exception:
        pass
    m = pi[0] if pi and accepted(*pi[:3]) else 4
    found = None
    if oracle_fails(binp, case):
        found = body
    else:
        for ext in (["p 1"] * (2 * m + 2) + ["e 0"], ["p 1"] * (2 * m + 2) + ["p 0"] * (2 * m + 2) + ["p 1"] * (m + 1) + ["e 0"],
                    ["p 0"] * (2 * m + 2) + ["p 1"] * (2 * m + 2) + ["e 0"], ["e 0"] + ["p 1"] * (2 * m + 2) + ["e 0"]):
            if oracle_fails(binp, case + ext):
                found = body + ext
                break
    if found is not None:
        small = vlib.ddmin(found, lambda sub: oracle_fails(binp, [head] + sub))
        while small and oracle_fails(binp, [head] + small[:-1]):
            small = small[:-1]
    else:
        small = vlib.ddmin(body, lambda sub: case_fails(binp, [head] + sub))
        while small and case_fails(binp, [head] + small[:-1]):
            small = small[:-1]
    sc = [head] + small
    (rc, hout, err), (_, mlines, _) = run_both(sc, binp)
    bad = oracle(sc, hout, rc)
    ch, cm = [canon_line(l) for l in hout], [canon_line(l) for l in mlines]
    c.oblige(f"correspondence model = implementation and property on the implementation ({label})", False,
             {"ops": sc, "impl": ch[-3:], "model": cm[-3:], "property": bad[:3]})
    m = INIT_RE.match(hout[0]) if hout else None
    san = re.search(r"SUMMARY: (.*)", err)
    c.violation({"kind": "endpointer history",
                 "parameters": dict(zip(("window", "ratio", "vad_mode", "sample_rate", "frame_length"), head.split()[1:])),
                 "thresholds": dict(zip(("maxlen", "start_frames", "end_frames", "frame_size", "sample_rate"),
                                        (int(x) for x in m.groups()))) if m else None,
                 "decisions_and_end_of_stream_points": " ".join(o.replace("p ", "").replace("e ", "END:") for o in small),
                 "ops": sc, "implementation_output": hout, "exit_code": rc,
                 "sanitizer": san.group(1) if san else None, "stderr_tail": err[-1800:],
                 "model_output": mlines, "property_violations_of_the_implementation": bad,
                 "implementation_violates_property": bool(bad),
                 "how_to_rerun": "python3 tools/check.py C15 --replay <this file>"}, bool(bad))


# ---------------------------------------------------------------------------
# generators

def gen_params(rng):
    sr = rng.weighted([(16000, 12), (8000, 8), (32000, 4), (48000, 4), (0, 4), (11025, 4), (22050, 2), (44100, 2),
                       (42, 1), (96000, 1), (-8000, 1)])
    fl = rng.weighted([(0.03, 10), (0.01, 10), (0.02, 8), (0, 4), (0.025, 1), (0.04, 1)])
    mode = rng.weighted([(0, 12), (1, 4), (2, 4), (3, 8), (4, 1), (-1, 1)])
    pi = py_init(1.0, 0.5, 0, sr, fl)
    flen = (pi[3] / pi[4]) if pi else 0.03
    kind = rng.below(20)
    if kind < 2:
        window = 0.0
    elif kind == 2:
        window = rng.choice([-0.3, 0.001, flen, 1e-9])
    elif kind < 16:
        window = rng.choice([2, 2, 3, 3, 4, 5, 6, 7, 8, 10, 12, 16, 25, 40]) * flen
    else:
        window = (20 + rng.below(1500)) / 1000.0
    maxlen = int(window / flen + 0.5) if window else int(DEF_WINDOW / flen + 0.5)
    kind = rng.below(24)
    if kind < 2:
        ratio = 0.0
    elif kind == 2:
        ratio = rng.choice([0.99, 0.999, 1.0, 1.5, -0.2, 0.001, 0.02])
    elif kind < 14 and maxlen > 1:
        # just around k/maxlen, where the thresholds change
        ratio = rng.range(1, max(1, maxlen - 1)) / maxlen + rng.choice([-1e-9, 0.0, 1e-9, 0.01, -0.01])
    elif kind < 18:
        ratio = 0.5
    else:
        ratio = (5 + rng.below(91)) / 100.0
    return window, ratio, mode, sr, fl


def gen_case(rng, st):
    window, ratio, mode, sr, fl = gen_params(rng)
    ops = [f"init {window!r} {ratio!r} {mode} {sr} {fl!r}"]
    pi = py_init(window, ratio, mode, sr, fl)
    if pi is None or not accepted(*pi[:3]):
        return ops + ["p 1", "e 0"][:rng.below(3)]
    maxlen, S, E, fs, _ = pi
    n = rng.range(0, 6 * maxlen + 20)
    # bursty decisions: two-state chain with random persistence, occasionally constant
    stay1, stay0 = rng.choice([0.5, 0.7, 0.9, 0.97]), rng.choice([0.5, 0.7, 0.9, 0.97])
    d = int(rng.chance(0.5))
    pend = rng.choice([0.0, 0.01, 0.03, 0.1])
    for _ in range(n):
        if rng.chance(pend):
            ops.append(f"e {rng.choice([0, 0, 1, fs // 2, fs - 1, fs, fs, fs + 1, 3])}")
            st["ops"]["e"] += 1
        d = d if rng.chance(stay1 if d else stay0) else 1 - d
        ops.append(f"p {d}")
        st["ops"][f"p{d}"] += 1
    ops.append(f"e {rng.choice([0, 1, fs // 2, fs - 1, fs, fs + 1])}")
    st["ops"]["e"] += 1
    for _ in range(rng.below(3) * rng.range(0, 2 * maxlen)):      # reuse after the end of the stream
        d = d if rng.chance(0.8) else 1 - d
        ops.append(f"p {d}")
        st["ops"][f"p{d}"] += 1
    if rng.chance(0.5):
        ops.append(f"e {rng.choice([0, fs // 3, fs])}")
        st["ops"]["e"] += 1
    return ops


def init_line_for(maxlen, ratio, flavour=0):
    sr, fl = [(8000, 0.01), (16000, 0.01), (8000, 0.02)][flavour % 3]
    fs = int(sr * fl)
    window = maxlen * (fs / sr)
    pi = py_init(window, ratio, 0, sr, fl)
    assert pi and pi[0] == maxlen, (maxlen, pi)
    return f"init {window!r} {ratio!r} 0 {sr} {fl!r}", fs


def exhaustive(c, binp, st, plan):
    """all decision sequences up to length L, an end of stream at every point, and reuse after it.
    plan entries: (maxlen, L, R = length of the continuation after the end of stream, A = up to which length
    every trailing-sample count is tried on every sequence; longer sequences rotate through them)"""
    total, ok = 0, True
    for maxlen, L, R, A in plan:
        for (S, E), ratio in sorted(producible(maxlen).items()):
            head, fs = init_line_for(maxlen, ratio, maxlen)
            nsamps = [0, fs // 2, fs]
            batch = []
            for l in range(0, L + 1):
                for seq in itertools.product("01", repeat=l):
                    body = [f"p {d}" for d in seq]
                    for j in (range(3) if l <= A else [total % 3]):
                        batch.append(head)
                        batch += body
                        batch.append(f"e {nsamps[j]}")
                        # reuse: a continuation chosen by the running counter (it starts with speech so that a
                        # segment begins on the reused endpointer), then a second end of stream
                        batch += [f"p {((total >> b) & 1) | (b < 2)}" for b in range(R)]
                        batch.append(f"e {nsamps[(j + 1) % 3]}")
                        total += 1
                    if len(batch) > 400000:
                        ok = judge(c, binp, batch, f"exhaustive maxlen={maxlen} start={S} end={E} len={l}", st)
                        batch = []
                        if not ok:
                            return total, False
            if batch:
                ok = judge(c, binp, batch, f"exhaustive maxlen={maxlen} start={S} end={E}", st)
                if not ok:
                    return total, False
            st["exhaustive_scopes"].append(f"maxlen={maxlen} start={S} end={E}: all decision sequences of length <= {L}")
    return total, ok


# ---------------------------------------------------------------------------

def check(c):
    c.trusted += ["harness/h_c15.c (stub vad_classify, frame labelling, byte comparison of returned frames) + tools/props/c15.py "
                  "(generator, canonicalisation, diff, Python reference of the property)",
                  "clang ASan/UBSan as observer of out-of-bounds accesses in ps_endpointer.c",
                  "floating point: the thresholds computed by endpointer_init and the double clocks are not modelled; "
                  "times are compared as sample counts llround(t*sample_rate); x + frame_length != x for the clocks",
                  "memcpy/memmove copy bytes faithfully (the model moves abstract frame payloads)"]
    c.assumptions += ["vad_classify returns 0 or 1 (WebRtcVad_Process returns -1 only for a NULL frame or an invalid rate/length, "
                      "which vad_set_input_params rules out)",
                      "window/frame_length and maxlen*frame_size fit an int (no overflow in endpointer_init)",
                      "after an end_stream that returned data the two clocks are no longer aligned (qstart_time does not count "
                      "discarded frames / trailing samples); times after reuse are stated relative to the queue clock"]
    if not c.lean_obligations():
        return
    binp = private_copies(c, vlib.build_harness("h_c15"))
    st = new_stats()
    ncorp = 0
    for f in sorted((vlib.ROOT / "corpus" / "C15").glob("*.ops")):
        ops = [l for l in f.read_text().split("\n") if l.strip() and not l.startswith("#")]
        ncorp += 1
        if not judge(c, binp, ops, f"corpus {f.name}", st):
            return
    # small scopes first (they give the smallest witnesses), then random histories over the whole parameter space
    plan = [(2, 11, 3, 9), (3, 12, 4, 7), (4, 10, 4, 6)] if c.tier == "quick" else \
           [(2, 16, 4, 12), (3, 16, 5, 11), (4, 15, 5, 10), (5, 14, 6, 9), (6, 12, 6, 8), (7, 11, 6, 7)]
    nex, allok = exhaustive(c, binp, st, plan)
    ncases = 4000 if c.tier == "quick" else 40000
    batch, total_ops, distinct = [], 0, set()
    for i in range(ncases if allok else 0):
        ops = gen_case(c.rng, st)
        total_ops += len(ops)
        distinct.add(hash(tuple(ops)))
        if i < 3:
            c.samples.append(ops[:1] + [" ".join(o.replace("p ", "").replace("e ", "E") for o in ops[1:60])])
        batch += ops
        if len(batch) > 150000 or i == ncases - 1:
            if not judge(c, binp, batch, f"generated batch ending at case {i}", st):
                allok = False
                break
            batch = []
    c.oblige("correspondence: real ps_endpointer.c (ASan/UBSan, asserts on) = model on every generated and enumerated history, "
             "and the Python reference of the property holds on the implementation's output", allok)
    # in speech the queue is never empty (part of C15_ring_refines_fifo), so end_stream never starts on an empty queue
    unreachable = {"end_empty_queue": "proved unreachable: C15_ring_refines_fifo (in_speech -> 0 < n)"}
    unhit = [k for k, v in st["branches"].items() if v == 0 and k not in unreachable]
    if st["branches"]["end_empty_queue"]:
        c.oblige("end_stream never finds an empty queue while in speech (theorem) — observed on the implementation",
                 False, st["branches"]["end_empty_queue"])
    c.oblige("every branch of the model was exercised on the real code", not unhit or not allok, {"never hit": unhit})
    c.cov.update({"evaluations": ncases + ncorp + nex, "distinct_nontrivial": st.get("nontrivial", 0),
                  "rule": "distinct histories (op lists incl. parameters); non-trivial = the history contains at least one completed speech segment or an end_stream that "
                          "returned data (measured on the implementation's output)",
                  "distinct_random_histories": len(distinct), "exhaustive_small_scope_histories": nex,
                  "ops_executed_random": total_ops, "op_mix_random": st["ops"], "init": st["init"],
                  "maxlen_histogram": {str(k): v for k, v in sorted(st["maxlen"].items())},
                  "frame_size_histogram": {str(k): v for k, v in sorted(st["frame_size"].items())},
                  "sample_rate_histogram": {str(k): v for k, v in sorted(st["sample_rate"].items())},
                  "model_branches_hit": st["branches"], "model_branches_never_hit": unhit,
                  "model_branches_proved_unreachable": dict(unreachable, **{
                      "process: 'VAD queue overflow' (in_speech && full)": "C15_trigger_rule (overflow = false); err=0 observed on every process call",
                      "end_stream: 'VAD queue overflow' (pos == maxlen)": "C15_end_stream (overflow = false)"}),
                  "exhaustive_scopes": st["exhaustive_scopes"], "corpus_cases": ncorp})


def replay(c, path):
    c.lean_obligations()
    binp = private_copies(c, vlib.build_harness("h_c15"))
    obj = json.loads(open(path).read())
    judge(c, binp, obj["ops"], "replay", new_stats())
    c.cov.update({"evaluations": 1, "distinct_nontrivial": 1})
