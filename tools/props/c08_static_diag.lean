import SSVerif.Model.ApiStatic
/-! Diagnostic for tools/props/c08.py: prints the elements that falsify the statements of Props/C08Static
(run only when that module no longer builds). -/
open SSVerif.Generated SSVerif.Generated.Reach SSVerif.Generated.WriteSets SSVerif.Api SSVerif.ApiStatic

#eval IO.println s!"inputs: missingEntries={missingEntries} unassignedApiFunctions={unassignedApiFunctions} unknownWrittenGlobals={unknownWrittenGlobals} tier1Unreachable={tier1Unreachable} hmmInitMpxArgs={hmmInitMpxArgs}"
#eval IO.println s!"(i)/(ii) utterance-time writes outside the allowed classes: {repr (utterancePhases.flatMap fun ph => ((mayWrite ph).filter fun f => !(f ∈ exceptFields) && !((classify f).kind ∈ [Kind.reset, .dead, .cmn, .tainted, .derived] && ((classify f).kind != .reset || resetWitness f))).map fun f => (ph, f, (classify f).name))}"
#eval IO.println s!"(ii) reset cells without a static write at start: {repr ((canonTable.filter fun p => !resetWitness p.1).map (·.1))}"
#eval IO.println s!"(iii) query writes outside caches: {repr (queryPhases.flatMap fun ph => ((mayWrite ph).filter fun f => !(f ∈ exceptFields) && !(classify f ∈ queryGroups ph)).map fun f => (ph, f, (classify f).name))}"
#eval IO.println s!"(iv) globals written at utterance time: {repr (utterancePhases.flatMap fun ph => ((mayWriteGlobals ph).filter fun g => classifyGlobal? g != some .gexcl).map fun g => (ph, g))}"
#eval IO.println s!"(iv') constant globals written by some phase / init-only globals mentioned outside init: {repr (allApiPhases.flatMap fun ph => ((mayWriteGlobals ph).filter fun g => classifyGlobal? g == some .gconst).map fun g => (ph, g))} {repr (allApiPhases.flatMap fun ph => if ph == .init then [] else ((mayRefGlobals ph).filter fun g => classifyGlobal? g != some .gconst && classifyGlobal? g != some .gexcl).map fun g => (ph, g))}"
#eval IO.println s!"(v) declared write groups without a static write: {allOps.flatMap fun op => ((declaredWrites op).eraseDups.filter fun g => !(isGlobal g) && !((mayWrite (phaseOf op)).any (classify · == g))).map fun g => (op.name, g.name)}"
#eval IO.println s!"(vi) static writes the model does not declare: {repr (modelledPhases.flatMap fun p => ((mayWrite p).filter fun f => !(f ∈ exceptFields) && !(classify f == .agg) && !(classify f ∈ declaredWritesOf p)).map fun f => (p, f, (classify f).name))}"
#eval IO.println s!"(vii) reachable structs without a class: {repr (allRStructs.filter fun s => sclass? s == none)}"
#eval IO.println s!"(viii) constant tier-2 fields written at utterance time: {repr (utterancePhases.flatMap fun ph => ((mayWriteR ph).filter fun f => !(f ∈ rexceptFields) && (rclass f ∈ constantClasses)).map fun f => (ph, f))}"
#eval IO.println s!"(ix) tier-2 query writes outside caches: {repr (queryPhases.flatMap fun ph => ((mayWriteR ph).filter fun f => !(f ∈ rexceptFields) && !(rclass f ∈ queryClasses ph)).map fun f => (ph, f))}"
#eval IO.println s!"stale exceptions: {repr (exceptFields.filter fun f => !(utterancePhases.any fun ph => f ∈ mayWrite ph))} {repr (rexceptFields.filter fun f => !(utterancePhases.any fun ph => f ∈ mayWriteR ph))}"
