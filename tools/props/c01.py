"""C01 — recognition results are sentences of the active grammar   (shares everything with C03)

Lean: SSVerif/Props/C01.lean (backtrace of a well-formed history table is a path of the search
grammar start→final / a prefix path for partial results; the search grammar projects onto the
grammar the user loaded) and SSVerif/Props/C03.lean (segments tile, hypothesis = segment words,
scores telescope).  Tie: harness/h_c01.c decodes audio through the public API against generated
grammars and dumps the loaded grammar, the search FSG, the whole history table and what
decoder_hyp / decoder_seg_iter / decoder_process_* / decoder_n_frames returned; `ssdriver c01`
(1) evaluates wfHistB on the table, (2) recomputes findExit/hyp/segs from the dump with the model's
own definitions, (3) runs the verified checkers (segsTileB, scoresSumB, projB, decideAccepts /
decidePrefix on the grammar as loaded, checkPath) on what the C code reported.
"""
import json, os, re, struct, concurrent.futures
from pathlib import Path
import vlib

DATA = vlib.REPO / "tests" / "data"
MODEL = vlib.REPO / "model"

# ---------------------------------------------------------------------------------------------
# audio (every sample is a function of files under tests/data and of the stored spec)

_audio_cache = {}


def source_samples(name):
    if name in _audio_cache:
        return _audio_cache[name]
    p = DATA / name
    b = p.read_bytes()
    if name.endswith(".wav"):
        b = b[44:]
    if "float32" in name:
        n = len(b) // 4
        v = [max(-32768, min(32767, int(round(x * 32768.0)))) for x in struct.unpack("<%df" % n, b[:4 * n])]
    else:
        n = len(b) // 2
        v = list(struct.unpack("<%dh" % n, b[:2 * n]))
    _audio_cache[name] = v
    return v


def render_audio(spec):
    """spec = list of pieces {src, a, b, rev, gain, noise, seed}; src 'zero' = digital silence"""
    out = []
    for pc in spec:
        if pc["src"] == "zero":
            v = [0] * pc["b"]
        else:
            s = source_samples(pc["src"])
            v = s[pc.get("a", 0):pc.get("b", len(s))]
        if pc.get("rev"):
            v = v[::-1]
        g = pc.get("gain", 1.0)
        na = pc.get("noise", 0)
        if g != 1.0 or na:
            r = vlib.Rng(pc.get("seed", 1))
            v = [max(-32768, min(32767, int(x * g) + (r.range(-na, na) if na else 0))) for x in v]
        out += v
    return struct.pack("<%dh" % len(out), *out)


SOURCES16 = ["goforward.raw", "goforward_fr.raw", "pizza-float32.raw", "goforward-float32.raw"]
SOURCES8 = ["sense_and_sensibility_01_austen_64kb-0880.wav"]


def gen_audio(rng, samprate, stats, frate=100):
    kind = rng.weighted([("whole", 20), ("wrap128", 10), ("cutoff", 12), ("clip", 14), ("reverse", 10), ("noise", 10), ("quiet", 8), ("tiny", 16),
                         ("concat", 8), ("loud", 4), ("empty", 4)])
    stats["audio"][kind] = stats["audio"].get(kind, 0) + 1
    srcs = SOURCES8 + SOURCES16[:1] if samprate == 8000 else SOURCES16 + (SOURCES8 if rng.chance(0.1) else [])
    src = rng.choice(srcs)
    n = len(source_samples(src))
    if kind == "wrap128":
        # streamed utterance whose frames searched before decoder_end_utt fall just below a multiple of the
        # feature buffer size (128 on a fresh decoder): the frames flushed by end_utt straddle that boundary
        shift = samprate // frate
        cands = [(sname, k) for sname in (SOURCES8 if samprate == 8000 else SOURCES16[:3]) for k in (1, 2, 3)
                 if k * 128 * shift + 5 * shift <= len(source_samples(sname))]
        if cands:
            sname, k = rng.choice(cands)
            lo = k * 128 * shift + 2 * shift
            return [{"src": sname, "a": 0, "b": rng.range(lo, lo + 3 * shift - 1), "kind": "wrap128"}]
        kind = "whole"
    if kind == "cutoff":   # the recording cut before its last word(s): a path survives but not to the final state
        src = "sense_and_sensibility_01_austen_64kb-0880.wav" if samprate == 8000 else rng.choice(["goforward.raw", "goforward_fr.raw"])
        n = len(source_samples(src))
        return [{"src": src, "a": 0, "b": rng.range(n // 4, (n * 3) // 4)}]
    if kind == "whole":
        return [{"src": src}]
    if kind == "clip":
        a = rng.below(n // 2)
        return [{"src": src, "a": a, "b": min(n, a + rng.range(2000, 30000))}]
    if kind == "reverse":
        a = rng.below(n // 2)
        return [{"src": src, "a": a, "b": min(n, a + rng.range(4000, 30000)), "rev": True}]
    if kind == "noise":   # noise only: nothing in it matches any grammar
        return [{"src": "zero", "b": rng.range(1500, 25000), "noise": rng.choice([3, 200, 3000, 20000]), "seed": rng.below(1 << 30)}]
    if kind == "quiet":   # near silence (±1 dither; exact digital silence is C18's subject, D15)
        return [{"src": "zero", "b": rng.range(800, 20000), "noise": 1, "seed": rng.below(1 << 30)}]
    if kind == "tiny":    # 0..4 frames (25.6 ms window, 10 ms shift at the default rates)
        m = rng.choice([1, 100, 409, 410, 411, 569, 570, 571, 730, 731, 890, 1050, 1210])
        a = rng.below(n - 2000)
        return [{"src": src, "a": a, "b": a + m}]
    if kind == "concat":
        a = rng.below(n // 2)
        return [{"src": src, "a": a, "b": min(n, a + rng.range(3000, 15000))},
                {"src": "zero", "b": rng.range(500, 6000), "noise": 2, "seed": rng.below(1 << 30)},
                {"src": rng.choice(srcs), "a": 0, "b": rng.range(3000, 15000)}]
    if kind == "loud":
        return [{"src": src, "gain": rng.choice([0.05, 4.0, 30.0]), "b": min(n, rng.range(6000, 30000))}]
    return [{"src": src, "a": 0, "b": 0}]


# ---------------------------------------------------------------------------------------------
# grammars

WORDS_EN = ["go", "forward", "backward", "ten", "meters", "meter", "one", "two", "three", "four", "five", "six",
            "seven", "eight", "nine", "stop", "left", "right", "turn", "pizza", "hello"]
ALT_EN = ["a", "the", "to", "and", "zero", "either", "read", "live"]     # have (2)/(3) variants in dict.txt
SHORT_EN = ["a", "i", "oh", "eh", "e"]                                   # single-phone words
WORDS_FR = ["avance", "de", "dix", "mètres", "recule", "un", "deux", "trois", "bonjour", "oui", "non"]


def vocab_for(lang):
    return (WORDS_FR, [], []) if lang == "fr-fr" else (WORDS_EN, ALT_EN, SHORT_EN)


ALT_EXPLICIT_EN = ["a(2)", "the(2)", "to(2)", "to(3)", "and(2)", "zero(2)", "either(2)", "read(2)", "live(2)", "was(2)", "an(2)"]


def pick_word(rng, lang, explicit_alt=False):
    """explicit_alt: the grammar itself may name a pronunciation variant `word(N)` of the dictionary (not in
    JSGF, where parentheses group); the hypothesis must still report its base form"""
    w, alt, short = vocab_for(lang)
    if explicit_alt and lang == "en-us" and rng.chance(0.15):
        return rng.choice(ALT_EXPLICIT_EN)
    r = rng.below(100)
    if alt and r < 14:
        return rng.choice(alt)
    if short and r < 22:
        return rng.choice(short)
    if r < 60:
        return rng.choice(w[:6])     # words of the recordings: decoding actually follows them
    return rng.choice(w)


def gen_expr(rng, lang, depth, rules, feats):
    """JSGF right-hand side (string); `rules` = names that may be referenced"""
    k = rng.weighted([("word", 34 + 14 * depth), ("seq", 22), ("alt", 16), ("opt", 10), ("star", 6), ("plus", 4),
                      ("ref", 6 if rules else 0), ("null", 3), ("walt", 3)])
    if depth >= 3 and k not in ("word", "ref", "null"):
        k = "word"
    if k == "word":
        return pick_word(rng, lang)
    feats[k] = feats.get(k, 0) + 1
    if k == "seq":
        return " ".join(gen_expr(rng, lang, depth + 1, rules, feats) for _ in range(rng.range(2, 4)))
    if k == "alt":
        return "( " + " | ".join(gen_expr(rng, lang, depth + 1, rules, feats) for _ in range(rng.range(2, 4))) + " )"
    if k == "walt":
        return "( " + " | ".join(f"/{rng.choice(['0.1', '0.5', '2', '0.0001'])}/ " + gen_expr(rng, lang, depth + 1, rules, feats)
                                 for _ in range(rng.range(2, 3))) + " )"
    if k == "opt":
        return "[ " + gen_expr(rng, lang, depth + 1, rules, feats) + " ]"
    if k == "star":
        return "( " + gen_expr(rng, lang, depth + 1, rules, feats) + " )*"
    if k == "plus":
        return "( " + gen_expr(rng, lang, depth + 1, rules, feats) + " )+"
    if k == "ref":
        return "<" + rng.choice(rules) + ">"
    return "<NULL>"


def gen_jsgf(rng, lang, feats):
    nr = rng.range(0, 3)
    names = [f"r{i}" for i in range(nr)]
    lines = ["#JSGF V1.0;", "grammar g;"]
    # sub-rules only refer to later ones (no recursion), except an optional right-recursive tail
    body = {}
    for i, nme in enumerate(names):
        e = gen_expr(rng, lang, 1, names[i + 1:], feats)
        if rng.chance(0.12):
            feats["rightrec"] = feats.get("rightrec", 0) + 1
            e = f"{pick_word(rng, lang)} | {pick_word(rng, lang)} <{nme}>"
        body[nme] = e
    top = gen_expr(rng, lang, 0, names, feats)
    if rng.chance(0.35):       # top rule starting with a group: a null arc leaves the start state (D24)
        feats["leading_group"] = feats.get("leading_group", 0) + 1
        top = "[ " + pick_word(rng, lang) + " ] " + top
    lines.append(f"public <top> = {top};")
    for nme in names:
        lines.append(f"<{nme}> = {body[nme]};")
    return "\n".join(lines) + "\n"


# words added to the dictionary (decoder_add_word with the pronunciation of the second word) in cases whose
# grammars name them: case variants of dictionary words and differently spelled homophones
# ("goe", "tenn" are homophones the dictionary already has)
ADDWORDS_EN = [("Go", "go"), ("Ten", "ten"), ("Forward", "forward"), ("Meters", "meters"), ("Two", "two"),
               ("metrez", "meters"), ("meterz", "meters"), ("tenz", "ten"), ("foreward", "forward")]
SENT_EN = ["go", "forward", "ten", "meters"]
# (all of these are also in tests/data/turtle.dic, the small dictionary of the test-suite)
OTHER_EN = {"go": ["halt", "stop"], "forward": ["backward", "four"], "ten": ["then", "two"], "meters": ["meter", "centimeters"]}
TURTLE_DIC = DATA / "turtle.dic"
_turtle = []


def turtle_words():
    if not _turtle:
        _turtle.append({l.split()[0] for l in TURTLE_DIC.read_text().split("\n") if l.strip()})
    return _turtle[0]


def gen_fsg_special(rng, feats):
    """FSG files aimed at what only hand-written FSG files can express (en-us, words of goforward.raw):
    casepair — two words that differ only in letter case (the capitalised one added to the dictionary);
    rejoin   — two different words with the same pronunciation leave DIFFERENT states and enter the SAME state
               (branches re-join without a null arc), so both exit in the same frame with the same last phone"""
    shape = rng.choice(["casepair", "rejoin", "rejoin"])
    feats["fsg_" + shape] = feats.get("fsg_" + shape, 0) + 1
    k = len(SENT_EN)
    if shape == "casepair":
        j = rng.below(k)
        cap = SENT_EN[j].capitalize()
        main = list(SENT_EN)
        first_cap = rng.chance(0.6)
        if not first_cap:
            main[j] = cap                     # the capitalised spelling is on the decoded path
        twin = cap if first_cap else SENT_EN[j]
        n, final = k + 2, k + 1
        side = f"TRANSITION {rng.choice([0, j])} {final} {rng.choice(['0.1', '0.5'])} {twin}"
        path = [f"TRANSITION {i} {i + 1} {rng.choice(['0.9', '1.0', '0.5'])} {w}" for i, w in enumerate(main)]
        path.append(f"TRANSITION {k} {final} 1.0")
        lines = [side] + path                 # the twin is seen first by the reader
        if rng.chance(0.3):
            lines = path + [side]
    else:
        j = rng.below(k - 1)                  # branch over the words j, j+1
        homo = {"meters": ["metrez", "meterz"], "ten": ["tenz"], "forward": ["foreward"]}[SENT_EN[j + 1]]
        n, final, extra = k + 2, k, k + 1
        lines = [f"TRANSITION {i} {i + 1} {rng.choice(['1.0', '0.5'])} {w}" for i, w in enumerate(SENT_EN)]
        lines.append(f"TRANSITION {j} {extra} {rng.choice(['0.5', '0.3', '1.0'])} {rng.choice(OTHER_EN[SENT_EN[j]])}")
        lines.append(f"TRANSITION {extra} {j + 2} {rng.choice(['1.0', '0.5'])} {rng.choice(homo)}")
        if rng.chance(0.3):                   # a further word into the same state
            lines.append(f"TRANSITION {extra} {j + 2} 0.5 {rng.choice(OTHER_EN[SENT_EN[j + 1]])}")
        rng.shuffle(lines)
    head = [f"FSG_BEGIN s{rng.below(1000)}", f"NUM_STATES {n}", "START_STATE 0", f"FINAL_STATE {final}"]
    return "\n".join(head + lines + ["FSG_END"]) + "\n"


def gen_fsg(rng, lang, feats):
    if lang == "en-us" and rng.chance(0.3):
        return gen_fsg_special(rng, feats)
    n = rng.range(1, 7)
    start, final = rng.below(n), rng.below(n)
    lines = [f"FSG_BEGIN g{rng.below(1000)}", f"NUM_STATES {n}", f"START_STATE {start}", f"FINAL_STATE {final}"]
    nt = rng.range(1, 3 * n + 2)
    shape = rng.weighted([("random", 5), ("nullchain", 3), ("unreachable", 1)])
    feats["fsg_" + shape] = feats.get("fsg_" + shape, 0) + 1
    if shape == "nullchain" and n >= 3:
        # a chain of null arcs start → … (closure has to supply the skips), words in between
        order = list(range(n))
        rng.shuffle(order)
        for a, b in zip(order, order[1:]):
            lines.append(f"TRANSITION {a} {b} {rng.choice(['1.0', '0.5', '0.01'])}")
            if rng.chance(0.6):
                lines.append(f"TRANSITION {a} {b} {rng.choice(['1.0', '0.3'])} {pick_word(rng, lang, True)}")
        if rng.chance(0.4):
            lines.append(f"TRANSITION {order[-1]} {order[0]} 0.5")      # null cycle
    for _ in range(nt):
        a, b = rng.below(n), rng.below(n)
        if shape == "unreachable" and b == final and final != start:
            continue
        p = rng.choice(["1.0", "0.5", "0.25", "0.001", "0.9"])
        if rng.chance(0.25):
            lines.append(f"TRANSITION {a} {b} {p}")
        else:
            lines.append(f"TRANSITION {a} {b} {p} {pick_word(rng, lang, True)}")
    lines.append("FSG_END")
    return "\n".join(lines) + "\n"


def gen_align(rng, lang, feats):
    k = rng.weighted([("true", 4), ("random", 5), ("repeat", 2), ("alt", 3), ("austen", 2)])
    feats["align_" + k] = feats.get("align_" + k, 0) + 1
    if k == "austen" and lang == "en-us":     # the 8 kHz recording's text, optionally with variants named explicitly
        return " ".join(w + "(2)" if w in ("was", "an") and rng.chance(0.6) else w
                        for w in "he was not an ill disposed young man".split())
    if k == "true":
        return "go forward ten meters" if lang == "en-us" else "avance de dix mètres"
    if k == "repeat":
        w = pick_word(rng, lang, True)
        return " ".join([w] * rng.range(2, 5))
    if k == "alt" and lang == "en-us":
        return " ".join(rng.choice(["a(2)", "the(2)", "to(3)", "go", "the"]) for _ in range(rng.range(1, 4)))
    sep = rng.choice([" ", "  ", "\t", " \n"])
    return rng.choice(["", " "]) + sep.join(pick_word(rng, lang, True) for _ in range(rng.range(1, 6))) + rng.choice(["", "\n"])


def word_swap(rng, lang):
    """a fixed-point-free renaming of the vocabulary (every word becomes a different word)"""
    w, alt, short = vocab_for(lang)
    allw = sorted(set(w + alt + short))
    k = rng.range(1, len(allw) - 1)
    return {x: allw[(i + k) % len(allw)] for i, x in enumerate(allw)}


def sibling_grammar(rng, lang, gram, stats):
    """a different grammar with the same name and the same number of states as `gram`: the same text with
    every word renamed (JSGF: same grammar/rule names; FSG: same FSG_BEGIN name, NUM_STATES, structure)"""
    m = word_swap(rng, lang)
    stats["features"]["sibling_" + gram["kind"]] = stats["features"].get("sibling_" + gram["kind"], 0) + 1
    if gram["kind"] == "align":
        toks = re.split(r"(\s+)", gram["text"])
        return {"kind": "align", "text": "".join(m.get(t, t) for t in toks)}
    out = []
    for line in gram["text"].split("\n"):
        if line.startswith(("#JSGF", "grammar ", "FSG_BEGIN", "NUM_STATES", "START_STATE", "FINAL_STATE", "FSG_END")):
            out.append(line)
        elif gram["kind"] == "fsg":
            t = line.split(" ")
            if len(t) == 5:
                t[4] = m.get(t[4], t[4])
            out.append(" ".join(t))
        else:
            out.append(" ".join(m.get(t, t) for t in line.split(" ")))
    return {"kind": gram["kind"], "text": "\n".join(out)}


def gen_multipublic(rng, stats):
    """a JSGF text with 2–3 PUBLIC rules whose languages are pairwise disjoint (they differ in one word position of the
    sentence of goforward.raw, acoustically close alternatives), so that activating the wrong rule is observable;
    returns (grammar, list of qualified rule names)"""
    gname = rng.choice(["g", "turtle", "cmd"])
    j = rng.below(len(SENT_EN))
    alts = [SENT_EN[j]] + OTHER_EN[SENT_EN[j]]
    if SENT_EN[j] == "meters":
        alts = ["meters", "meter", "centimeters"]
    rng.shuffle(alts)
    k = rng.range(2, 3)
    names = [f"r{i}" for i in range(k)]
    lines = ["#JSGF V1.0;", f"grammar {gname};"]
    pre = "[ " + pick_word(rng, "en-us") + " ] " if rng.chance(0.2) else ""
    for nme, w in zip(names, alts):
        words = list(SENT_EN)
        words[j] = w
        lines.append(f"public <{nme}> = {pre}{' '.join(words)};")
    if rng.chance(0.3):
        lines.append("<helper> = stop | halt;")
    stats["features"]["multipublic"] = stats["features"].get("multipublic", 0) + 1
    return {"kind": "jsgf", "text": "\n".join(lines) + "\n"}, [f"{gname}.{n}" for n in names]


def gen_install_case(rng, stats):
    """the grammar-installation dimension on ONE decoder: route ∈ {decoder_set_jsgf_string, decoder_set_jsgf_file,
    jsgf= / fsg= of the configuration at decoder_init, FSG object} × toprule ∈ {unset, each public rule by its
    qualified name, a bare rule name and a missing rule (both must be refused)}; every result is judged against the
    rule the configuration names, built from the JSGF text by the Lean model"""
    cfg = {}
    if rng.chance(0.3):
        cfg["lw"] = rng.choice(["1.0", "10"])
    stats.setdefault("model", {})
    stats["model"]["en-us"] = stats["model"].get("en-us", 0) + 1
    gram, rules = gen_multipublic(rng, stats)
    units = []
    n_units = rng.range(3, 5)
    for ui in range(n_units):
        if ui > 0 and rng.chance(0.25):
            gram, rules = gen_multipublic(rng, stats)
        top = rng.weighted([("unset", 2), ("rule", 7), ("bare", 1), ("missing", 1)])
        if top == "rule":
            t = rng.choice(rules)
        elif top == "bare":
            t = rng.choice(rules).split(".")[1]
        elif top == "missing":
            t = rules[0].split(".")[0] + ".nosuch"
        else:
            t = None
        route = rng.weighted([("string", 5), ("file", 3), ("config", 3 if ui == 0 else 0)])
        key = f"install_{route}_toprule_{top}"
        stats["features"][key] = stats["features"].get(key, 0) + 1
        nn = rng.choice([44580, 44580, rng.range(30000, 44580)])
        audio = [{"src": "goforward.raw", "a": 0, "b": nn}]
        stats["audio"]["install"] = stats["audio"].get("install", 0) + 1
        utts = [{"audio": audio, "plan": gen_plan(rng, nn, stats)}]
        units.append({"grammar": gram, "utts": utts, "install": route, "toprule": t})
    if rng.chance(0.4):      # an FSG file as well: through the configuration (first unit) or as an object, toprule still set
        g = {"kind": "fsg", "text": (DATA / rng.choice(["goforward.fsg", "goforward2.fsg"])).read_text()}
        u = {"grammar": g, "utts": [{"audio": [{"src": "goforward.raw"}], "plan": gen_plan(rng, 44580, stats)}]}
        if rng.chance(0.5):
            u["install"] = "config"
            units.insert(0, u)
            stats["features"]["install_config_fsg"] = stats["features"].get("install_config_fsg", 0) + 1
        else:
            units.append(u)
    return {"config": cfg, "lang": "en-us", "units": units}


UNKNOWN_WORDS = ["xyzzy", "qwertyuiop", "meterz", "go(9)", "forward(2)", "ten-meters", "zzz"]     # none is in en-us/dict.txt


def gen_refused_case(rng, stats):
    """error/recovery paths of the grammar-setting calls on ONE decoder: a grammar G is active, then one or more calls
    that the library must REFUSE (alignment text with an out-of-dictionary word at position 0..n, JSGF text that parses
    but names an out-of-dictionary word / has a syntax error / has no public rule, FSG file with an out-of-dictionary
    word / malformed), then decoding: every later result is judged against G (run_case keeps the reference of the last
    ACCEPTED call; the harness keeps its loaded-grammar block on a non-zero return), until a later accepted call."""
    f = stats["features"]
    stats.setdefault("model", {})
    stats["model"]["en-us"] = stats["model"].get("en-us", 0) + 1
    cfg = {}
    if rng.chance(0.25):
        cfg["lw"] = rng.choice(["1.0", "10"])
    if rng.chance(0.2):
        cfg.update(beam="1e-80", pbeam="1e-80", wbeam="1e-60")

    def good():
        k = rng.weighted([("align", 4), ("jsgf", 3), ("fsg", 3)])
        f["refused_family_active_" + k] = f.get("refused_family_active_" + k, 0) + 1
        if k == "align":
            return {"kind": "align", "text": rng.choice(["go forward ten meters", "go forward ten meters", "go forward ten",
                                                         "go backward ten meters", "forward ten meters"])}
        if k == "jsgf":
            return rng.choice([gen_multipublic(rng, stats)[0],
                               {"kind": "jsgf", "text": "#JSGF V1.0;\ngrammar t;\npublic <s> = go (forward | backward) ten [meters];\n"}])
        return {"kind": "fsg", "text": (DATA / rng.choice(["goforward.fsg", "goforward2.fsg"])).read_text()}

    def utt():
        nn = rng.choice([44580, 44580, rng.range(30000, 44580)])
        stats["audio"]["refused_family"] = stats["audio"].get("refused_family", 0) + 1
        return {"audio": [{"src": "goforward.raw", "a": 0, "b": nn}], "plan": gen_plan(rng, nn, stats)}

    def bad_words():
        # a word sequence with exactly one out-of-dictionary word at position k (0 = first … n = last)
        base = list(SENT_EN) if rng.chance(0.6) else [pick_word(rng, "en-us") for _ in range(rng.range(1, 6))]
        n = rng.range(1, len(base))
        k = rng.weighted([(0, 2), (1, 3), (2, 3), (n - 1, 2)])
        k = min(k, n - 1)
        ws = base[:n]
        ws[k] = rng.choice(UNKNOWN_WORDS)
        if rng.chance(0.3):                       # the known prefix alone is NOT the active sentence's prefix
            ws = [pick_word(rng, "en-us") for _ in range(k)] + ws[k:]
        return ws, k

    def refused():
        k = rng.weighted([("align_unknown", 6), ("jsgf_oov", 3), ("fsg_oov", 3), ("jsgf_syntax", 1), ("jsgf_nopublic", 1),
                          ("fsg_malformed", 1)])
        if k == "align_unknown":
            ws, pos = bad_words()
            key = f"refused_align_unknown_word_at_position_{pos if pos < 3 else '3plus'}"
            f[key] = f.get(key, 0) + 1
            return {"kind": "align", "text": rng.choice([" ", "  ", "\t"]).join(ws)}
        f["refused_" + k] = f.get("refused_" + k, 0) + 1
        if k == "jsgf_oov":
            ws, _ = bad_words()
            return {"kind": "jsgf", "text": f"#JSGF V1.0;\ngrammar r;\npublic <s> = {' '.join(w.replace('(', '_').replace(')', '').replace('-', '_') for w in ws)};\n"}
        if k == "fsg_oov":
            ws, _ = bad_words()
            lines = ["FSG_BEGIN r", f"NUM_STATES {len(ws) + 1}", "START_STATE 0", f"FINAL_STATE {len(ws)}"]
            lines += [f"TRANSITION {i} {i + 1} 1.0 {w}" for i, w in enumerate(ws)]
            return {"kind": "fsg", "text": "\n".join(lines + ["FSG_END"]) + "\n"}
        if k == "jsgf_syntax":
            return {"kind": "jsgf", "text": "#JSGF V1.0;\ngrammar r;\npublic <s> = go ( forward ten;\n"}
        if k == "jsgf_nopublic":
            return {"kind": "jsgf", "text": "#JSGF V1.0;\ngrammar r;\n<s> = go forward;\n"}
        return {"kind": "fsg", "text": "FSG_BEGIN r\nNUM_STATES 2\nSTART_STATE 0\nFINAL_STATE 1\nTRANSITION 0 5 1.0 go\nFSG_END\n"}

    units = [{"grammar": good(), "utts": [utt()] if rng.chance(0.5) else []}]
    for _ in range(rng.weighted([(1, 5), (2, 3), (3, 1)])):
        g = refused()
        u = {"grammar": g, "utts": [utt() for _ in range(rng.weighted([(1, 6), (2, 2), (0, 1)]))], "expect_refused": True}
        if g["kind"] == "jsgf" and rng.chance(0.3):
            u["install"] = "file"
        units.append(u)
    if not any(u["utts"] for u in units[1:]):
        units[-1]["utts"] = [utt()]
    if rng.chance(0.35):                           # … and an accepted switch afterwards
        units.append({"grammar": good(), "utts": [utt()]})
    return {"config": cfg, "lang": "en-us", "units": units}


# word → (first sample, end sample) of that word in goforward.raw (frames 46–63, 64–116, 117–152, 153–210 of the
# alignment of "go forward ten meters", 160 samples per frame)
GOFORWARD_WORD_SPANS = {"go": (7360, 10240), "forward": (10240, 18720), "ten": (18720, 24480), "meters": (24480, 33760)}
LONG_COUNTS_QUICK = [129, 255, 256, 300, 513]
LONG_COUNTS_THOROUGH = [63, 64, 65, 127, 128, 129, 255, 256, 257, 258, 300, 511, 512, 513, 700, 1023, 1024, 1025, 2049]


def gen_long_case(rng, stats, thorough, idx):
    """results with MANY words (the word count crosses 64, 128, 256, 512, 1024 …: fixed-size buffers, 8/16-bit counters):
    a phrase cut out of goforward.raw repeated N times, decoded against the alignment text of N phrases, a JSGF text or
    an FSG file that loops over the phrase; every quick run has a 257-word result.  Hypothesis string, segmentation,
    model backtrace and grammar acceptance are judged as for every other case."""
    f = stats["features"]
    stats.setdefault("model", {})
    stats["model"]["en-us"] = stats["model"].get("en-us", 0) + 1
    cfg = {}
    if rng.chance(0.2):
        cfg["fsgusefiller"] = "no"
    counts = [257] if idx == 0 else []
    pool = LONG_COUNTS_THOROUGH if thorough else LONG_COUNTS_QUICK
    while len(counts) < (3 if thorough else 2):
        counts.append(rng.choice(pool))
    units = []
    for n in counts:
        phrase = rng.weighted([(("go",), 6), (("ten",), 2), (("go", "forward"), 2), (("forward", "ten"), 1),
                               (("go", "forward", "ten", "meters"), 1)])
        if n > (600 if thorough else 300):
            phrase = ("go",)                      # the shortest word (18 frames) for the longest results
        reps = (n + len(phrase) - 1) // len(phrase)
        words = (list(phrase) * reps)[:n]
        pieces = [{"src": "goforward.raw", "a": GOFORWARD_WORD_SPANS[w][0], "b": GOFORWARD_WORD_SPANS[w][1]} for w in words]
        kind = rng.weighted([("align", 6), ("jsgf_loop", 2), ("fsg_loop", 2)])
        if kind == "align":
            gram = {"kind": "align", "text": " ".join(words)}
        elif kind == "jsgf_loop":
            gram = {"kind": "jsgf", "text": f"#JSGF V1.0;\ngrammar loop;\npublic <s> = ( {' '.join(phrase)} )+ [ {phrase[0]} ];\n"}
        else:
            m = len(phrase)
            lines = ["FSG_BEGIN loop", f"NUM_STATES {m + 1}", "START_STATE 0", f"FINAL_STATE {m}"]
            lines += [f"TRANSITION {i} {i + 1} 1.0 {w}" for i, w in enumerate(phrase)] + [f"TRANSITION {m} 0 0.9"]
            gram = {"kind": "fsg", "text": "\n".join(lines + ["FSG_END"]) + "\n"}
        key = f"long_{kind}_{n}_words"
        f[key] = f.get(key, 0) + 1
        stats["grammar"][gram["kind"]] = stats["grammar"].get(gram["kind"], 0) + 1
        stats["audio"]["long_repeated_phrase"] = stats["audio"].get("long_repeated_phrase", 0) + 1
        ns = sum(p["b"] - p["a"] for p in pieces)
        chunks = list(range(0, ns, MAXCALL))
        marks = {len(chunks) - 1 - rng.below(max(1, len(chunks) // 3))} if rng.chance(0.6) else set()
        plan = ["start"]
        for i, x in enumerate(chunks):
            plan.append(["proc", min(MAXCALL, ns - x), 0, 0, 0])
            if i in marks and i != len(chunks) - 1:
                plan.append(["dump", f"mid{i}"])
        plan += ["end", ["dump", "fin"]]
        stats["chunking"]["long_family_32000"] = stats["chunking"].get("long_family_32000", 0) + 1
        units.append({"grammar": gram, "utts": [{"audio": pieces, "plan": plan}]})
    return {"config": cfg, "lang": "en-us", "units": units}


def closer_families(c, stats, thorough):
    """families added in round 3 (own random stream, so that the cases of the older families keep their seeds):
    refused grammar switches followed by decoding, and results whose word count crosses 256"""
    rng = vlib.Rng(c.seed * 7919 + 101)
    out = []
    for k in range(4 if not thorough else 80):
        out.append((f"refuse{k}", gen_refused_case(rng, stats)))
    for k in range(1 if not thorough else 6):
        out.append((f"long{k}", gen_long_case(rng, stats, thorough, k)))
    return out


def closer_report(c, cases, results):
    """measured coverage of the two round-3 families + the generator obligations that keep them from being vacuous"""
    ref = {"cases": 0, "calls_expected_to_be_refused": 0, "of_them_refused_by_the_library": 0,
           "results_judged_after_a_refused_call": 0, "of_them_with_a_hypothesis": 0}
    lng = {"cases": 0, "final_results_by_word_count": {}, "partial_results_over_256_words": 0, "max_words": 0}
    accepted_bad = []
    for tag, cs in cases:
        r = results.get(tag)
        if r is None or r["crash"]:
            continue
        exp = [bool(u.get("expect_refused")) for u in cs["units"]]
        if any(exp):
            ref["cases"] += 1
            ref["calls_expected_to_be_refused"] += sum(exp)
            # r["loaded"]: one flag per grammar-setting call, in unit order (a config-installed first unit comes first too)
            for ui, (e, ok) in enumerate(zip(exp, r["loaded"])):
                if e and not ok:
                    ref["of_them_refused_by_the_library"] += 1
                elif e and ok:
                    accepted_bad.append({"case": tag, "unit": ui, "grammar": cs["units"][ui]["grammar"]})
            first = exp.index(True)
            later_ok = next((i for i in range(first, len(exp)) if not exp[i]), len(exp))
            for inf in r["infos"]:
                m = re.match(r"u(\d+)t", inf["tag"])
                if m and first <= int(m.group(1)) < later_ok:
                    ref["results_judged_after_a_refused_call"] += 1
                    ref["of_them_with_a_hypothesis"] += 1 if inf["hyp"] else 0
        if tag.startswith(("long", "corpus-long")):
            lng["cases"] += 1
            for inf in r["infos"]:
                nw = len((inf["hyp"] or "").split())
                lng["max_words"] = max(lng["max_words"], nw)
                if inf["final"] and nw:
                    b = "<=64" if nw <= 64 else "65-128" if nw <= 128 else "129-256" if nw <= 256 else "257-512" if nw <= 512 else ">512"
                    lng["final_results_by_word_count"][b] = lng["final_results_by_word_count"].get(b, 0) + 1
                elif nw > 256:
                    lng["partial_results_over_256_words"] += 1
    c.oblige("generator: refused grammar-setting calls (out-of-dictionary word in an alignment text / JSGF / FSG, malformed text) "
             "were followed by decoded utterances whose results were judged against the grammar of the last accepted call",
             ref["results_judged_after_a_refused_call"] > 0 and ref["of_them_with_a_hypothesis"] > 0, ref)
    c.oblige("every grammar text with an out-of-dictionary word / malformed text drawn by the refused-call family was refused",
             not accepted_bad, accepted_bad[:3])
    over = sum(v for k, v in lng["final_results_by_word_count"].items() if k in ("257-512", ">512"))
    c.oblige("generator: a final result of more than 256 words was produced and judged in this run", over > 0, lng)
    tie = {}
    for tag, cs in cases:
        for k, v in (results.get(tag) or {}).get("gs_tie", {}).items():
            tie[k] = tie.get(k, 0) + v
    c.cov.update({"refused_grammar_switch_family": ref, "long_result_family": lng,
                  "grammar_setting_calls_replayed_on_Model/GrammarSet (return value + active grammar at every dump)": tie})


def gen_grammar(rng, lang, stats):
    kind = rng.weighted([("jsgf", 6), ("fsg", 3), ("align", 2)])
    stats["grammar"][kind] = stats["grammar"].get(kind, 0) + 1
    if kind == "jsgf":
        return {"kind": "jsgf", "text": gen_jsgf(rng, lang, stats["features"])}
    if kind == "fsg":
        return {"kind": "fsg", "text": gen_fsg(rng, lang, stats["features"])}
    return {"kind": "align", "text": gen_align(rng, lang, stats["features"])}


# ---------------------------------------------------------------------------------------------
# configurations and call plans

def gen_config(rng, stats, thorough):
    cfg = {}
    lang = "fr-fr" if (thorough and rng.chance(0.15)) else "en-us"
    stats.setdefault("model", {})
    stats["model"][lang] = stats["model"].get(lang, 0) + 1
    if lang != "en-us":
        cfg["hmm"] = str(MODEL / lang)
    b = rng.weighted([("default", 5), ("wide", 2), ("narrow", 3), ("verynarrow", 3), ("maxhmm", 2)])
    stats["beam"][b] = stats["beam"].get(b, 0) + 1
    if b == "wide":
        cfg.update(beam="1e-80", pbeam="1e-80", wbeam="1e-60")
    elif b == "narrow":
        v = rng.choice(["1e-10", "1e-6", "1e-4"])
        cfg.update(beam=v, pbeam=v, wbeam=rng.choice([v, "1e-3"]))
    elif b == "verynarrow":
        v = rng.choice(["1e-2", "0.5", "1e-1", "1"])
        cfg.update(beam=v, pbeam=rng.choice([v, "1e-48"]), wbeam=rng.choice([v, "7e-29", "1"]))
    elif b == "maxhmm":
        cfg["maxhmmpf"] = str(rng.choice([1, 3, 10, 50]))
    if rng.chance(0.15):
        cfg["fsgusefiller"] = "no"
    if rng.chance(0.15):
        cfg["fsgusealtpron"] = "no"
    if rng.chance(0.2):
        cfg["lw"] = rng.choice(["1.0", "10", "0.5"])
    if rng.chance(0.2):
        cfg["wip"] = rng.choice(["0.1", "1.0", "1e-4"])
    if rng.chance(0.15):
        cfg["silprob"] = rng.choice(["0.5", "1e-6", "1.0"])
    if rng.chance(0.1):
        cfg["fillprob"] = rng.choice(["0.1", "1e-3"])
    if rng.chance(0.15):
        cfg["compallsen"] = "yes"
    if rng.chance(0.2):
        cfg["cmn"] = rng.choice(["batch", "none", "live"])
    r = rng.below(100)
    if r < 10:
        cfg["samprate"] = "8000"
    elif r < 14:
        cfg["samprate"] = "11025"
    r = rng.below(100)
    if r < 7:
        cfg["frate"] = "50"
    elif r < 12:
        cfg["frate"] = "200"
    elif r < 15:
        cfg["frate"] = "125"
    for k in ("samprate", "frate"):
        if k in cfg:
            stats["rates"][k + "=" + cfg[k]] = stats["rates"].get(k + "=" + cfg[k], 0) + 1
    return cfg, lang


MAXCALL = 32000


def gen_plan(rng, nsamp, stats, stream=False):
    """call sequence of one utterance: list of ops; stream = every call searches, no full-utterance mode"""
    ops = ["start"]
    if rng.chance(0.25):
        ops.append(["dump", "zero"])
    style = rng.weighted([("one", 4), ("full", 0 if stream else 2), ("fixed", 4), ("random", 4), ("tinyhead", 2),
                          ("nosearch", 0 if stream else 2)])
    stats["chunking"][style] = stats["chunking"].get(style, 0) + 1
    f32 = 1 if rng.chance(0.25) else 0
    chunks = []
    if style == "full" and nsamp > MAXCALL:
        style = "one"
    if style == "full":
        chunks = [(nsamp, 0, 1)]
    elif style == "one":      # as few calls as the stale int16 assert of the front end allows (D9, C06's subject)
        chunks = [(min(MAXCALL, nsamp - a), 0, 0) for a in range(0, nsamp, MAXCALL)] or [(0, 0, 0)]
    elif style == "fixed":
        c = rng.choice([160, 256, 512, 1024, 2048, 4000, 8192, 409, 411])
        chunks = [(c, 0, 0)] * ((nsamp + c - 1) // c)
    elif style == "random":
        left = nsamp
        while left > 0:
            c = min(left, rng.range(1, rng.choice([300, 3000, 12000])))
            chunks.append((c, 0, 0))
            left -= c
    elif style == "tinyhead":
        left = nsamp
        for _ in range(rng.range(5, 60)):
            if left <= 0:
                break
            c = min(left, rng.range(1, 90))
            chunks.append((c, 0, 0))
            left -= c
        while left > 0:
            c = min(left, rng.range(500, 9000))
            chunks.append((c, 0, 0))
            left -= c
    else:   # some calls only buffer features (no_search), a later searching call catches up
        left = nsamp
        while left > 0:
            c = min(left, rng.range(200, 6000))
            chunks.append((c, 1 if rng.chance(0.5) else 0, 0))
            left -= c
    if nsamp == 0 and rng.chance(0.5):
        chunks = [(0, 0, 0)]
    ndump = rng.weighted([(0, 2), (1, 4), (2, 3), (3, 1)])
    marks = set(rng.below(max(1, len(chunks))) for _ in range(ndump))
    # result accessors between processing calls (decoder_alignment re-runs a state-alignment pass over the frames
    # searched so far and must put the acoustic-model counters back; JSON / lattice / hyp / seg only read)
    npoll = rng.weighted([(0, 5), (1, 3), (2, 2), (4, 1)])
    polls = {}
    for _ in range(npoll):
        polls.setdefault(rng.below(max(1, len(chunks))), []).append(
            rng.weighted([("align", 5), ("json0", 2), ("json1", 2), ("json2", 1), ("lattice", 1), ("hyp", 1), ("seg", 1)]))
    if npoll:
        stats["chunking"]["with_mid_utterance_polls"] = stats["chunking"].get("with_mid_utterance_polls", 0) + 1
    for i, (c, ns, fu) in enumerate(chunks):
        ops.append(["proc", c, ns, fu, f32])
        if i != len(chunks) - 1:
            for what in polls.get(i, []):
                ops.append(["poll", what])
                stats["polls"] = stats.get("polls", {})
                stats["polls"]["mid_" + what] = stats["polls"].get("mid_" + what, 0) + 1
        if i in marks and i != len(chunks) - 1:
            ops.append(["dump", f"mid{i}"])
    # a query right before decoder_end_utt: in full-utterance mode (and whenever the last call leaves nothing
    # to search) end_utt adds no frame, so the "partial" and the "final" query see the same frame count
    if chunks and (style == "full" or rng.chance(0.45)):
        ops.append(["dump", "preend"])
    ops.append("end")
    if rng.chance(0.2):
        what = rng.choice(["align", "json1", "json0", "lattice"])
        ops.append(["poll", what])
        stats["polls"] = stats.get("polls", {})
        stats["polls"]["final_" + what] = stats["polls"].get("final_" + what, 0) + 1
    ops.append(["dump", "fin"])
    if rng.chance(0.2):
        ops.append(["dump", "fin2"])      # asking twice must not change the answer
    return ops


def gen_case(rng, stats, thorough):
    cfg, lang = gen_config(rng, stats, thorough)
    units = []
    # "siblings": several DIFFERENT grammars on one decoder that share name and state count, decoded on the
    # same audio — every utterance is judged against the grammar set for THAT utterance
    siblings = rng.chance(0.3)
    stats["features"]["sibling_cases"] = stats["features"].get("sibling_cases", 0) + (1 if siblings else 0)
    nunits = rng.weighted([(2, 5), (3, 3), (4, 1)]) if siblings else rng.weighted([(1, 6), (2, 3), (3, 1)])
    shared_audio = None
    for ui in range(nunits):
        if siblings and ui > 0:
            gram = sibling_grammar(rng, lang, units[0]["grammar"], stats) if rng.chance(0.8) else units[0]["grammar"]
        else:
            gram = gen_grammar(rng, lang, stats)
        utts = []
        for _ in range(rng.weighted([(1, 7), (2, 2)])):
            if siblings and shared_audio is not None and rng.chance(0.8):
                audio = shared_audio
            else:
                audio = gen_audio(rng, int(cfg.get("samprate", 16000)), stats, int(cfg.get("frate", 100)))
            if siblings and shared_audio is None:
                shared_audio = audio
            n = len(render_audio(audio)) // 2
            utts.append({"audio": audio, "plan": gen_plan(rng, n, stats, stream=audio[0].get("kind") == "wrap128")})
        if gram["kind"] == "fsg" and gram["text"].startswith("FSG_BEGIN s") and int(cfg.get("samprate", 16000)) == 16000:
            # the special FSG shapes speak the words of goforward.raw: decode it (whole or cut near its end), streamed
            for t in utts:
                if rng.chance(0.8):
                    nn = rng.choice([44580, rng.range(31000, 36000), rng.range(15000, 44580)])
                    t["audio"] = [{"src": "goforward.raw", "a": 0, "b": nn}]
                    t["plan"] = gen_plan(rng, nn, stats, stream=True)
        units.append({"grammar": gram, "utts": utts})
        if gram["kind"] == "jsgf" and rng.chance(0.25):
            units[-1]["install"] = "file"          # decoder_set_jsgf_file instead of decoder_set_jsgf_string
        if rng.chance(0.12):
            units[-1]["prestart"] = True      # ask for a result before the first decoder_start_utt
    case = {"config": cfg, "lang": lang, "units": units}
    added = {w for w, _ in ADDWORDS_EN}
    if lang == "en-us" and any(added & set(u["grammar"]["text"].split()) for u in units):
        case["addwords"] = [list(x) for x in ADDWORDS_EN]
    # a different dictionary (other word ids, other lextree order) when every grammar word is in it or added to it
    if lang == "en-us" and all(u["grammar"]["kind"] in ("fsg", "align") for u in units):
        words = set()
        for u in units:
            g = u["grammar"]
            if g["kind"] == "align":
                words |= set(g["text"].split())
            else:
                words |= {t.split()[4] for t in g["text"].split("\n") if t.startswith("TRANSITION") and len(t.split()) > 4}
        if words <= (turtle_words() | added) and rng.chance(0.6):
            cfg["dict"] = "@DATA/turtle.dic"
            stats["features"]["dict_turtle"] = stats["features"].get("dict_turtle", 0) + 1
    return case


SMALL_N = [0, 1, 200, 409, 410, 411, 569, 570, 729, 730, 889, 890]     # 0,1,1,1,2,2,2,3,3,4,4,5 frames at 410/160


def gen_small_case(rng, stats):
    """utterances of 0–4 (and 5) frames, every count in every run (C03_T0 … C03_T2_T3; the neighbourhood of
    D8/D62/D66: first call without a frame, start padding applied at end_utt, feature window longer than the
    utterance), on ONE decoder with the default rates, in every calling mode"""
    cfg = {}
    if rng.chance(0.4):
        cfg["cmn"] = rng.choice(["batch", "none", "live"])
    if rng.chance(0.3):
        cfg["compallsen"] = "yes"
    stats.setdefault("model", {})
    stats["model"]["en-us"] = stats["model"].get("en-us", 0) + 1
    units = []
    ns = list(SMALL_N)
    rng.shuffle(ns)
    per = [ns[:4], ns[4:8], ns[8:]]
    for group in per:
        gram = gen_grammar(rng, "en-us", stats)
        utts = []
        for n in group:
            a = rng.range(8000, 30000)
            audio = [{"src": "goforward.raw", "a": a, "b": a + n, "kind": "small"}]
            stats["audio"]["small"] = stats["audio"].get("small", 0) + 1
            mode = rng.weighted([("one", 3), ("head", 3), ("shift", 2), ("full", 2), ("nosearch", 2), ("tiny", 2)])
            stats["chunking"]["small_" + mode] = stats["chunking"].get("small_" + mode, 0) + 1
            f32 = 1 if rng.chance(0.3) else 0
            ops = ["start"]
            if rng.chance(0.5):
                ops.append(["dump", "zero"])
            if mode == "one" or n == 0:
                chunks = [(n, 0, 0)]
            elif mode == "head":       # a first call too short to yield a frame, then the rest
                h = min(n, rng.choice([1, 100, 159, 160, 409]))
                chunks = [(h, 0, 0)] + ([(n - h, 0, 0)] if n > h else [])
            elif mode == "shift":
                chunks = [(min(160, n - x), 0, 0) for x in range(0, n, 160)]
            elif mode == "full":
                chunks = [(n, 0, 1)]
            elif mode == "nosearch":
                h = n // 2
                chunks = [(h, 1, 0), (n - h, 1 if rng.chance(0.5) else 0, 0)]
            else:
                chunks, left = [], n
                while left > 0:
                    c = min(left, rng.range(1, 120))
                    chunks.append((c, 0, 0))
                    left -= c
            for i, (c, nsr, fu) in enumerate(chunks):
                ops.append(["proc", c, nsr, fu, f32])
                if rng.chance(0.25) and i != len(chunks) - 1:
                    ops.append(["dump", f"mid{i}"])
            if rng.chance(0.6):
                ops.append(["dump", "preend"])
            ops += ["end", ["dump", "fin"]]
            utts.append({"audio": audio, "plan": ops})
        units.append({"grammar": gram, "utts": utts})
    return {"config": cfg, "lang": "en-us", "units": units}


# ---------------------------------------------------------------------------------------------
# running one case: harness → dump blocks → driver → judgement

def hx(s):
    b = s.encode() if isinstance(s, str) else s
    return "-" if not b else b.hex()


def unit_install(case, ui):
    """how unit ui's grammar is installed: "string" (decoder_set_jsgf_string) | "file" (decoder_set_jsgf_file) |
    "config" (jsgf= / fsg= key of the configuration handed to decoder_init; first unit only) | "object"
    (fsg_model_readfile + decoder_set_fsg) | "align" (decoder_set_align_text)"""
    u = case["units"][ui]
    k = u["grammar"]["kind"]
    inst = u.get("install")
    if k == "align":
        return "align"
    if inst == "config" and ui == 0:
        return "config"
    if k == "fsg":
        return "object"
    return "file" if inst == "file" else "string"


def toprule_plan(case):
    """toprule in force when each unit's grammar is installed: the configuration's value until a unit changes it
    (key "toprule" in the unit: a name, or None = unset again)"""
    cur, out = case["config"].get("toprule"), []
    for u in case["units"]:
        if "toprule" in u:
            cur = u["toprule"]
        out.append(cur)
    return out


def case_ops(case, scratch, tag):
    cfg = dict(case["config"])
    tops = toprule_plan(case)
    if case["units"] and unit_install(case, 0) == "config":
        g0 = case["units"][0]["grammar"]
        p0 = scratch / (f"{tag}-u0." + ("gram" if g0["kind"] == "jsgf" else "fsg"))
        p0.write_bytes(g0["text"].encode())
        cfg["jsgf" if g0["kind"] == "jsgf" else "fsg"] = str(p0)
        if tops[0] is not None:
            cfg["toprule"] = tops[0]
        else:
            cfg.pop("toprule", None)
    ops = ["newdec loglevel=FATAL " + " ".join(f"{k}={str(v).replace('@DATA', str(DATA))}" for k, v in sorted(cfg.items()))]
    cur_top = cfg.get("toprule")
    for neww, like in case.get("addwords", []):      # decoder_add_word(new, pronunciation of `like`)
        ops.append(f"addlike {hx(neww)} {hx(like)}")
    for ui, u in enumerate(case["units"]):
        g = u["grammar"]
        inst = unit_install(case, ui)
        for neww, like in u.get("addwords", []):     # vocabulary changed at run time BEFORE this unit's grammar is installed
            ops.append(f"addlike {hx(neww)} {hx(like)}")
        if inst != "config" and tops[ui] != cur_top:
            ops.append("setcfg toprule " + ("-" if tops[ui] is None else hx(tops[ui])))
            cur_top = tops[ui]
        if inst == "config":
            pass                                    # installed by decoder_init
        elif inst == "string":
            ops.append("jsgf " + hx(g["text"]))
        elif inst == "file":
            p = scratch / f"{tag}-u{ui}.gram"
            p.write_bytes(g["text"].encode())
            ops.append(f"jsgffile {p}")
        elif inst == "align":
            ops.append("align " + hx(g["text"]))
        else:
            p = scratch / f"{tag}-u{ui}.fsg"
            p.write_text(g["text"])
            ops.append(f"fsgfile {p}")
        for neww, like in u.get("postwords", []):    # … and AFTER it (decoder_add_word with update: the search is re-initialised)
            ops.append(f"addlike {hx(neww)} {hx(like)}")
        if u.get("prestart"):
            ops.append(f"dump u{ui}prestart")
        for ti, t in enumerate(u["utts"]):
            p = scratch / f"{tag}-u{ui}-t{ti}.raw"
            p.write_bytes(render_audio(t["audio"]))
            ops.append(f"audio {p}")
            for op in t["plan"]:
                if isinstance(op, str):
                    ops.append(op)
                elif op[0] == "dump":
                    ops.append(f"dump u{ui}t{ti}{op[1]}")
                else:
                    ops.append(" ".join(str(x) for x in op))
    return ops


def parse_fsg_text(text):
    """the grammar an FSG file denotes, read here and NOT through fsg_model_readfile (the format: FSG_BEGIN [name],
    N/NUM_STATES n, S/START_STATE s, F/FINAL_STATE f, T/TRANSITION from to prob [word], FSG_END, '#' comments).
    Returns (start, final, nstate, arcs) with arcs = [(from, to, word or None)]; null arcs are closed transitively
    (same language; the loader stores the closure), null self-loops dropped."""
    start = final = n = None
    arcs, inside = [], False
    for line in text.split("\n"):
        t = line.split()
        if not t or t[0].startswith("#"):
            continue
        if t[0] == "FSG_BEGIN":
            inside = True
        elif not inside:
            continue
        elif t[0] == "FSG_END":
            break
        elif t[0] in ("N", "NUM_STATES"):
            n = int(t[1])
        elif t[0] in ("S", "START_STATE"):
            start = int(t[1])
        elif t[0] in ("F", "FINAL_STATE"):
            final = int(t[1])
        elif t[0] in ("T", "TRANSITION"):
            arcs.append((int(t[1]), int(t[2]), t[4] if len(t) > 4 else None))
    nulls = {(a, b) for a, b, w in arcs if w is None and a != b}
    changed = True
    while changed:
        changed = False
        for a, b in list(nulls):
            for c, d in list(nulls):
                if b == c and a != d and (a, d) not in nulls:
                    nulls.add((a, d))
                    changed = True
    words = []
    for a, b, w in arcs:
        if w is not None and (a, b, w) not in words:
            words.append((a, b, w))
    return start, final, n, words + [(a, b, None) for a, b in sorted(nulls)]


def dict_base_rule(w):
    """dict_word2basestr: a trailing "(…)" is a pronunciation-variant marker"""
    if w.endswith(")") and "(" in w[1:]:
        return w[:w.rindex("(")]
    return w


def loaded_block_from_text(text, blk):
    """G… lines (the grammar as loaded) for an FSG file, from its text; base forms as the dump's search vocabulary
    gives them (dict_basestr computed by the harness), else by the dictionary's marker rule"""
    start, final, n, arcs = parse_fsg_text(text)
    base = {}
    for l in blk:
        if l.startswith("SW "):
            t = l.split()
            if t[5] != "null":
                base[unhex(t[2])] = unhex(t[5])
    vocab = []
    for _, _, w in arcs:
        if w is not None and w not in vocab:
            vocab.append(w)
    out = [f"GF {start} {final} {n} {len(vocab)}"]
    for i, w in enumerate(vocab):
        out.append(f"GW {i} {hx(w)} 0 0 {hx(base.get(w, dict_base_rule(w)))}")
    for i, (a, b, w) in enumerate(arcs):
        out.append(f"GA {i} {a} {b} 0 {-1 if w is None else vocab.index(w)}")
    return out


def parse_harness(out):
    """-> list of events: ('cmd', name, reply-words) and ('dump', tag, header, lines)"""
    ev, lines, i = [], out.split("\n"), 0
    while i < len(lines):
        l = lines[i]
        if l.startswith("> "):
            name = l[2:].strip()
            if name == "dump":
                j = i + 1
                blk = []
                while j < len(lines) and not lines[j].startswith("D end") and not lines[j].startswith("> "):
                    blk.append(lines[j])
                    j += 1
                if j < len(lines) and lines[j].startswith("D end"):
                    blk.append(lines[j])
                    ev.append(("dump", blk[0].split()[2] if blk and blk[0].startswith("D begin") else "?", blk))
                    i = j + 1
                    continue
                ev.append(("crash", "dump", blk))
                i = j
                continue
            rep = lines[i + 1].split() if i + 1 < len(lines) and not lines[i + 1].startswith("> ") else None
            if not rep or rep[0] != name:
                rep = None          # crashed before answering, or refused ("nodec", "bad-op")
            ev.append(("cmd", name, rep))
            i += 2 if rep is not None else 1
            continue
        i += 1
    return ev


def parse_driver(out):
    blocks, cur = [], None
    for l in out.split("\n"):
        w = l.split()
        if len(w) < 2 or w[0] != "R":
            continue
        if w[1] == "begin":
            cur = {"tag": w[2] if len(w) > 2 else "", "X": []}
        elif cur is None:
            continue
        elif w[1] == "end":
            blocks.append(cur)
            cur = None
        elif w[1] == "X":
            cur["X"].append(w[2:])
        elif w[1] == "jrule":
            cur.setdefault("jrules", []).append(w[2:])
        else:
            cur[w[1]] = w[2:]
    return blocks


def unhex(t):
    if t in ("-", ""):
        return ""
    if t == "null":
        return None
    return bytes.fromhex(t).decode("utf-8", "replace")


def judge_hyp_block(blk, drv, p1):
    """c01hyp — byte level of fsg_search_hyp (Model/HypBuf.lean, Props/C01Hyp.lean): the harness line
    `HB <allocated size> <strlen> <hex of the whole allocated block> st37=<n>` against the driver's
    `R HB ok <len> <block> <final c> <#stores> <each byte 0..len-2 stored once> <no NUL in a word> <cstr = words joined>`.
    -> info dict (None: nothing to compare)"""
    HB = [l.split() for l in blk if l.startswith("HB ")]
    m = drv.get("HB")
    if not HB or not m:
        return None
    h = HB[0]
    out = {"compared": False, "alloc_known": False}
    if m[0] == "fail":
        p1.append(("byte-level model of fsg_search_hyp: a store left the block (excluded by C01_hyp_no_store_out_of_bounds)", False,
                   {"model": " ".join(m)}))
        return out
    if (h[1] == "null") != (m[0] == "null"):
        p1.append(("fsg_search_hyp returned NULL / a string where the byte-level model returns the other", False,
                   {"impl": h[1:3], "model": m[:2]}))
        return out
    if h[1] == "null":
        return out
    mlen, mbuf, mc, mst, once, nonul, cok = int(m[1]), m[2], int(m[3]), int(m[4]), m[5], m[6], m[7]
    out.update(compared=True, len=mlen)
    if not (mc == 0 and mst == mlen - 1 and once == "1" and cok == "1" and len(mbuf) == 2 * mlen and mbuf.endswith("00")):
        p1.append(("byte-level model of fsg_search_hyp: block not exactly filled (excluded by C01_hyp_block_exact)", False, {"model": " ".join(m)[:400]}))
    if nonul != "1":
        p1.append(("hypothesis of C01_hyp_cstring false: a dumped word contains a NUL byte", False, {}))
    if int(h[2]) != mlen - 1:
        p1.append(("strlen of the returned hypothesis string ≠ len - 1 of the byte-level model", False,
                   {"impl_strlen": int(h[2]), "model_len": mlen, "impl_block": h[3][:400], "model_block": mbuf[:400]}))
    if h[1] != "-":
        out["alloc_known"] = True
        st = next((x for x in h[4:] if x.startswith("st37=")), "st37=?")
        if st != "st37=37":
            p1.append(("self-test of the allocation-size observer failed (calloc(1, 37) must report 37)", False, {"got": st}))
        if int(h[1]) != mlen:
            p1.append(("allocated size of the returned hypothesis string ≠ Σ(strlen(word) + 1) (byte-level model)", False,
                       {"impl_alloc": int(h[1]), "impl_strlen": int(h[2]), "model_len": mlen, "impl_block": h[3][:400], "model_block": mbuf[:400]}))
        elif h[3] != mbuf:
            p1.append(("bytes of the block holding the returned hypothesis string differ from the byte-level model", False,
                       {"impl_block": h[3][:400], "model_block": mbuf[:400]}))
    return out


def judge_dump(blk, drv, nfoff):
    """-> (problems_c01, problems_c03, info).  Each problem: (kind, impl_violates: bool, detail)"""
    p1, p3 = [], []
    head = blk[0].split()
    final, cur, nfr = head[3] == "1", int(head[4]), int(head[5])
    H = [l.split() for l in blk if l.startswith("H ")]
    X = [l.split()[1:] for l in blk if l.startswith("X ")]
    rh = H[0][1] if H else "?"
    rscore = H[0][2] if H else "?"
    info = {"final": final, "frames": cur, "entries": int(head[6]), "hyp": unhex(rh) if H else None, "nseg": len(X),
            "nullsegs": sum(1 for x in X if unhex(x[1]) == "(NULL)"),
            "leading_null": bool(X) and unhex(X[0][1]) == "(NULL)",
            # C03: how far before the last frame searched the segmentation ends (the tiling predicate bounds it by
            # `ef < frames searched`; it does not demand that the last segment reaches the last frame)
            "last_ef_gap": (cur - 1 - max(int(x[3]) for x in X)) if X and cur > 0 else None}
    g = lambda k, i=0: (drv.get(k) or ["?"] * (i + 1))[i]
    if int(head[6]) == 0:
        # history table still empty (result requested before the first decoder_start_utt after a grammar load)
        if rh != "null" or X:
            d = ("a result was returned from an empty history table", True, {"hyp": unhex(rh), "segments": len(X)})
            p1.append(d)
            p3.append(d)
    elif g("wf") != "1":
        bad = g("wf", 1)
        ent = next((l for l in blk if l.startswith(f"E {bad} ")), None) if bad not in ("-", "?") else None
        pred = next((l for l in blk if ent and l.startswith(f"E {ent.split()[5]} ")), None)
        arc = lambda e: next((l for l in blk if e and l.startswith(f"SA {e.split()[2]} ")), None)
        d = ("wfHistB false on the dumped history table", False,
             {"first_bad_entry": bad, "entry (idx link frame score pred lc rc)": ent, "its_arc (id from to logp wid)": arc(ent),
              "predecessor": pred, "predecessor_arc": arc(pred)})
        p1.append(d)
        p3.append(d)
    if "bad" in drv or g("known") != "1":
        d = ("dump not understood by the driver / segment word outside the FSG vocabulary", g("known") != "1",
             {"bad": drv.get("bad"), "known": g("known")})
        p1.append(d)
        p3.append(d)
    # (2) model = implementation
    mh, msc = g("H"), g("H", 1)
    mx = drv["X"]
    if mh != rh:
        p1.append(("hypothesis differs from the model's backtrace", False, {"impl": unhex(rh), "model": unhex(mh)}))
    info["hyp_block"] = judge_hyp_block(blk, drv, p1)      # c01hyp: allocation size, strlen, every byte of the block
    if [x[1] for x in mx] != [x[1] for x in X] or (g("nseg") == "null") != (len(X) == 0):
        p1.append(("segment words differ from the model's backtrace", False,
                   {"impl": [unhex(x[1]) for x in X], "model": [unhex(x[1]) for x in mx]}))
    if msc != rscore:
        p3.append(("reported path score differs from the model", False, {"impl": rscore, "model": msc}))
    if mx != X:
        k = next((i for i in range(max(len(mx), len(X))) if i >= len(mx) or i >= len(X) or mx[i] != X[i]), 0)
        p3.append(("segment (word sf ef ascr lscr prob) differs from the model", False,
                   {"index": k, "impl": X[k] if k < len(X) else None, "model": mx[k] if k < len(mx) else None}))
    # (3) the property evaluated on what the implementation returned
    info["exit"] = g("exit")
    info["branches"] = (drv.get("br") or [""])[0].split(",")
    if X:
        if g("tile") != "1":
            p3.append(("segments do not tile [0, frames searched)", True,
                       {"frames_searched": cur, "segments": [(unhex(x[1]), int(x[2]), int(x[3])) for x in X]}))
        if g("sum") != "1":
            p3.append(("segment scores do not add up to the reported path score", True,
                       {"score": rscore, "segments": [(unhex(x[1]), int(x[4]), int(x[5]), int(x[6])) for x in X]}))
    if X and cur > 0:
        # Props/C03End.lean (C03_segmentation_ends_at_last_exit_frame) evaluated on the implementation: the last
        # word/filler segment ends in the frame of the last entry of the dumped history table (-1: markers only)
        E = [l.split() for l in blk if l.startswith("E ")]
        wends = [int(x[3]) for x in X if unhex(x[1]) != "(NULL)"]
        if E and E[-1][2] != "missing":
            info["end_rule_checked"] = True
            if (max(wends) if wends else -1) != int(E[-1][3]):
                p3.append(("the last word/filler segment does not end in the frame of the last history-table entry", False,
                           {"last_entry (idx link frame score pred ..)": E[-1], "word_segment_ends": wends[-4:], "frames_searched": cur}))
    if g("hypseg") != "1":
        d = ("hypothesis string is not the base forms of the non-filler segment words", True,
             {"hyp": unhex(rh), "segments": [unhex(x[1]) for x in X]})
        p3.append(d)
        p1.append(d)
    # (C03) the same clause with "filler" read from the DICTIONARY (lines SD of the harness = dict_filler_word), not from
    # the grammar's own marks (flag of the SW lines = fsg_model_is_filler), and the tie between the two
    hd = drv.get("hypsegd")
    if hd:
        sw = {l.split()[1]: l.split() for l in blk if l.startswith("SW ")}
        sd = {l.split()[1]: l.split()[2] for l in blk if l.startswith("SD ")}
        dfill = {unhex(sw[i][2]) for i in sd if sd[i] == "1" and i in sw}
        info["dict_filler_oracle"] = True
        info["filler_segments"] = sum(1 for x in X if unhex(x[1]) in dfill)
        info["alt_filler_segments"] = [unhex(x[1]) for x in X if unhex(x[1]) in dfill and "(" in unhex(x[1])]
        info["alt_word_segments"] = [unhex(x[1]) for x in X if unhex(x[1]) not in dfill and unhex(x[1]) != "(NULL)" and unhex(x[1]).endswith(")")]
        if hd[0] != "1":
            p3.append(("hypothesis string is not the base forms of the segment words that are not filler words of the dictionary", True,
                       {"hyp": unhex(rh), "segments": [unhex(x[1]) for x in X], "filler_words_of_the_dictionary_in_the_search_FSG": sorted(dfill)}))
        # hypotheses of Props/C03Fillers.lean (C03_filler_marks_follow_dictionary) evaluated on this dump: hgram = no word of the
        # grammar as loaded is marked or is a filler word of the dictionary; hsil / hrange / halts = line SR of the harness
        by_str = {sw[i][2]: i for i in sw}
        gw = [l.split() for l in blk if l.startswith("GW ")]
        hgram = all(w[3] == "0" and sd.get(by_str.get(w[2])) != "1" for w in gw if len(w) > 3)
        sr = next((l.split() for l in blk if l.startswith("SR ")), None)
        info["filler_theorem_hypotheses"] = "hold" if hgram and sr and sr[2:] == ["0", "1", "0"] else \
            "grammar names a filler word of the dictionary" if not hgram else "not evaluated" if not sr else "dictionary"
        if sr and sr[2:] != ["0", "1", "0"]:
            p3.append(("a hypothesis of C03_filler_marks_follow_dictionary does not hold on the decoder's dictionary", False,
                       {"SR (words the filler loop visits, of them no dictionary fillers, <sil> is a filler, alternates with another base)": sr[1:]}))
        if len(hd) > 1 and hd[1] != "1" and hgram:
            on_arc = {l.split()[5] for l in blk if l.startswith("SA ")}
            p3.append(("the grammar's filler marks (fsg_model_is_filler) differ from the dictionary's (dict_filler_word) on a word that labels a "
                       "transition of the search FSG", False,
                       {"words (word, grammar mark, dictionary mark)": [(unhex(sw[i][2]), sw[i][3], sd.get(i)) for i in sw if sw[i][3] != sd.get(i) and i in on_arc][:8]}))
    if int(head[6]) > 0 and nfr != cur + nfoff:
        p3.append(("decoder_n_frames is not frames searched + the source's constant offset", True,
                   {"n_frames": nfr, "searched": cur, "offset_in_source": nfoff}))
    if g("proj") == "-":
        p1.append(("no loaded-grammar block in the dump", False, {}))
    else:
        if g("proj") != "1":
            p1.append(("search FSG does not project onto the grammar as loaded", False, {}))
        a_h, a_s = g("acc"), g("acc", 1)
        what = "a sentence of" if final else "the labels of a path leaving the start state of"
        if rh != "null" and a_h != "1":
            p1.append((f"reported hypothesis is not {what} the loaded grammar", a_h == "0", {"hyp": unhex(rh), "verdict": a_h}))
        if X and a_s != "1":
            p1.append((f"reported segment words are not {what} the loaded grammar", a_s == "0",
                       {"segments": [unhex(x[1]) for x in X], "verdict": a_s}))
        if final and g("exit") not in ("?",) and int(g("exit")) > 0 and g("path") != "1":
            p1.append(("model backtrace is not a checked start→final path of the search FSG", False, {}))
    return p1, p3, info


_driver = []


def snapshot_driver(scratch):
    """private copy of the driver binary: other checks relink lean/.lake/build/bin/ssdriver concurrently"""
    import shutil, time
    dst = Path(scratch) / "ssdriver-c01"
    for _ in range(60):
        try:
            with vlib.flock("lake.lock"):
                shutil.copy2(vlib.driver_path(), dst)
            break
        except FileNotFoundError:
            time.sleep(1.0)
    _driver[:] = [dst]


def run_driver(text):
    import subprocess
    path = _driver[0] if _driver else vlib.driver_path()
    r = subprocess.run([str(path), "c01"], input=text.encode(), stdout=subprocess.PIPE, stderr=subprocess.PIPE, timeout=900)
    return r.returncode, r.stdout.decode(errors="replace"), r.stderr.decode(errors="replace")


DIED_ASSERT = "Assertion `norm != WORST_SCORE' failed"
RERUN_SIGNATURES = [("assert_fsgs_frame_eq_frame_idx (frame accounting broken: judged on the plain flavour)", "fsgs->frame == frame_idx"),
                    ("assert_norm_worst_score_search_died", DIED_ASSERT),
                    ("ubsan_nan_features_D15", "nan is outside the range of representable values")]
_ndebug = []


def ndebug_harness():
    if not _ndebug:
        _ndebug.append(vlib.build_harness("h_c01", flavor="ndebug"))
    return _ndebug[0]


def private_harnesses(scratch):
    """build both flavours and copy the binaries into the run's scratch directory: the shared build cache
    keeps only the most recent trees and other checks (other worktrees) prune it while this one runs"""
    import shutil
    out = []
    for flavor in ("asan", "ndebug"):
        for _ in range(5):
            try:
                src = vlib.build_harness("h_c01", flavor=flavor)
                dst = Path(scratch) / f"h_c01-{flavor}"
                shutil.copy2(src, dst)
                out.append(dst)
                break
            except FileNotFoundError:
                continue
        else:
            raise vlib.BuildError(f"harness h_c01 ({flavor}) vanished from the build cache repeatedly")
    _ndebug[:] = [out[1]]
    return out[0]


def judge_jsgf_text(blk, drv, unit, unit_rules, info):
    """C01 on the JSGF TEXT: the reported hypothesis and segment words must be accepted (final) / label a path from the
    start (partial) of the rule the configuration names (toprule) — reference automaton built by the Lean model of C05
    from the text.  With toprule unset and several public rules the library's pick is unspecified (hash order): some
    ONE public rule must accept every result obtained under that installation."""
    js = drv.get("jsgf")
    if not js:
        return []
    info["jsgf_text_oracle"] = "skipped"
    if js[0] != "1":
        return []                                  # the model's text front end does not take this text (C05's subject)
    H = [l.split() for l in blk if l.startswith("H ")]
    X = [l for l in blk if l.startswith("X ")]
    has_h = bool(H) and H[0][1] != "null"
    final = blk[0].split()[3] == "1"
    what = "a sentence of" if final else "the labels of a path leaving the start state of"
    rules = drv.get("jrules", [])
    if js[1] == "0":
        return [("a JSGF grammar was installed although the configured toprule names no rule of the text", True,
                 {"hyp": unhex(H[0][1]) if H else None})]
    if any(r[3] != "1" for r in rules) or not rules:
        return []                                  # rule automaton not finite within the exploration bound: no verdict
    info["jsgf_text_oracle"] = "judged"

    def ok(r):
        return (not has_h or r[4] == "1") and (not X or r[5] == "1")
    if js[1] == "1":
        r = rules[0]
        if not ok(r):
            return [(f"result is not {what} the rule the configuration names (toprule), by the JSGF text", True,
                     {"rule": unhex(r[1]), "hyp": unhex(H[0][1]) if has_h else None,
                      "segments": [unhex(l.split()[2]) for l in X], "verdict_hyp": r[4], "verdict_seg": r[5]})]
        return []
    good = {r[1] for r in rules if ok(r)}
    prev = unit_rules.get(unit)
    now = good if prev is None else (prev & good)
    unit_rules[unit] = now
    if not now:
        return [(f"results under one installation are not {what} any single public rule of the JSGF text", True,
                 {"public_rules": [unhex(r[1]) for r in rules], "accepting_this_result": sorted(unhex(x) for x in good),
                  "hyp": unhex(H[0][1]) if has_h else None, "segments": [unhex(l.split()[2]) for l in X]})]
    return []


_dict_cache = {}


def dict_words(case):
    """the words decoder_set_align_text can find with dict_wordid: first column of the configured dictionary and of the
    acoustic model's noisedict, read here (loading is C16's subject); as bytes"""
    cfg = case["config"]
    hmm = Path(cfg.get("hmm", str(MODEL / "en-us")))
    p = cfg["dict"].replace("@DATA", str(DATA)) if cfg.get("dict") else str(hmm / "dict.txt")
    key = (p, str(hmm))
    if key not in _dict_cache:
        ws = set()
        for f in (Path(p), hmm / "noisedict"):
            if f.exists():
                for line in f.read_bytes().split(b"\n"):
                    t = line.split()
                    if t and not line.startswith((b"##", b";;")):
                        ws.add(t[0])
        _dict_cache[key] = ws
    return _dict_cache[key]


def grammar_set_tie(case, ev):
    """Model/GrammarSet (Props/C01Refuse) against the library, on every case: the grammar-setting calls of the session are
    replayed on the model (driver `c01g`); compared: the return value of every call (alignment texts: predicted from
    the text and the dictionary file alone) and, at every dump, the model's active grammar with the grammar the result
    is judged against (alignment text: the G block of the dump = the chain; FSG file / JSGF: the unit of the last
    accepted call).  -> (problems, counts)"""
    import subprocess
    units = case["units"]
    known = set(dict_words(case))
    lines, calls, probes, sent = ["reset"], [], [], set()
    gi, active, ai = -1, None, 0
    config_first = bool(units) and unit_install(case, 0) == "config"
    for e in ev:
        if e[0] == "cmd":
            name, rep = e[1], e[2]
            if name == "newdec" and config_first:
                gi += 1
                if rep is not None and rep[-1] == "1":
                    lines.append(f"F {gi + 2} 1" if units[gi]["grammar"]["kind"] == "fsg" else f"J 1 1 {gi + 2} 1")
                    calls.append((len(lines) - 1, 0, gi, "config"))
                    active = gi
            elif name == "addlike":
                aw = case.get("addwords", [])
                if rep is not None and ai < len(aw) and int(rep[1]) >= 0:
                    known.add(aw[ai][0].encode())
                ai += 1
            elif name in ("jsgf", "jsgffile", "fsgfile", "align"):
                gi += 1
                if rep is None or gi >= len(units):
                    break
                rv = int(rep[-1])
                if name == "align":
                    text = units[gi]["grammar"]["text"].encode()
                    for tok in set(re.split(rb"[ \t\n\r]+", text)) | set(re.split(rb"[ \t\n\r\f]+", text)) | \
                            set(re.split(rb"[ \t\n\r]+", text.strip(b" \t\n\r\f"))):
                        if tok in known and tok not in sent:
                            sent.add(tok)
                            lines.append("K " + hx(tok))
                    lines.append(f"A {hx(text)} 1")
                elif name == "fsgfile":
                    if rv == -2:
                        continue                    # fsg_model_readfile refused the file: decoder_set_fsg is never called
                    lines.append(f"F {gi + 2} {1 if rv == 0 else 0}")
                else:
                    lines.append(f"J 1 1 {gi + 2} {1 if rv == 0 else 0}")
                calls.append((len(lines) - 1, rv, gi, name))
                if rv == 0:
                    active = gi
        elif e[0] == "dump":
            probes.append((len(lines) - 1, active, e))
    counts = {"calls": len(calls), "align_calls": sum(1 for c in calls if c[3] == "align"),
              "refused_calls": sum(1 for c in calls if c[1] != 0), "dumps": len(probes)}
    if not calls:
        return [], counts
    path = _driver[0] if _driver else vlib.driver_path()
    r = subprocess.run([str(path), "c01g"], input=("\n".join(lines) + "\n").encode(), stdout=subprocess.PIPE,
                       stderr=subprocess.PIPE, timeout=300)
    out = r.stdout.decode(errors="replace").split("\n")
    if r.returncode != 0 or len(out) < len(lines) or any(o == "bad-op" for o in out[:len(lines)]):
        return [("model driver c01g failed", False, {"rc": r.returncode, "stderr": r.stderr.decode(errors="replace")[-300:]})], counts
    probs = []
    for li, rv, g, name in calls:
        w = out[li].split()
        if len(w) < 2 or w[0] != "R" or int(w[1]) != (0 if rv == 0 else -1):
            probs.append(("return value of a grammar-setting call differs from Model/GrammarSet (alignment text: predicted from "
                          "the text and the dictionary)", False,
                          {"call": name, "unit": g, "library": rv, "model": out[li], "text": units[g]["grammar"]["text"][:200]}))

    def state_at(li):
        for k in range(li, -1, -1):
            if out[k].startswith("R "):
                return out[k].split()[2:]
        return ["none"]
    for li, act, e in ([] if probs else probes):
        m = state_at(li)
        if act is None:
            ok = m == ["none"]
        elif units[act]["grammar"]["kind"] != "align":
            ok = m == ["id", str(act + 2)]
        else:
            blk = e[2]
            gf = next((l.split() for l in blk if l.startswith("GF ")), None)
            gw = {l.split()[1]: l.split()[2] for l in blk if l.startswith("GW ")}
            ga = [l.split() for l in blk if l.startswith("GA ")]
            if gf is None:
                ok = False
            else:
                arcs = [(int(a[2]), int(a[3]), unhex(gw.get(a[5], "-"))) for a in ga]
                marcs = [] if len(m) < 5 or m[4] == "-" else [(int(x.split(":")[0]), int(x.split(":")[1]), unhex(x.split(":")[2]))
                                                               for x in m[4].split(",")]
                ok = m[0] == "chain" and [int(m[2]), int(m[3]), int(m[1])] == [int(gf[1]), int(gf[2]), int(gf[3])] and arcs == marcs
        if not ok:
            probs.append(("the grammar a result is judged against is not the active grammar of Model/GrammarSet after the session's "
                          "grammar-setting calls", False, {"dump": e[1], "model_active": " ".join(m)[:300], "judged_against_unit": act}))
            break
    return probs, counts


def run_case(binp, case, scratch, tag, nfoff):
    """-> dict(ok, problems1, problems3, infos, crash, accounting)"""
    ops = case_ops(case, scratch, tag)
    hmm = case["config"].get("hmm", str(MODEL / "en-us"))
    rc, out, err = vlib.run_bin(binp, [hmm], stdin_text="\n".join(ops) + "\n", timeout=900)
    died = False
    why = next((name for name, sig in RERUN_SIGNATURES if sig in err), None) if rc != 0 else None
    if why:
        # (a) The search lost every active HMM (all paths pruned) and the assert-enabled build stops in
        #     ptm_mgau_codebook_norm.  The pinned build is -DNDEBUG and goes on; "no path survives" is
        #     exactly what C01 has to see.
        # (b) All-zero audio in full-utterance mode puts NaN into the features and UBSan stops at the
        #     float→int cast in ptm_mgau.c (D15, C18's subject).
        # Neither is a statement of C01/C03; the case is judged on the plain flavour (-DNDEBUG, no
        # sanitizers = what the pinned build does) and counted in the evidence.
        died = why
        rc, out, err = vlib.run_bin(ndebug_harness(), [hmm], stdin_text="\n".join(ops) + "\n", timeout=900)
    ev = parse_harness(out)
    res = {"p1": [], "p3": [], "infos": [], "crash": None, "rc": rc, "utts": 0, "loaded": [], "rejects": 0, "died_assert": died}
    if rc != 0:
        last = next((l for l in reversed(out.split("\n")) if l.startswith("> ")), "?")
        res["crash"] = {"exit_code": rc, "during": last, "stderr_tail": err[-1800:]}
    # the loaded grammar of an FSG FILE is read from its text here, independently of the library's reader
    # … and the reference of a JSGF text is the rule the CONFIGURATION names, compiled by the Lean model of C05 in
    # the driver (lines J = text, JT = toprule), whatever route installed the text and whatever the decoder activated
    gi, override, jref, dumps, dump_unit = -1, None, None, [], []
    tops = toprule_plan(case)
    config_first = bool(case["units"]) and unit_install(case, 0) == "config"

    def installed(gidx):
        g = case["units"][gidx]["grammar"] if gidx < len(case["units"]) else None
        return (g["text"] if g and g["kind"] == "fsg" else None,
                (g["text"], tops[gidx]) if g and g["kind"] == "jsgf" else None)
    active_unit = None
    for e in ev:
        if e[0] == "cmd" and e[1] == "newdec" and config_first:
            gi += 1
            if e[2] is not None and e[2][-1] == "1":
                override, jref = installed(gi)
                active_unit = gi
                res["loaded"].append(True)
            else:
                res["loaded"].append(False)
                res["rejects"] += 1
        elif e[0] == "cmd" and e[1] in ("jsgf", "jsgffile", "fsgfile", "align"):
            gi += 1
            if e[2] is not None and e[2][-1] == "0":
                override, jref = installed(gi)
                active_unit = gi
        elif e[0] == "dump":
            blk = e[2]
            if override is not None and blk and blk[0].startswith("D begin"):
                blk = [blk[0]] + loaded_block_from_text(override, blk) + [l for l in blk[1:] if not l.startswith(("GF ", "GW ", "GA "))]
            if jref is not None and blk and blk[0].startswith("D begin"):
                blk = [blk[0], "J " + hx(jref[0]), "JT " + ("-" if jref[1] is None else hx(jref[1]))] + blk[1:]
            dumps.append(("dump", e[1], blk))
            dump_unit.append(active_unit)
    if dumps:
        text = "\n".join("\n".join(e[2]) for e in dumps) + "\n"
        rc2, dout, derr = run_driver(text)
        dblocks = parse_driver(dout)
        if rc2 != 0 or len(dblocks) != len(dumps):
            res["p1"].append(("model driver failed", False, {"rc": rc2, "stderr": derr[-500:], "blocks": len(dblocks), "dumps": len(dumps)}))
            res["p3"].append(res["p1"][-1])
            dblocks = []
        unit_rules = {}       # unit -> set of public rules that accept every result so far (toprule unset)
        for (e, d), du in zip(zip(dumps, dblocks), dump_unit):
            p1, p3, info = judge_dump(e[2], d, nfoff)
            p1 += judge_jsgf_text(e[2], d, du, unit_rules, info)
            info["tag"] = e[1]
            res["infos"].append(info)
            res["p1"] += [(k, v, dict(det, dump=e[1])) for k, v, det in p1]
            res["p3"] += [(k, v, dict(det, dump=e[1])) for k, v, det in p3]
    # frame accounting per utterance: returns of the processing calls + frames searched inside
    # end_utt = frames the front end produces for the audio supplied = fsgs->frame
    tot, started, grammar_ok = 0, False, False
    for e in ev:
        if e[0] != "cmd" or e[2] is None:
            continue
        name, rep = e[1], e[2]
        if name in ("jsgf", "jsgffile", "fsgfile", "align"):
            ok = rep[-1] == "0"
            res["loaded"].append(ok)
            grammar_ok = grammar_ok or ok
            if not ok:
                res["rejects"] += 1
        elif name == "start":
            tot, started = 0, rep[-1] == "0"
        elif name == "proc" and started:
            rv, k, nfr, fr = int(rep[1]), int(rep[2]), int(rep[3]), int(rep[4])
            if rv < 0:
                res["p3"].append(("decoder_process_* failed", False, {"rv": rv}))
                started = False
                continue
            tot += rv
            if fr != tot or nfr != fr + nfoff:
                res["p3"].append(("frame counts returned by the processing calls do not add up to the frames searched",
                                  True, {"sum_of_returns": tot, "fsgs_frame": fr, "n_frames": nfr}))
                started = False
        elif name == "poll" and started:
            what, nfr, fr = rep[1], int(rep[3]), int(rep[4])
            if fr != tot or nfr != fr + nfoff:
                res["p3"].append(("a result accessor called between processing calls changed the frame counters", True,
                                  {"call": what, "sum_of_returns": tot, "fsgs_frame": fr, "n_frames": nfr}))
                started = False
        elif name == "end" and started:
            rv, inend, nfr, ref = int(rep[1]), int(rep[2]), int(rep[3]), int(rep[4])
            res["utts"] += 1
            if rv < 0:
                res["p3"].append(("decoder_end_utt failed", False, {"rv": rv}))
            elif tot + inend != ref or nfr != ref + nfoff:
                res["p3"].append(("frames searched (returns of the processing calls + frames searched inside end_utt) "
                                  "differ from the frames the front end produces for the audio supplied", True,
                                  {"sum_of_returns": tot, "searched_in_end_utt": inend, "front_end_frames": ref, "n_frames": nfr}))
            started = False
    gp, res["gs_tie"] = grammar_set_tie(case, ev)
    res["p1"] += gp
    return res


# ---------------------------------------------------------------------------------------------
# shrinking

def shrink_case(case, fails, budget=24):
    """greedy, repeated while it helps: one unit / one utterance, single-call plan, default config, shorter audio"""
    best = case
    tests = [0]

    def attempt(c):
        if tests[0] >= budget:
            return False
        tests[0] += 1
        try:
            return fails(c)
        except Exception:
            return False

    def simple_plan(n):
        return ["start"] + [["proc", min(MAXCALL, n - a), 0, 0, 0] for a in range(0, max(n, 1), MAXCALL)] + ["end", ["dump", "fin"]]

    for _round in range(2):
        before = json.dumps(best, sort_keys=True)
        # one unit, one utterance
        if len(best["units"]) > 1 or len(best["units"][0]["utts"]) > 1:
            done = False
            for u in best["units"]:
                for t in u["utts"]:
                    c = dict(best, units=[dict(u, utts=[t], prestart=False)])
                    if attempt(c):
                        best, done = c, True
                        break
                if done:
                    break
        if len(best["units"]) == 1 and len(best["units"][0]["utts"]) == 1:
            u = best["units"][0]
            t = u["utts"][0]
            n = len(render_audio(t["audio"])) // 2
            if t["plan"] != simple_plan(n):
                c = dict(best, units=[dict(u, utts=[dict(t, plan=simple_plan(n))])])
                if attempt(c):
                    best = c
            for k in list(best["config"].keys()):
                if k == "hmm":
                    continue
                cfg = dict(best["config"])
                del cfg[k]
                c = dict(best, config=cfg)
                if attempt(c):
                    best = c
            # shorter audio (only with the single-call plan and a single piece of audio)
            u = best["units"][0]
            t = u["utts"][0]
            while t["plan"] == simple_plan(n) and n > 400 and len(t["audio"]) == 1:
                m = n // 2
                a0 = t["audio"][0]
                if a0["src"] == "zero":
                    na = [dict(a0, b=m)]
                elif not a0.get("rev"):
                    na = [dict(a0, b=a0.get("a", 0) + m)]
                else:
                    break
                c = dict(best, units=[dict(u, utts=[{"audio": na, "plan": simple_plan(m)}])])
                if not attempt(c):
                    break
                best, n = c, m
                u = best["units"][0]
                t = u["utts"][0]
        if json.dumps(best, sort_keys=True) == before:
            break
    return best



# ---------------------------------------------------------------------------------------------
# growth stage (M10): the per-frame behaviour of the real search is a behaviour of the step relation
# of lean/SSVerif/Model/Search.lean (theorems: lean/SSVerif/Props/C01Search.lean)

STEP_SHAPES = [
    # (name, kind, text) — grammar shapes that are always part of the tie; generated ones are added
    ("linear", "jsgf", "#JSGF V1.0;\ngrammar g;\npublic <top> = go forward ten meters;\n"),
    ("opt_loops", "jsgf", "#JSGF V1.0;\ngrammar g;\npublic <top> = [ go ] ( forward | backward )+ ( ten | two | <NULL> )* [ meters ];\n"),
    ("short_alt", "jsgf", "#JSGF V1.0;\ngrammar g;\npublic <top> = ( a | i | oh | the | to | either )* go ( a | to ) [ the ] forward;\n"),
    ("rightrec", "jsgf", "#JSGF V1.0;\ngrammar g;\npublic <top> = <r> meters;\n<r> = go | forward <r> | ten <r>;\n"),
    ("nullchain", "fsg", "FSG_BEGIN n\nNUM_STATES 5\nSTART_STATE 0\nFINAL_STATE 4\nTRANSITION 0 1 0.5\nTRANSITION 1 2 0.5\n"
                         "TRANSITION 2 0 0.3\nTRANSITION 0 1 0.5 go\nTRANSITION 1 2 0.9 forward\nTRANSITION 2 3 1.0 ten\n"
                         "TRANSITION 2 3 0.5\nTRANSITION 3 4 1.0 meters\nTRANSITION 3 3 0.2 a\nTRANSITION 1 4 0.01\nFSG_END\n"),
    ("dense", "fsg", "FSG_BEGIN d\nNUM_STATES 3\nSTART_STATE 0\nFINAL_STATE 2\n" +
                     "".join(f"TRANSITION {a} {b} 0.2 {w}\n" for a in range(3) for b in range(3)
                             for w in (["go", "forward", "ten"] if (a + b) % 2 else ["meters", "a", "the(2)"])) + "FSG_END\n"),
]

STEP_FIELDS = ["lt", "build", "consts", "pre", "start", "finish", "table"]


def gen_step_case(rng, idx, thorough, feats):
    """one decoder, one grammar, one or two short utterances"""
    lang = "fr-fr" if (thorough and rng.chance(0.12)) else "en-us"
    cfg = {}
    if lang != "en-us":
        cfg["hmm"] = str(MODEL / lang)
    beam = ["default", "wide", "narrow", "verynarrow", "maxhmm", "default", "wide", "narrow"][idx % 8] if not thorough else \
        rng.weighted([("default", 4), ("wide", 3), ("narrow", 3), ("verynarrow", 2), ("maxhmm", 2), ("zero", 1)])
    if beam == "wide":
        cfg.update(beam="1e-80", pbeam="1e-80", wbeam="1e-60")
    elif beam == "zero":
        cfg.update(beam="0", pbeam="0", wbeam="0")
    elif beam == "narrow":
        v = rng.choice(["1e-10", "1e-6", "1e-4"])
        cfg.update(beam=v, pbeam=v, wbeam=rng.choice([v, "1e-3"]))
    elif beam == "verynarrow":
        v = rng.choice(["1e-2", "0.5", "1e-1"])
        cfg.update(beam=v, pbeam=rng.choice([v, "1e-48"]), wbeam=rng.choice([v, "7e-29", "1"]))
    elif beam == "maxhmm":
        cfg["maxhmmpf"] = str(rng.choice([1, 3, 10, 50]))
    for k, vals, p in (("fsgusefiller", ["no"], 0.15), ("fsgusealtpron", ["no"], 0.15), ("lw", ["1.0", "10", "0.5"], 0.2),
                       ("wip", ["0.1", "1.0", "1e-4"], 0.2), ("pip", ["0.5", "1e-3"], 0.1), ("silprob", ["0.5", "1e-6"], 0.15),
                       ("compallsen", ["yes"], 0.2)):
        if rng.chance(p):
            cfg[k] = rng.choice(vals)
    if lang == "en-us" and idx < len(STEP_SHAPES):
        shape, kind, text = STEP_SHAPES[idx]
    else:
        kind = rng.weighted([("jsgf", 3), ("fsg", 2)])
        shape = "gen_" + kind
        text = gen_jsgf(rng, lang, feats) if kind == "jsgf" else gen_fsg(rng, lang, feats)
    maxs = 16000 if not thorough else rng.choice([16000, 16000, 30000, 48000])
    utts = []
    for _ in range(rng.weighted([(1, 3), (2, 2)])):
        src = rng.choice(["goforward.raw", "goforward.raw", "goforward_fr.raw", "pizza-float32.raw"])
        n = len(source_samples(src))
        akind = rng.weighted([("head", 5), ("clip", 3), ("reverse", 1), ("noise", 1), ("tiny", 1)])
        if akind == "head":
            spec = [{"src": src, "a": 0, "b": min(n, rng.range(6000, maxs))}]
        elif akind == "clip":
            a = rng.below(max(1, n - 8000))
            spec = [{"src": src, "a": a, "b": min(n, a + rng.range(5000, maxs))}]
        elif akind == "reverse":
            spec = [{"src": src, "a": 0, "b": min(n, rng.range(6000, maxs)), "rev": True}]
        elif akind == "noise":
            spec = [{"src": "zero", "b": rng.range(3000, 12000), "noise": rng.choice([3, 300, 3000]), "seed": rng.below(1 << 30)}]
        else:
            spec = [{"src": src, "a": 0, "b": rng.choice([1, 411, 571, 890, 1210])}]
        utts.append({"audio": spec, "kind": akind})
    return {"config": cfg, "lang": lang, "beam": beam, "shape": shape, "grammar": {"kind": kind, "text": text}, "utts": utts}


def step_case_ops(case, scratch, tag):
    ops = ["newdec loglevel=FATAL " + " ".join(f"{k}={v}" for k, v in sorted(case["config"].items()))]
    g = case["grammar"]
    if g["kind"] == "jsgf":
        ops.append("jsgf " + hx(g["text"]))
    else:
        p = Path(scratch) / f"{tag}.fsg"
        p.write_text(g["text"])
        ops.append(f"fsgfile {p}")
    for ti, t in enumerate(case["utts"]):
        p = Path(scratch) / f"{tag}-t{ti}.raw"
        b = render_audio(t["audio"])
        if t.get("maxsamp") is not None:
            b = b[:2 * t["maxsamp"]]
        p.write_bytes(b)
        ops.append(f"audio {p}")
        ops.append(f"utt t{ti} {len(b) // 2}")
    return ops


def judge_step_output(hout, dout):
    """-> (problems, infos): every utterance the harness dumped must pass every predicate of the model"""
    probs, infos = [], []
    ends = {}
    for l in hout.split("\n"):
        if l.startswith("U end "):
            w = l.split()
            ends[w[2]] = (int(w[3]), int(w[4]))
        elif l.startswith("U fail"):
            probs.append(("harness could not run the utterance", {"line": l}))
    cur = None
    blocks = []
    for l in dout.split("\n"):
        w = l.split()
        if len(w) < 2 or w[0] != "R":
            continue
        if w[1] == "begin":
            cur = {"tag": w[2] if len(w) > 2 else "?", "steps": [], "why": [], "cov": {}}
        elif cur is None:
            continue
        elif w[1] == "end":
            blocks.append(cur)
            cur = None
        elif w[1] == "step":
            cur["steps"].append(w[2:])
        elif w[1] in ("why", "whyeval"):
            cur["why"].append(" ".join(w[1:])[:1500])
        elif w[1] == "cov":
            cur["cov"] = {k: int(v) for k, v in (x.split("=") for x in w[2:])}
        else:
            cur[w[1]] = w[2:]
    if len(blocks) != len(ends):
        probs.append(("model driver answered for a different number of utterances than the harness dumped",
                      {"driver": len(blocks), "harness": len(ends)}))
    for b in blocks:
        T, nent = ends.get(b["tag"], (None, None))
        info = {"tag": b["tag"], "frames": T, "entries": nent, "pnodes": int(b.get("lt", [0, 0, 0])[2]) if len(b.get("lt", [])) > 2 else 0,
                "cov": b["cov"]}
        lh = b.get("lexhyps")
        if lh is not None and len(lh) >= 6:
            # lexHypsB, null arcs carry wid -1 (fsgOf M = g), the eight clauses, word arcs, word-internal (ssid, tmat) pairs, detail
            info["lexhyps"] = {"ok": lh[0] == "1" and lh[1] == "1", "clauses": lh[2], "word_arcs": int(lh[3]), "int_pairs": int(lh[4]),
                               "detail": " ".join(lh[5:])[:600]}
        infos.append(info)
        for st in b["steps"]:
            # frame stepRelB searchInvB indices quiet evalExact size active
            # … and (9th field) laterInvB: word entries >= 2 frames after their predecessors, live inner / exit states hold
            # entries >= 2 frames old (Model/SearchLater.lean; proved for every reachable model state in Props/C01Later.lean)
            # … and (10th-12th) the score guard of a word exit: fsgs->bestscore = frameBest of evalBest3 over the evaluated HMMs,
            # ThreshLive bestscore wbeam, Fires bestscore wbeam (score of every new word entry)
            verdict = st[1:6] + (st[8:12] if len(st) > 11 else ["missing"])
            if any(x != "1" for x in verdict):
                names = ["stepRelB", "searchInvB", "entry indices / table size", "pnode_active_next NULL and frame lists empty",
                         "evalHist3 = the evaluated HMMs", "laterInvB (a word exit / live inner state less than two frames after its history entry)",
                         "fsgs->bestscore = max of the values the exact 3-state evaluator returns (frameBest/evalBest3)",
                         "ThreshLive: bestscore + wbeam > WORST_SCORE", "Fires: every new word entry has score >= bestscore + wbeam"]
                failed = [n for n, x in zip(names, verdict) if x != "1"]
                probs.append(("the frame step of the real search is not a behaviour of the model: " + ", ".join(failed) + " false",
                              {"utt": b["tag"], "after_frames": int(st[0]), "verdict": st[1:6], "why": b["why"][:2]}))
                break
        for f in STEP_FIELDS:
            v = b.get(f)
            if v is None:
                probs.append((f"the driver gave no verdict `{f}`", {"utt": b["tag"]}))
                continue
            flags = v if f not in ("table", "build") else v[:1]
            if f == "lt":
                # LexTreeOK, chainsEndB, no multiplex / odd HMM, LaterTopo lt.nst (3 or 5 emitting states: the hypothesis
                # of C11_build_reachableL_search / C01_word_exit_later under which the exit clause forbids state 0 -> exit)
                flags = [v[0], v[1], v[3]] + (v[4:5] if len(v) > 4 else ["missing"])
            if f == "start":
                flags = v[:4] + (v[6:7] if len(v) > 6 else ["missing"])   # + laterInvB
            if any(x != "1" for x in flags):
                what = {"lt": "LexTreeOK / every sibling chain ends / no multiplex HMM / 3 or 5 emitting states (LaterTopo): false on the dumped lextree",
                        "build": "the lextree the model builds (buildLexTree on the dumped FSG, pronunciations and ssid lookups) "
                                 "differs from the lextree the code built",
                        "consts": "WORST_SCORE / SENSCR_SHIFT / TMAT_WORST_SCORE of the build differ from the generated constants",
                        "pre": "the state before fsg_search_start is not all-cleared (an HMM outside the active lists is not cleared)",
                        "start": "startRelB / searchInvB / laterInvB false on the state after fsg_search_start",
                        "finish": "the state after fsg_search_finish is not the model's finish of the last state",
                        "table": "the history table at the end differs from the entries dumped frame by frame"}[f]
                probs.append((what, {"utt": b["tag"], "verdict": v}))
        if "bad" in b:
            probs.append(("dump not understood by the driver", {"utt": b["tag"], "bad": b["bad"]}))
        if T is not None and len(b["steps"]) != T:
            probs.append(("number of judged steps differs from the frames the harness searched", {"utt": b["tag"], "steps": len(b["steps"]), "frames": T}))
    return probs, infos


_step_bins = {}
_step_lock = __import__("threading").Lock()


def step_harness(scratch, flavor):
    import shutil
    with _step_lock:
        return _step_harness_locked(scratch, flavor, shutil)


def _step_harness_locked(scratch, flavor, shutil):
    if flavor not in _step_bins or not Path(_step_bins[flavor]).exists():
        for _ in range(5):
            try:
                src = vlib.build_harness("h_c01s", flavor=flavor)
                dst = Path(scratch) / f"h_c01s-{flavor}"
                shutil.copy2(src, dst)
                _step_bins[flavor] = dst
                break
            except FileNotFoundError:
                continue
        else:
            raise vlib.BuildError(f"harness h_c01s ({flavor}) vanished from the build cache repeatedly")
    return _step_bins[flavor]


def run_step_case(case, scratch, tag):
    import subprocess
    ops = step_case_ops(case, scratch, tag)
    hmm = case["config"].get("hmm", str(MODEL / "en-us"))
    rc, out, err = vlib.run_bin(step_harness(scratch, "asan"), [hmm], stdin_text="\n".join(ops) + "\n", timeout=900)
    died = None
    if rc != 0:
        died = next((name for name, sig in RERUN_SIGNATURES if sig in err), None)
        if died:    # the search lost every active HMM / NaN features: judged on the plain flavour, as in run_case
            rc, out, err = vlib.run_bin(step_harness(scratch, "ndebug"), [hmm], stdin_text="\n".join(ops) + "\n", timeout=900)
    res = {"probs": [], "infos": [], "crash": None, "died": died, "bytes": len(out)}
    if rc != 0:
        last = next((l for l in reversed(out.split("\n")) if l.startswith("> ")), "?")
        res["crash"] = {"exit_code": rc, "during": last, "stderr_tail": err[-1500:]}
        return res
    path = _driver[0] if _driver else vlib.driver_path()
    r = subprocess.run([str(path), "c01s"], input=out.encode(), stdout=subprocess.PIPE, stderr=subprocess.PIPE, timeout=900)
    if r.returncode != 0:
        res["probs"].append(("model driver c01s failed", {"rc": r.returncode, "stderr": r.stderr.decode(errors="replace")[-500:]}))
        return res
    res["probs"], res["infos"] = judge_step_output(out, r.stdout.decode(errors="replace"))
    return res


def shrink_step_case(case, res, scratch):
    """keep the failing utterance only and cut its audio right after the failing frame"""
    p = next((p for p in res["probs"] if "after_frames" in p[1]), None)
    if p is None:
        return case
    ti = int(p[1]["utt"][1:]) if p[1]["utt"][1:].isdigit() else 0
    shift = int(case["config"].get("samprate", 16000)) // int(case["config"].get("frate", 100))
    for keep_first in (False, True):
        utts = [dict(u) for u in (case["utts"][:ti + 1] if keep_first else [case["utts"][ti]])]
        # frames searched = frames of the front end; a few frames of slack for the window and the delta features
        utts[-1]["maxsamp"] = (p[1]["after_frames"] + 8) * shift + 1024
        small = dict(case, utts=utts)
        try:
            r2 = run_step_case(small, scratch, "stepshrink")
        except Exception:
            continue
        if r2["probs"] and not r2["crash"]:
            return small
    return case


def search_step_tie(c, thorough, replay_case=None):
    """C01 growth stage: LexTreeOK on the dumped lextree, startRelB / stepRelB / searchInvB / evalHist3 on every
    consecutive pair of states dumped from short decodes of the real decoder (harness/h_c01s.c, `ssdriver c01s`)."""
    import time
    t0 = time.time()
    c.trusted += ["harness/h_c01s.c (dump of the lextree, of every HMM that is not in the cleared state, of the active list and "
                  "of the new history entries after every frame; pnode identity = pointer identity among the alloc_head lists) "
                  "+ the glue in tools/props/c01.py",
                  "M10 lextree: LexTreeOK is proved for the lextree buildLexTree constructs from ANY FSG, pronunciations and ssid "
                  "lookups (C01_build_lexTreeOK); that buildLexTree mirrors fsg_lextree_init rests on reading the code and is "
                  "checked by exact equality with the real lextree on every decode of this run; the dict2pid tables are inputs "
                  "(abstract functions), dumped through the macros the lextree code uses",
                  "M10: that the relation StepRel covers fsg_search_step for EVERY input rests on reading the code; it is "
                  "checked (stepRelB, proved sound) on every frame of the decodes of this run.  Two facts about scores are "
                  "used and checked per frame: a word exit fires only from a live exit score — derived (C01_word_exit_fires_only_live, "
                  "C01_xlate_hmm3_best) from the guard out_score >= bestscore + wbeam of fsg_search_hmm_prune_prop under the per-frame "
                  "evaluated inequality bestscore + wbeam > WORST_SCORE (a fact about score ranges, not proved), bestscore being the "
                  "maximum of the values the exact 3-state evaluator returns (compared with fsgs->bestscore on every frame); and hmm_vit_eval gives a live score only to a state whose winning "
                  "predecessor was live (proved for the exact 3-state evaluation evalHist3 under emission scores <= 0; "
                  "5-state / arbitrary topologies are covered by the relation but not mirrored exactly)"]
    rng = vlib.Rng(c.seed * 1000003 + 4242)
    feats = {}
    if replay_case is not None:
        cases = [("replay", replay_case)]
    else:
        n = 10 if not thorough else 400
        cases = [(f"s{i}", gen_step_case(rng, i, thorough, feats)) for i in range(n)]
    results = {}

    def work(item):
        tag, cs = item
        return tag, run_step_case(cs, c.scratch, tag)
    with concurrent.futures.ThreadPoolExecutor(max_workers=4 if not thorough else 6) as ex:
        for tag, r in ex.map(work, cases):
            results[tag] = r
    agg = {"cases": len(cases), "utterances": 0, "frames": 0, "entries": 0, "pnodes_max": 0, "grammar_rejected_or_crashed": 0,
           "reruns_on_plain_flavour": 0, "dump_bytes": 0}
    covsum, shapes, beams, audio_kinds = {}, {}, {}, {}
    lex = {"cases": 0, "true": 0, "false": 0, "no_verdict": 0, "word_arcs": 0, "word_internal_ssid_tmat_pairs": 0, "by_model": {}, "failures": []}
    ok_all, ok_crash = True, True
    reported = 0
    for tag, cs in cases:
        r = results[tag]
        shapes[cs.get("shape", "?")] = shapes.get(cs.get("shape", "?"), 0) + 1
        beams[cs.get("beam", "?")] = beams.get(cs.get("beam", "?"), 0) + 1
        for u in cs["utts"]:
            audio_kinds[u.get("kind", "?")] = audio_kinds.get(u.get("kind", "?"), 0) + 1
        agg["dump_bytes"] += r["bytes"]
        if r["died"]:
            agg["reruns_on_plain_flavour"] += 1
        if r["crash"]:
            ok_crash = False
            c.oblige(f"search-step tie: decode runs to completion ({tag})", False, r["crash"])
            if reported < 2:
                reported += 1
                c.violation({"kind": "the library crashed / aborted / reported a sanitizer error while the search was stepped frame by frame",
                             "search_step_case": cs, "crash": r["crash"],
                             "how_to_rerun": "python3 tools/check.py C01 --replay <this file>"}, False, tag="stepcrash")
            continue
        for inf in r["infos"]:
            lh = inf.get("lexhyps")
            model = Path(cs["config"].get("hmm", "en-us")).name
            if lh is None:
                lex["no_verdict"] += 1
            else:
                lex["cases"] += 1
                lex["by_model"][model] = lex["by_model"].get(model, 0) + 1
                lex["word_arcs"] += lh["word_arcs"]
                lex["word_internal_ssid_tmat_pairs"] += lh["int_pairs"]
                if lh["ok"]:
                    lex["true"] += 1
                else:
                    lex["false"] += 1
                    if len(lex["failures"]) < 6:
                        lex["failures"].append({"case": tag, "utt": inf["tag"], "model": model, "clauses": lh["clauses"], "detail": lh["detail"]})
            agg["utterances"] += 1
            agg["frames"] += inf["frames"] or 0
            agg["entries"] += inf["entries"] or 0
            agg["pnodes_max"] = max(agg["pnodes_max"], inf["pnodes"])
            for k, v in inf["cov"].items():
                covsum[k] = max(covsum.get(k, 0), v) if k == "maxActive" else covsum.get(k, 0) + v
        if not r["infos"] and not r["probs"]:
            agg["grammar_rejected_or_crashed"] += 1
        if r["probs"]:
            ok_all = False
            if replay_case is not None:
                for k, d in r["probs"][:4]:
                    vlib.log(f"[C01] replay (search step): {k}: {json.dumps(d, default=str)[:900]}")
            if reported < 2:
                reported += 1
                small = shrink_step_case(cs, r, c.scratch) if replay_case is None else cs
                rs = run_step_case(small, c.scratch, "stepshrunk") if small is not cs else r
                pr = rs["probs"] or r["probs"]
                c.violation({"kind": pr[0][0], "problems": [{"what": k, "detail": d} for k, d in pr[:4]],
                             "search_step_case": small, "original_case_tag": tag,
                             "note": "the per-frame behaviour of the real search left the step relation of Model/Search.lean "
                                     "(or the lextree / an invariant predicate is false on a dumped state): either the code no "
                                     "longer does what the model of the growth-stage theorems says, or the model is wrong",
                             "how_to_rerun": "python3 tools/check.py C01 --replay <this file>"}, False, tag="step")
    c.oblige("growth stage (M10), correspondence: on every short decode the lextree buildLexTree constructs from the dumped FSG, "
             "pronunciations and ssid lookups EQUALS the lextree the code built (node by node: owner, leaf, link, succ, sibling, "
             "ci_ext, ssid, tmatid, ppos, context set, logs2prob, root[s]), LexTreeOK holds on it, the state before "
             "fsg_search_start is all-cleared, the HMMs have 3 or 5 emitting states (LaterTopo), startRelB holds for start, stepRelB "
             "(incl. the exit clause OutFrom: the exit state of an evaluated HMM is never fed from state 0) for EVERY frame, "
             "searchInvB and laterInvB (Props/C01Later: every word entry >= 2 frames after its predecessor) on every state, "
             "the score guard of a word exit on every frame (fsgs->bestscore = frameBest of evalBest3 over the evaluated HMMs, "
             "bestscore + wbeam > WORST_SCORE, every new word entry has score >= bestscore + wbeam: C01_word_exit_fires_only_live), "
             "evalHist3 reproduces every evaluated HMM, finish = the model's finish, accumulated table = final table", ok_all)
    c.oblige("lex-hyps-hold (C02 lextree = flat network, Props/C02Lex.lean): on every stepped decode lexHypsB M li = true, where li = the "
             "dict2pid tables / pronunciations / penalties the REAL lextree construction read (the same dump buildLexTree is compared "
             "node by node with the real lextree on) and M = the flat model of C02 built from the same search FSG and the DIRECT "
             "model-definition lookups (bin_mdef_phone_id_nearest + pid2ssid) for the same triphones; every null arc carries wid -1 "
             "(fsgOf M = the dumped FSG).  By C02_lex_hyps_checked this gives Agree, LookAgree, SsidTmat (for the constructed tmOf) and "
             "hall, so C02_lextree_paths_eq_flat_instances_checked applies to the lextree the code built",
             lex["false"] == 0 and lex["no_verdict"] == 0 and lex["cases"] > 0, lex["failures"][:2] if lex["failures"] else "")
    if lex["failures"]:
        c.violation({"kind": "a hypothesis of the lextree = flat-network theorems (Props/C02Lex.lean) is false on a real case",
                     "failures": lex["failures"],
                     "clauses": "sil equal, sil<nCi, wip/pip/shift, arcWordP on every arc (pron, fsgFiller, nonempty, CI phones, dictFiller, "
                                "ciTmat, ciSsid, single, begin, internal, final), states<nState, null arcs closed, instsOfArc defined, "
                                "word-internal (ssid,tmat) consistent",
                     "how_to_rerun": "python3 tools/check.py C01 --seed <seed>"}, False, tag="lexhyps")
    never = [k for k in ("exits", "nulls", "startNulls", "dropped", "newly", "reentered", "self0", "fromParent", "fromEntry", "outKept",
                         "outFrom", "innerSelf", "innerPrev", "deadStates", "evalExact") if not covsum.get(k)]
    return {"search_step_tie": dict(agg, wall_s=round(time.time() - t0, 1), grammar_shapes=shapes, beam_settings=beams,
                                    audio_kinds=audio_kinds, generated_grammar_features=feats,
                                    clauses_of_the_relation_exercised=covsum, clauses_never_exercised=never,
                                    lex_hyps={k: v for k, v in lex.items() if k != "failures"})}


# ---------------------------------------------------------------------------------------------
# the check

def nframes_offset():
    txt = (vlib.LEAN / "SSVerif" / "Generated" / "HistConsts.lean").read_text()
    return int(re.search(r"nFramesOffset : Int := (-?\d+)", txt).group(1))


ALL_BRANCHES = ["empty", "minus1", "noscan", "eq_final", "better_taken", "better_nonfinal_rejected", "not_better",
                "stop_frame", "stop_nolink", "no_exit"]     # "stop_index0" (bpidx < 0) needs a root entry with a link: not well-formed
D24_KEY = "D24-leading-null-segment-at-frame--1"


def classify_c03(problem):
    """stable identifier of the witness class of a C03 violation (for known_findings.json)"""
    kind, _, det = problem
    if kind.startswith("segments do not tile"):
        segs = det.get("segments", [])
        # exactly the D24 class: every offending segment is a (NULL) marker reported at (−1, −1)
        # before the first word and the rest tiles once those are read as markers at frame 0
        prev, ok, lead = -1, True, False
        for w, sf, ef in segs:
            if w == "(NULL)":
                if (sf, ef) == (-1, -1) and prev == -1:
                    lead = True
                elif not (sf == ef == max(prev, 0)):
                    ok = False
            else:
                if not (sf == prev + 1 and sf <= ef < det.get("frames_searched", 1 << 30)):
                    ok = False
                prev = ef
        if ok and lead:
            return D24_KEY
    if kind.startswith("segment (word sf ef"):
        # the same leading marker seen through the correspondence: the (repaired) model says (0, 0)
        im, mo = det.get("impl"), det.get("model")
        if det.get("index") == 0 and im and mo and unhex(im[1]) == "(NULL)" and im[2:4] == ["-1", "-1"] \
                and mo[2:4] == ["0", "0"] and im[:2] + im[4:] == mo[:2] + mo[4:]:
            return D24_KEY
    return None


def run_check(c, prop):
    which = "p1" if prop == "C01" else "p3"
    c.trusted += ["harness/h_c01.c (dump of grammar, history table, API results; link identity = pointer identity "
                  "among fsg_model_arcs) + tools/props/c01.py (generators, comparison)",
                  "tools/gen_consts.py (SENSCR_SHIFT, __FSG_ALLOW_BESTPATH__, offset of decoder_n_frames)",
                  "the loaded grammar is taken as the FSG that jsgf_build_fsg / fsg_model_readfile return before "
                  "fsg_search_init touches it (its relation to the JSGF text is C05's subject); for alignment texts "
                  "it is the word chain built by the harness",
                  "dict_basestr as the base-form map (C16's subject)",
                  "production of the history table by the token-passing search is observed per run (wfHistB on every "
                  "dumped table), not modelled",
                  "clang ASan/UBSan as observer of memory errors during the decodes"]
    if prop == "C01":
        # the growth stage (M10) models the production of the table; what stays trusted there is listed by search_step_tie
        c.trusted = [t for t in c.trusted if not t.startswith("production of the history table")]
        c.trusted.append("production of the history table: modelled by the step relation of Model/Search.lean (M10) and proved to "
                         "keep WFHist (Props/C01Search.lean); wfHistB is still evaluated on every dumped table")
    c.assumptions += ["bestpath is compiled out (__FSG_ALLOW_BESTPATH__ = 0, regenerated constant): hyp/seg_iter take the "
                      "history-table branch", "scores stay inside int32 (the model computes in unbounded integers)",
                      "backtraces are shorter than 32768 entries (fsg_seg_t.n_hist is an int16)"]
    # C03's audit also covers the composed frame-accounting theorems (Props/C03Frames imports C06, C07, Search)
    if not (c.lean_obligations(extra_targets=("SSVerif.Props.C03Frames",)) if prop == "C03" else c.lean_obligations()):
        return
    consts = (vlib.LEAN / "SSVerif" / "Generated" / "HistConsts.lean").read_text()
    c.oblige("regenerated constant: __FSG_ALLOW_BESTPATH__ = 0 (the modelled branch of fsg_search_hyp/seg_iter is the live one)",
             "fsgAllowBestpath : Nat := 0" in consts, consts)
    nfoff = nframes_offset()
    binp = private_harnesses(c.scratch)
    snapshot_driver(c.scratch)
    thorough = c.tier == "thorough"
    stats = {"audio": {}, "grammar": {}, "features": {}, "beam": {}, "rates": {}, "chunking": {}}
    step_cov = search_step_tie(c, thorough) if prop == "C01" else {}
    cases = []
    for prop_dir in ("C01", "C03"):
        for f in sorted((vlib.ROOT / "corpus" / prop_dir).glob("*.json")):
            cases.append((f"corpus-{f.stem}", json.loads(f.read_text())))
    ncorp = len(cases)
    target_decodes = 60 if not thorough else 3000
    for k in range(1 if not thorough else 25):      # 0–5-frame utterances in every run
        cases.append((f"small{k}", gen_small_case(c.rng, stats)))
    for k in range(2 if not thorough else 40):      # installation route × toprule in every run
        cases.append((f"inst{k}", gen_install_case(c.rng, stats)))
    ndec = 0
    while ndec < target_decodes:
        cs = gen_case(c.rng, stats, thorough)
        ndec += sum(len(u["utts"]) for u in cs["units"])
        cases.append((f"g{len(cases)}", cs))
    cases += closer_families(c, stats, thorough)     # refused grammar switches; results longer than 256 words
    results = {}
    workers = 4 if not thorough else 6

    def work(item):
        tag, cs = item
        return tag, run_case(binp, cs, c.scratch, tag, nfoff)
    with concurrent.futures.ThreadPoolExecutor(max_workers=workers) as ex:
        for tag, r in ex.map(work, cases):
            results[tag] = r
    agg = {"dumps": 0, "final_dumps": 0, "partial_dumps": 0, "with_hyp": 0, "no_exit_final": 0, "no_exit_partial": 0,
           "exit_but_no_word": 0, "null_segments": 0, "leading_null": 0, "entries_max": 0, "entries_total": 0,
           "utterances": 0, "grammar_loads": 0, "grammar_rejected": 0, "zero_frame_dumps": 0, "frames_1_to_4_dumps": 0,
           "harness_crashes": 0, "reruns_on_plain_flavour": 0}
    reruns = {}
    distinct = set()
    small_final = {}
    end_gap = {"final": {"results": 0, "last_segment_ends_at_last_frame": 0, "ends_earlier": 0, "max_gap_frames": 0},
               "partial": {"results": 0, "last_segment_ends_at_last_frame": 0, "ends_earlier": 0, "max_gap_frames": 0}}
    jsgf_oracle = {}
    branches = {}
    all_ok = {"corr": True, "wf": True, "oracle": True, "crash": True}
    reported = 0
    failing = []
    d24_listed = any(kf.get("property") == "C03" and kf.get("key") == D24_KEY and kf.get("status", "open") == "open"
                     for kf in vlib.known_findings())
    for tag, cs in cases:
        r = results[tag]
        agg["utterances"] += r["utts"]
        if r.get("died_assert"):
            agg["reruns_on_plain_flavour"] += 1
            reruns[r["died_assert"]] = reruns.get(r["died_assert"], 0) + 1
        agg["grammar_loads"] += len(r["loaded"])
        agg["grammar_rejected"] += r["rejects"]
        for inf in r["infos"]:
            agg["dumps"] += 1
            agg["final_dumps" if inf["final"] else "partial_dumps"] += 1
            agg["entries_max"] = max(agg["entries_max"], inf["entries"])
            agg["entries_total"] += inf["entries"]
            agg["null_segments"] += inf["nullsegs"]
            agg["leading_null"] += 1 if inf["leading_null"] else 0
            jo = inf.get("jsgf_text_oracle")
            if jo:
                jsgf_oracle[jo] = jsgf_oracle.get(jo, 0) + 1
            for b in inf.get("branches", []):
                if b:
                    branches[b] = branches.get(b, 0) + 1
            if inf.get("end_rule_checked"):
                end_gap["results_on_which_the_end_rule_of_Props/C03End_was_evaluated (last word/filler end = frame of the last table entry)"] = \
                    end_gap.get("results_on_which_the_end_rule_of_Props/C03End_was_evaluated (last word/filler end = frame of the last table entry)", 0) + 1
            if inf.get("last_ef_gap") is not None:
                eg = end_gap["final" if inf["final"] else "partial"]
                eg["results"] += 1
                eg["last_segment_ends_at_last_frame" if inf["last_ef_gap"] == 0 else "ends_earlier"] += 1
                eg["max_gap_frames"] = max(eg["max_gap_frames"], inf["last_ef_gap"])
                if inf["last_ef_gap"] > 0 and "first_witness" not in eg:
                    eg["first_witness"] = {"case": tag, "dump": inf.get("tag"), "frames_searched": inf["frames"],
                                           "last_segment_ends_at": inf["frames"] - 1 - inf["last_ef_gap"], "hyp": inf["hyp"],
                                           "grammar": cs["units"][0]["grammar"]["text"][:160], "config": cs["config"]}
            if inf["final"] and 0 <= inf["frames"] <= 5:
                small_final[inf["frames"]] = small_final.get(inf["frames"], 0) + 1
            if inf["frames"] == 0:
                agg["zero_frame_dumps"] += 1
            elif inf["frames"] <= 4:
                agg["frames_1_to_4_dumps"] += 1
            if inf["hyp"]:
                agg["with_hyp"] += 1
                distinct.add((tag, inf["tag"], inf["hyp"]))
            elif inf["nseg"] == 0:
                agg["no_exit_final" if inf["final"] else "no_exit_partial"] += 1
            else:
                agg["exit_but_no_word"] += 1
                distinct.add((tag, inf["tag"], "<only fillers/nulls>"))
        if len(c.samples) < 6 and r["infos"]:
            c.samples.append({"case": tag, "config": cs["config"], "grammar": cs["units"][0]["grammar"]["text"][:200],
                              "results": [{k: inf[k] for k in ("tag", "final", "frames", "entries", "hyp", "nseg")} for inf in r["infos"][:4]]})
        if r["crash"]:
            agg["harness_crashes"] += 1
            all_ok["crash"] = False
            c.oblige(f"decode runs to completion without sanitizer report / abort ({tag})", False, r["crash"])
            if reported < 4:
                reported += 1
                c.violation({"kind": "the library crashed / aborted / reported a sanitizer error during the decode",
                             "case": cs, "crash": r["crash"],
                             "note": "not a statement of this property; investigate (harness error or a defect owned by C09/C10/C18)",
                             "how_to_rerun": f"python3 tools/check.py {prop} --replay <this file>"}, False, tag="crash")
            continue
        probs = r[which]
        if not probs:
            continue
        # known finding? (C03 only, exactly the D24 witness class)
        keys = [classify_c03(p) if prop == "C03" else None for p in probs]
        if prop == "C03" and all(k == D24_KEY for k in keys) and d24_listed:
            probs = sorted(probs, key=lambda p: not p[1])
            c.violation({"kind": probs[0][0], "detail": probs[0][2], "case": cs}, True, tag="D24", finding_key=D24_KEY)
            continue        # an open known finding: printed as KNOWN-FINDING, nothing else suppressed
        for p in probs:
            if p[0].startswith("wfHistB"):
                all_ok["wf"] = False
            elif p[1]:
                all_ok["oracle"] = False
            else:
                all_ok["corr"] = False
        failing.append((tag, cs, probs))
    # report (shrunk) the cases in which the implementation itself breaks the property first
    failing.sort(key=lambda t: not any(p[1] for p in t[2]))
    for tag, cs, probs in failing[:3]:
        want = {p[0] for p in probs if p[1]} or {p[0] for p in probs}

        def fails(cand, _which=which, _kinds=want):
            rr = run_case(binp, cand, c.scratch, f"shrink{os.getpid()}", nfoff)
            return rr["crash"] is None and any(p[0] in _kinds for p in rr[_which])
        small = shrink_case(cs, fails)
        rs = run_case(binp, small, c.scratch, "shrunk", nfoff)
        sp = sorted(rs[which] or probs, key=lambda p: not p[1])      # what the implementation got wrong first
        c.violation({"kind": sp[0][0], "problems": [{"what": k, "implementation_violates_property": v, "detail": d} for k, v, d in sp[:4]],
                     "case": small, "original_case_tag": tag, "failing_cases_in_this_run": len(failing),
                     "how_to_rerun": f"python3 tools/check.py {prop} --replay <this file>"}, any(p[1] for p in sp))
    closer_report(c, cases, results)
    ndumps = agg["dumps"]
    c.oblige("checked precondition: wfHistB (⇔ WFHist) holds on every history table dumped from the real decoder", all_ok["wf"])
    c.oblige("correspondence: findExit/hyp/segs recomputed from the dump = what decoder_hyp / decoder_seg_iter returned, on every dump",
             all_ok["corr"])
    if prop == "C01":
        c.oblige("oracle: verified acceptance (final) / prefix-path (partial) decision of the grammar as loaded on every reported "
                 "hypothesis and segment-word sequence; projB search FSG → loaded grammar; checkPath of the backtrace", all_ok["oracle"])
    else:
        c.oblige("oracle: segsTileB, scoresSumB, hypothesis = segment words on every reported segmentation; frame accounting "
                 "(returns of processing calls + end_utt = front-end frames; decoder_n_frames = that + source offset) on every utterance",
                 all_ok["oracle"])
    if prop == "C01":
        # c01hyp: byte level of fsg_search_hyp (Props/C01Hyp.lean); every mismatch is already a problem of its dump (correspondence)
        hb = {"blocks_compared": 0, "with_allocation_size": 0, "len_max": 0, "len_histogram": {}}
        for tag, cs in cases:
            for inf in results[tag]["infos"]:
                b = inf.get("hyp_block")
                if b and b.get("compared"):
                    hb["blocks_compared"] += 1
                    hb["with_allocation_size"] += 1 if b["alloc_known"] else 0
                    hb["len_max"] = max(hb["len_max"], b["len"])
                    k = "1-8" if b["len"] <= 8 else "9-32" if b["len"] <= 32 else "33-128" if b["len"] <= 128 else "129+"
                    hb["len_histogram"][k] = hb["len_histogram"].get(k, 0) + 1
        hb_kinds = ("byte-level model of fsg_search_hyp", "fsg_search_hyp returned NULL / a string where", "hypothesis of C01_hyp_cstring",
                    "strlen of the returned hypothesis string", "self-test of the allocation-size observer",
                    "allocated size of the returned hypothesis string", "bytes of the block holding the returned hypothesis string")
        hb["mismatches"] = sum(1 for tag, cs in cases for pr in results[tag]["p1"] if pr[0].startswith(hb_kinds))
        c.oblige("correspondence (byte level, Model/HypBuf.lean): on every dump with a hypothesis the block decoder_hyp returned has "
                 "allocated size = the model's len = Σ(strlen(base form) + 1), strlen = len - 1, and every byte of the block = the model's "
                 "block (pass 2 run on the dumped backtrace: no store out of bounds, c ends at 0, each byte 0..len-2 stored once, no NUL "
                 "inside a word); allocation-size observer self-tested; ≥ 1 block compared with its allocation size",
                 hb["mismatches"] == 0 and (hb["with_allocation_size"] > 0 or not all_ok["crash"] or agg["with_hyp"] == 0), hb)
        c.cov["hypothesis_blocks (c01hyp)"] = hb
    c.oblige("every decode ran to completion (no sanitizer report, assert, exit, timeout)", all_ok["crash"])
    c.oblige("generator: final results of utterances of 0, 1, 2, 3 and 4 frames were all produced and judged in this run",
             all(small_final.get(t, 0) > 0 for t in range(5)) or not all_ok["crash"], small_final)
    c.cov.update({"evaluations": ndumps, "distinct_nontrivial": len(distinct),
                  "rule": "evaluation = one dump (history table + API results) judged; non-trivial = the result has an exit "
                          "(hypothesis or at least one segment); distinct by (case, dump point, hypothesis)",
                  "cases": len(cases), "corpus_cases": ncorp, "decoder_n_frames_offset_in_source": nfoff, **agg,
                  "reruns_on_plain_flavour_by_reason (library stopped under asserts/UBSan for a reason owned by C09/C18)": reruns,
                  "dumps_judged_by_the_JSGF_text_oracle (Lean model of C05, configured rule)": jsgf_oracle,
                  "final_results_by_frames_searched_0_to_5": {str(k): small_final.get(k, 0) for k in range(6)},
                  "end_of_the_last_segment_vs_last_frame_searched (measured; SegsTile bounds it, nothing forces equality: "
                  "fsg_search_find_exit takes the last frame that HAS a word exit)": end_gap,
                  "findExit_branches_hit (dumps)": branches,
                  "findExit_branches_never_hit": [b for b in ALL_BRANCHES if b not in branches],
                  "acoustic_models": stats.get("model", {}), "polling_calls": stats.get("polls", {}), "audio_kinds": stats["audio"], "grammar_kinds": stats["grammar"], "grammar_features": stats["features"],
                  "beam_settings": stats["beam"], "rate_settings": stats["rates"], "chunking_styles": stats["chunking"], **step_cov})


def check(c):
    run_check(c, "C01")


def replay_common(c, path, prop):
    c.lean_obligations(extra_targets=("SSVerif.Props.C03Frames",)) if prop == "C03" else c.lean_obligations()
    binp = private_harnesses(c.scratch)
    snapshot_driver(c.scratch)
    obj = json.loads(open(path).read())
    if "search_step_case" in obj:
        cov = search_step_tie(c, False, replay_case=obj["search_step_case"])
        c.cov.update({"evaluations": cov["search_step_tie"]["frames"], "distinct_nontrivial": cov["search_step_tie"]["frames"], **cov})
        return
    cs = obj.get("case", obj)
    r = run_case(binp, cs, c.scratch, "replay", nframes_offset())
    probs = r["p1" if prop == "C01" else "p3"]
    if r["crash"]:
        c.oblige("replayed decode runs to completion", False, r["crash"])
    for k, v, d in probs[:5]:
        vlib.log(f"[{prop}] replay: {k}: {json.dumps(d, default=str)[:600]}")
    if probs:
        keys = [classify_c03(p) if prop == "C03" else None for p in probs]
        fk = D24_KEY if prop == "C03" and all(k == D24_KEY for k in keys) else None
        c.violation({"kind": probs[0][0], "problems": [{"what": k, "implementation_violates_property": v, "detail": d} for k, v, d in probs[:4]],
                     "case": cs}, any(p[1] for p in probs), finding_key=fk)
    c.oblige("replayed case satisfies the property and the correspondence", not probs and not r["crash"])
    c.cov.update({"evaluations": len(r["infos"]), "distinct_nontrivial": sum(1 for i in r["infos"] if i["nseg"])})


def replay(c, path):
    replay_common(c, path, "C01")
