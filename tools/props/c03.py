"""C03 — word segmentation tiles the utterance and agrees with hypothesis and score.

Shares model (SSVerif/Model/Hist.lean), harness (harness/h_c01.c), driver sub-command (`ssdriver c01`)
and generators with C01 (tools/props/c01.py); this module judges the C03 side of every dump:
the model's segments = the iterator output field by field, the verified checkers segsTileB /
scoresSumB / hypothesis = segment words on the reported segmentation, where the segmentation ends
(Props/C03End.lean), and the frame accounting of the processing calls (sum of the real return values).
Theorems: SSVerif/Props/C03.lean, C03Frames.lean, C03Ret.lean (return values, Model/DecRet.lean),
C03End.lean.  The return-value model of Model/DecRet.lean is tied to the implementation call by call in
the C07 check (tools/props/c07.py reads `rv=` of harness/h_c07.c and compares it with the driver's).
"""
from props import c01


def fix_trusted(c):
    """the trusted base as it stands for C03 (c01.run_check writes the text shared with C01)"""
    c.trusted = [t for t in c.trusted if not t.startswith("production of the history table")]
    c.trusted += [
        "production of the history table: WFHist is a precondition of the C03 theorems, evaluated (wfHistB) on every "
        "dumped table; that fsg_search_start/step keep it is C01's theorem over the step relation of Model/Search.lean "
        "(Props/C01Search.lean), tied to the implementation by C01's check, not by this one",
        "frame accounting: the return values and d->n_frame are modelled (Model/DecRet.lean over Model/AcmodBuf.lean) and "
        "proved to add up (Props/C03Ret.lean) for utterances within the bound s0.cmnFrames + frames <= CMN_WIN_HWM "
        "(streaming) / any length (batch CMN); the model is compared with the implementation call by call in the C07 "
        "check (harness/h_c07.c, tools/props/c07.py, lean/Driver/C07.lean); THIS check evaluates the sums on the real "
        "return values of its own schedules (any length), and fsgs->frame = number of search steps "
        "(assert(fsgs->frame == frame_idx) in fsg_search_step, asserts on)",
        "the last segment is NOT tied to the last frame searched, by the theorems or by the code: it ends in the frame of "
        "the last history-table entry (Props/C03End.lean; evaluated on every dump; measured distribution in the coverage)",
    ]


def long_history_tie(c):
    """Frame accounting BEYOND the bound of the `_partial` theorems (s0.cmnFrames + frames <= CMN_WIN_HWM): one decoder,
    five streaming utterances over the whole recording without resetting the CMN state, so that cmn->nframe passes
    CMN_WIN_HWM and the live-CMN window shifts in the middle of an utterance.  The C07 check keeps away from that
    regime (beyond it the features legitimately depend on the history); here only what the frame accounting speaks
    about is compared, call by call, between the real decoder (harness/h_c07.c) and the models (`ssdriver c07`:
    Model/AcmodFe + AcmodBuf for the counters, Model/DecRet for the values returned): every acmod counter, the frame
    index of every search step, every front-end call (room:frames:left), the value each decoder_process_* /
    decoder_end_utt call returned, the growth of d->n_frame; and on the implementation's own numbers: sum of returns +
    growth of d->n_frame inside end_utt = output_frame = frames the front end delivered."""
    from props import c07
    import vlib
    binp = vlib.build_harness("h_c07", extra_flags=c07.WRAP)
    g = c07.GROUPS[0]
    big = 99999999
    hist = [("40,3,-1", ["p i 30000 0", f"p i {big} 0"]),
            ("-", ["p i 20000 0", "q hyp", f"p i {big} 0"]),
            ("-", ["p i 30000 1", f"p i {big} 1"]),
            ("-", ["p f 7000 0", "p i 3000 1", "q seg", "p i 25000 0", f"p i {big} 0"]),
            ("-", ["p i 1000 0", "p i 30000 0", f"p f {big} 0"])]
    runs = [c07.mk_run(0, big, cmn, ops) for cmn, ops in hist]
    rc, err, P, done = c07.run_harness(binp, g, runs, timeout=300)
    name = "frame accounting beyond the CMN bound (5 utterances on one decoder, live-CMN window shifts): "
    if done < len(runs) or "cmnhwm" not in P:
        c.oblige(name + "harness ran the history to completion", False, {"exit_code": rc, "stderr_tail": err[-800:], "done": done})
        return
    cmn0 = int(c07.kv(runs[0]["out"][0])["cmnframes"])
    mrc, merr, mouts, _ = c07.run_model(P, runs, cmn0)
    if mrc != 0:
        c.oblige(name + "model driver runs", False, merr[-800:])
        return
    problems, stat = [], {"calls": 0, "positive": 0, "steps": 0, "fe_calls": 0, "beyond": 0, "moved": 0, "frames": []}
    for k, (r, mo) in enumerate(zip(runs, mouts)):
        out = r["out"]
        names = ["utt"] + r["ops"] + ["end", "res"]
        prev_nfrm, tot = None, 0
        for idx, (o, m) in enumerate(zip(out, mo)):
            cs, ms = o.split(" | "), m.split(" | ")
            cst, mst, d, mk = c07.kv(cs[-1]), c07.kv(ms[-1]), c07.kv(cs[0]), c07.kv(ms[0])
            where = f"utterance {k} line {idx} ({names[idx]})"
            if "FAULT" in mst or "FEBAD" in mk:
                problems.append(f"{where}: model fault {mst.get('FAULT')}")
                break
            bad = [x for x in c07.ST_KEYS if cst.get(x) != mst.get(x)]
            if bad:
                problems.append(f"{where}: counter {bad[0]}: C={cst.get(bad[0])} model={mst.get(bad[0])}")
                break
            if idx < len(out) - 1:
                csc = [(e[0], e[1]) for e in c07.parse_sc(d.get("sc", "-"))]
                msc = [(e[0], e[1]) for e in c07.parse_sc(mk.get("sc", "-"))]
                if csc != msc:
                    problems.append(f"{where}: search steps differ: C={csc[:6]}.. model={msc[:6]}..")
                    break
                stat["steps"] += len(csc)
                if "fe" in mk:
                    stat["fe_calls"] += 0 if mk["fe"] == "-" else mk["fe"].count(",") + 1
                    if mk["fe"] != d.get("fe", "-"):
                        problems.append(f"{where}: front-end calls: C={d.get('fe', '-')[:120]} model={mk['fe'][:120]}")
                        break
            if "rv" in mk:
                stat["calls"] += 1
                stat["positive"] += 1 if mk["rv"] not in ("0", "-") else 0
                if d.get("rv") != mk["rv"]:
                    problems.append(f"{where}: value returned: C={d.get('rv')} model={mk['rv']}")
                    break
                if names[idx].startswith("p "):
                    tot += int(d["rv"])
            grow = None if prev_nfrm is None else int(cst["nfrm"]) - prev_nfrm
            if grow is not None and grow != int(mk.get("cnt", "0")):
                problems.append(f"{where}: d->n_frame grew by {grow}, model: {mk.get('cnt', '0')}")
                break
            prev_nfrm = int(cst["nfrm"])
            if names[idx] == "end":
                # on the implementation's own numbers
                if tot + grow != int(cst["of"]) or int(cst["of"]) != int(mst["n"]) or int(cst["nfeat"]) != 0:
                    problems.append(f"{where}: sum of returns {tot} + searched in end_utt {grow} != output_frame {cst['of']} "
                                    f"(front-end frames in the model: {mst['n']}, frames left unsearched: {cst['nfeat']})")
                    break
                c0 = int(c07.kv(out[0])["cmnframes"])
                stat["frames"].append((c0, int(cst["of"])))
                stat["beyond"] += 1 if c0 + int(cst["of"]) > P["cmnhwm"] else 0
                # the mean moved BEFORE decoder_end_utt (cmn_live_update at the end always moves it)
                stat["moved"] += 1 if c07.kv(mo[idx - 1].split(" | ")[-1]).get("moved") == "1" else 0
    c.oblige(name + "every counter, search step, front-end call, returned value and d->n_frame growth of the real decoder equals "
             "the models', and sum of returns + frames searched in end_utt = output_frame = front-end frames",
             not problems and stat["beyond"] >= 2 and stat["moved"] >= 2 and stat["positive"] >= 4,
             {"problems": problems[:3], **stat})
    c.cov.update({"frame_accounting_beyond_the_CMN_bound (cmn->nframe at start, frames) per utterance": stat["frames"],
                  "utterances_beyond_the_bound": stat["beyond"], "utterances_in_which_the_live_CMN_window_shifted_before_end_utt (model)": stat["moved"],
                  "calls_whose_return_value_was_compared_beyond_or_near_the_bound": stat["calls"],
                  "search_steps_compared_there": stat["steps"], "front_end_calls_compared_there": stat["fe_calls"]})


# ---------------------------------------------------------------------------------------------------------------
# long utterances: frame numbers beyond 2^15 (and, thorough, 2^16) in ONE utterance — every integer that carries a
# frame index from the search to seg_iter_frames must hold them (Props/C03Widths.lean is the proof-side counterpart)

LONG_GRAMMARS = ["#JSGF V1.0;\ngrammar loop;\npublic <s> = (go forward ten meters)+ ;\n",
                 "#JSGF V1.0;\ngrammar loop;\npublic <s> = (go forward ten meters | go backward ten meters)+ ;\n",
                 "#JSGF V1.0;\ngrammar loop;\npublic <s> = (go | forward | ten | meters)+ ;\n"]
LONG_SRC = "goforward.raw"


def gen_long_case(rng, boundary, stats, first=False):
    """one streamed utterance that is longer than `boundary` frames (tests/data/goforward.raw repeated, looping grammar, so that
    words keep exiting beyond the boundary), with a partial result before the boundary, one right after it, one before
    decoder_end_utt and the final one"""
    n1 = len(c01.source_samples(LONG_SRC))
    per = n1 // 160                                     # frames per repetition at 16 kHz / 100 frames per second
    reps = boundary // per + rng.range(3, 5)
    total = n1 * reps
    cfg = {"dict": "@DATA/turtle.dic"}
    if not first:
        if rng.chance(0.3):
            cfg["fsgusefiller"] = "no"
        if rng.chance(0.3):
            cfg["cmn"] = rng.choice(["batch", "none", "live"])
        if rng.chance(0.3):
            cfg["silprob"] = rng.choice(["0.5", "1e-6"])
    gram = LONG_GRAMMARS[0] if first else rng.choice(LONG_GRAMMARS)
    style = "max" if first else rng.weighted([("max", 3), ("fixed", 2), ("random", 2)])
    f32 = 0 if first else (1 if rng.chance(0.2) else 0)
    chunks, left = [], total
    fixed = rng.choice([8000, 16000, 20000, 31999])
    while left > 0:
        k = min(left, c01.MAXCALL if style == "max" else fixed if style == "fixed" else rng.range(4000, c01.MAXCALL))
        chunks.append(k)
        left -= k
    cross = (boundary + 2 * per) * 160                  # samples after which ≥ 2 repetitions lie beyond the boundary
    early = rng.range(1, max(2, len(chunks) // 2))
    plan, fed, crossed = ["start"], 0, False
    for i, k in enumerate(chunks):
        plan.append(["proc", k, 0, 0, f32])
        fed += k
        if i == early and fed < boundary * 160:
            plan.append(["dump", f"mid{i}"])
        if not crossed and fed >= cross and i != len(chunks) - 1:
            crossed = True
            plan.append(["dump", f"past{i}"])
    plan += [["dump", "preend"], "end", ["dump", "fin"]]
    for k, v in (("boundary", str(boundary)), ("chunking", style), ("grammar", gram.split("=")[1].strip()),
                 ("fillers", cfg.get("fsgusefiller", "yes")), ("float32", str(f32))):
        stats.setdefault(k, {})
        stats[k][v] = stats[k].get(v, 0) + 1
    return {"config": cfg, "lang": "en-us", "long_boundary": boundary,
            "units": [{"grammar": {"kind": "jsgf", "text": gram},
                       "utts": [{"audio": [{"src": LONG_SRC}] * reps, "plan": plan}]}]}


def long_utterance_start(c):
    """draws the cases (main thread) and starts decoding them in the background as soon as c01.run_check has built the
    harnesses and pinned the driver; the decodes overlap with the main case loop of the check"""
    import json, threading, time, concurrent.futures
    import vlib
    from pathlib import Path
    thorough = c.tier == "thorough"
    stats, cases = {}, []
    for f in sorted((vlib.ROOT / "corpus" / "C03" / "long").glob("*.json")):
        cases.append((f"c03long-corpus-{f.stem}", json.loads(f.read_text())))
        u0 = cases[-1][1]["units"][0]
        stats.setdefault("corpus_cases (repetitions of goforward.raw, processing calls, results asked for)", []).append(
            (len(u0["utts"][0]["audio"]), sum(1 for o in u0["utts"][0]["plan"] if o[0] == "proc"),
             [o[1] for o in u0["utts"][0]["plan"] if o[0] == "dump"]))
    if thorough:
        cases += [(f"c03long{k}", gen_long_case(c.rng, b, stats)) for k, b in enumerate([32768, 32768, 65536])]
    elif not cases:
        cases.append(("c03long0", gen_long_case(c.rng, 32768, stats, first=True)))
    st = {"cases": cases, "stats": stats, "results": None, "stop": False, "error": None}

    def ready():
        return bool(c01._driver) and Path(c01._driver[0]).parent == Path(c.scratch) and bool(c01._ndebug) \
            and Path(c01._ndebug[0]).parent == Path(c.scratch)

    def run():
        try:
            while not ready():
                if st["stop"]:
                    return
                time.sleep(0.5)
            binp, nfoff = Path(c.scratch) / "h_c01-asan", c01.nframes_offset()
            with concurrent.futures.ThreadPoolExecutor(max_workers=2) as ex:
                st["results"] = list(ex.map(lambda t: c01.run_case(binp, t[1], c.scratch, t[0], nfoff), cases))
        except Exception as e:      # reported by long_utterance_finish
            st["error"] = repr(e)
    st["ready"] = ready
    st["thread"] = threading.Thread(target=run, daemon=True)
    st["thread"].start()
    return st


def long_utterance_finish(c, st):
    """Segmentation of utterances whose frame numbers pass 2^15 (quick: the corpus case; thorough: also generated ones,
    one of them beyond 2^16): the whole judgement of c01.run_case (model = iterator output field by field, segsTileB /
    scoresSumB / hypothesis = segment words evaluated by the verified checkers on what decoder_seg_iter returned, frame
    accounting of every call) on partial results before and after the boundary and on the final result."""
    from pathlib import Path
    if not st["ready"]():
        st["stop"] = True           # c01.run_check stopped before it had harnesses and driver: nothing to judge
    st["thread"].join()
    cases, stats, results = st["cases"], st["stats"], st["results"]
    thorough = c.tier == "thorough"
    nfoff = c01.nframes_offset()
    if results is None:
        c.oblige("long utterances: the family ran", False, st["error"])
        return
    ok, reached, seen = True, True, []
    for (tag, cs), r in zip(cases, results):
        b = cs.get("long_boundary", 32768)
        asserted = None
        if r["crash"] and "Assertion" in r["crash"].get("stderr_tail", ""):
            # an assert of the library stopped the assert-enabled build: the pinned build is -DNDEBUG and goes on, so the
            # property is evaluated on what THAT build returns (plain flavour of the same harness); the assert is reported too
            asserted = r["crash"]["stderr_tail"][-300:]
            r = c01.run_case(Path(c.scratch) / "h_c01-ndebug", cs, c.scratch, tag + "-plain", nfoff)
            stats["cases_judged_on_the_plain_flavour_after_a_library_assert"] = stats.get("cases_judged_on_the_plain_flavour_after_a_library_assert", 0) + 1
            if not r["crash"] and not r["p3"]:
                ok = False
                c.violation({"kind": "an assert of the library fails during a long utterance (the -DNDEBUG build returns results that satisfy the property)",
                             "assert": asserted, "case": cs}, False, tag="long-assert")
        if r["crash"]:
            ok = False
            c.oblige(f"long utterance: decode runs to completion without sanitizer report / abort ({tag})", False, r["crash"])
            c.violation({"kind": "the library crashed / aborted / reported a sanitizer error during a long utterance",
                         "case": cs, "crash": r["crash"]}, False, tag="long-crash")
            continue
        beyond = [i for i in r["infos"] if i["frames"] > b and i.get("last_ef_gap") is not None
                  and i["frames"] - 1 - i["last_ef_gap"] >= b]
        seen.append({"case": tag, "boundary": b,
                     "results (final, frames searched, end of last segment, segments)":
                         [(i["final"], i["frames"], None if i.get("last_ef_gap") is None else i["frames"] - 1 - i["last_ef_gap"], i["nseg"])
                          for i in r["infos"]]})
        probs = sorted(r["p3"], key=lambda p: not p[1])
        if probs:
            ok = False
            c.violation({"kind": probs[0][0],
                         "problems": [{"what": k, "implementation_violates_property": v, "detail": _clip(d)} for k, v, d in probs[:4]],
                         "case": cs, "family": f"long utterance (more than {b} frames)", "library_assert_in_the_assert_enabled_build": asserted,
                         "how_to_rerun": "python3 tools/check.py C03 --replay <this file>"}, any(p[1] for p in probs), tag="long")
        elif not (any(i["final"] for i in beyond) and any(not i["final"] for i in beyond)):
            reached = False
    c.oblige("long utterances (frame numbers beyond 2^15" + (" and 2^16" if thorough else "") + "): the model's segments = the iterator "
             "output, segsTileB, scoresSumB, hypothesis = segment words and the frame accounting hold on every partial and final result",
             ok, seen)
    c.oblige("generator: every long utterance produced a partial AND a final result whose last word segment ends beyond the boundary",
             reached or not ok, seen)
    c.cov.update({"long_utterance_family": {"cases": len(cases), "distribution": stats, "results": seen}})


def _clip(d):
    """violation details of a long utterance without the hundreds of segments"""
    out = {}
    for k, v in d.items():
        out[k] = (v[:6] + ["…"] + v[-12:]) if isinstance(v, list) and len(v) > 24 else v
    return out


# ---------------------------------------------------------------------------------------------------------------
# vocabulary changed at run time (decoder_add_word) before / between / after grammar loads: alternate pronunciations of
# FILLER words, alternates of ordinary words, new words — crossed with fillprob / silprob settings that put the added
# fillers on the best path.  "Filler" in the hypothesis clause is judged by the DICTIONARY (dict_filler_word, lines SD of
# the harness), not by the grammar's own marks, and the two are tied on every word of the search FSG.

VOCAB_GRAMMARS = [("jsgf", "#JSGF V1.0;\ngrammar g;\npublic <s> = go forward ten meters ;\n"),
                  ("jsgf", "#JSGF V1.0;\ngrammar g;\npublic <s> = (go forward ten meters)+ ;\n"),
                  ("jsgf", "#JSGF V1.0;\ngrammar g;\npublic <s> = go (forward | backward) (ten | two | four) [meter | meters] ;\n"),
                  ("jsgf", "#JSGF V1.0;\ngrammar g;\npublic <s> = [go] forward [ten] meters ;\n"),
                  ("align", "go forward ten meters")]
FILLER_ALTS = [("[NOISE](2)", "<sil>"), ("<sil>(2)", "[NOISE]"), ("[SPEECH](2)", "<sil>"), ("[NOISE](3)", "[SPEECH]"), ("<sil>(3)", "[SPEECH]")]
WORD_ALTS = [("meters(2)", "meter"), ("forward(2)", "four"), ("ten(2)", "two"), ("go(2)", "do"), ("meters(3)", "centimeters")]
NEW_WORDS = [("[COUGH]", "<sil>"), ("++UM++", "[NOISE]"), ("Go", "go"), ("METERS", "meters"), ("tin", "ten")]


def gen_vocab_case(rng, stats, k):
    bump = lambda key, v: stats.setdefault(key, {}).__setitem__(v, stats.setdefault(key, {}).get(v, 0) + 1)
    cfg = {}
    if rng.chance(0.6):
        cfg["dict"] = "@DATA/turtle.dic"
    fp = rng.weighted([("0.05", 4), ("0.5", 2), ("0.1", 2), ("1e-3", 1), (None, 1)]) if k else "0.05"
    sp = rng.weighted([(None, 5), ("1e-6", 2), ("0.5", 1), ("0.005", 1)])
    if fp:
        cfg["fillprob"] = fp
    if sp:
        cfg["silprob"] = sp
    if rng.chance(0.1):
        cfg["fsgusealtpron"] = "no"
    if rng.chance(0.1):
        cfg["fsgusefiller"] = "no"
    bump("fillprob", str(fp)), bump("silprob", str(sp))

    def draw_words(what):
        out = []
        kinds = rng.weighted([(("filler-alt",), 4), (("filler-alt", "word-alt"), 3), (("word-alt",), 1), (("filler-alt", "new"), 2),
                              (("new",), 1), (("filler-alt", "filler-alt", "word-alt", "new"), 2)])
        for kd in kinds:
            w = rng.choice(FILLER_ALTS if kd == "filler-alt" else WORD_ALTS if kd == "word-alt" else NEW_WORDS)
            if list(w) not in out and not any(w[0] == x[0] for x in seen):
                out.append(list(w))
                seen.append(w)
                bump("added_words (kind @ when)", f"{kd} @ {what}")
        # (3) before (2): an alternate numbered 3 is only meaningful to a reader after 2, the dictionary does not care
        return out
    seen = []
    units = []
    nunits = rng.weighted([(1, 5), (2, 4), (3, 1)])
    case = {"config": cfg, "lang": "en-us", "units": units}
    when0 = rng.weighted([("before", 6), ("after", 1), ("both", 2)]) if k else "before"
    if k == 0:
        # every run: a silence-pronounced alternate of the noise filler, as likely as silence is by default
        cfg.clear()
        cfg.update({"dict": "@DATA/turtle.dic", "fillprob": "0.05"})
        case["addwords"] = [list(FILLER_ALTS[0])]
        seen.append(FILLER_ALTS[0])
        bump("added_words (kind @ when)", "filler-alt @ before the first grammar")
    elif when0 in ("before", "both"):
        case["addwords"] = draw_words("before the first grammar")
    n1 = len(c01.source_samples(LONG_SRC))
    for ui in range(nunits):
        kind, text = rng.choice(VOCAB_GRAMMARS) if k else VOCAB_GRAMMARS[0]
        bump("grammar", kind + ": " + text.split("=")[-1].strip()[:40])
        u = {"grammar": {"kind": kind, "text": text}, "utts": []}
        if ui > 0 and rng.chance(0.7):
            u["addwords"] = draw_words("between grammar loads")
        if (ui == 0 and when0 in ("after", "both")) or (ui > 0 and rng.chance(0.25)):
            u["postwords"] = draw_words("after the grammar load")
        for _ in range(rng.weighted([(1, 6), (2, 3)])):
            pad = rng.weighted([(0, 5), (6000, 2), (16000, 1)])
            audio = ([{"src": "zero", "b": pad}] if pad and rng.chance(0.5) else []) + [{"src": LONG_SRC}] + \
                    ([{"src": LONG_SRC, "a": 36000, "b": 44000, "gain": 0.5}] if pad else [])
            n = len(c01.render_audio(audio)) // 2
            step = rng.choice([4000, 4000, 2000, 8000, 5555]) if k else 4000
            plan, pos = ["start"], 0
            while pos < n:
                m = min(step, n - pos)
                plan.append(["proc", m, 0, 0, 0])
                pos += m
                if pos < n:
                    plan.append(["dump", f"p{pos}"])
            plan += [["dump", "preend"], "end", ["dump", "fin"]]
            u["utts"].append({"audio": audio, "plan": plan})
        units.append(u)
    return case


def vocabulary_family(c):
    import concurrent.futures
    from pathlib import Path
    binp, nfoff = Path(c.scratch) / "h_c01-asan", c01.nframes_offset()
    thorough = c.tier == "thorough"
    stats = {}
    cases = [(f"c03vocab{k}", gen_vocab_case(c.rng, stats, k)) for k in range(10 if not thorough else 200)]
    with concurrent.futures.ThreadPoolExecutor(max_workers=4) as ex:
        results = list(ex.map(lambda t: c01.run_case(binp, t[1], c.scratch, t[0], nfoff), cases))
    ok, seen = True, {"results": 0, "results_with_an_added_alternate_FILLER_on_the_best_path": 0,
                      "results_with_an_added_alternate_of_an_ordinary_word_on_the_best_path": 0, "by_word": {},
                      "add_word_calls_refused": 0}
    reported, failing = 0, []
    for (tag, cs), r in zip(cases, results):
        for inf in r["infos"]:
            seen["results"] += 1
            af, aw = inf.get("alt_filler_segments") or [], inf.get("alt_word_segments") or []
            hk = "hypotheses_of_C03_filler_marks_follow_dictionary_on_the_dump: " + str(inf.get("filler_theorem_hypotheses"))
            seen[hk] = seen.get(hk, 0) + 1
            seen["results_with_an_added_alternate_FILLER_on_the_best_path"] += 1 if af else 0
            seen["results_with_an_added_alternate_of_an_ordinary_word_on_the_best_path"] += 1 if aw else 0
            for w in set(af + aw):
                seen["by_word"][w] = seen["by_word"].get(w, 0) + 1
        probs = sorted(r["p3"], key=lambda p: not p[1])
        if r["crash"]:
            ok = False
            c.oblige(f"run-time vocabulary: decode runs to completion without sanitizer report / abort ({tag})", False, r["crash"])
            if reported < 2:
                reported += 1
                c.violation({"kind": "the library crashed / aborted / reported a sanitizer error after run-time vocabulary changes",
                             "case": cs, "crash": r["crash"]}, False, tag="vocab-crash")
        elif probs:
            ok = False
            failing.append((tag, cs, probs))
    # the cases in which the implementation itself breaks the property first
    failing.sort(key=lambda t: not any(p[1] for p in t[2]))
    for tag, cs, probs in failing[:3]:
        c.violation({"kind": probs[0][0],
                     "problems": [{"what": k, "implementation_violates_property": v, "detail": _clip(d)} for k, v, d in probs[:4]],
                     "case": cs, "original_case_tag": tag, "failing_cases_in_this_run": len(failing),
                     "family": "vocabulary changed at run time (decoder_add_word) around grammar loads",
                     "how_to_rerun": "python3 tools/check.py C03 --replay <this file>"}, any(p[1] for p in probs), tag=f"vocab-{tag}")
    c.oblige("run-time vocabulary (alternates of fillers / of words, new words, added before / between / after grammar loads): hypothesis = "
             "base forms of the segment words that are not fillers of the DICTIONARY, the grammar's filler marks = the dictionary's on every "
             "word of the search FSG, and every other clause of the judgement, on every partial and final result", ok, seen)
    c.oblige("generator: an alternate pronunciation of a filler word added at run time was on the best path of some result",
             seen["results_with_an_added_alternate_FILLER_on_the_best_path"] > 0 or not ok, seen)
    c.cov.update({"run_time_vocabulary_family": {"cases": len(cases), "distribution": stats, **seen}})


def check(c):
    st = long_utterance_start(c)
    try:
        c01.run_check(c, "C03")
        if c.obligations and all(o[1] for o in c.obligations if o[0].startswith("lake build")):
            long_history_tie(c)
            vocabulary_family(c)
            long_utterance_finish(c, st)
        elif any(o[0].startswith("lake build of the model driver") and o[1] for o in c.obligations) and not st["ready"]():
            # a proof obligation no longer checks (c01.run_check stopped there); the model drivers were built and pinned
            # first: search for a failing input with the families of this module (the violation then comes with a replay)
            c01.private_harnesses(c.scratch)
            c01.snapshot_driver(c.scratch)
            vocabulary_family(c)
            long_utterance_finish(c, st)
    finally:
        st["stop"] = True
        fix_trusted(c)


def replay(c, path):
    import json
    from pathlib import Path
    obj = json.loads(open(path).read())
    if not obj.get("library_assert_in_the_assert_enabled_build"):
        return c01.replay_common(c, path, "C03")
    # recorded on the plain flavour (-DNDEBUG, what the pinned build does) after an assert of the library stopped the
    # assert-enabled build: replay on the same flavour
    orig = c01.private_harnesses

    def plain(scratch):
        orig(scratch)
        return Path(scratch) / "h_c01-ndebug"
    c01.private_harnesses = plain
    try:
        c01.replay_common(c, path, "C03")
    finally:
        c01.private_harnesses = orig
