"""C03 — word segmentation tiles the utterance and agrees with hypothesis and score.

Shares model (SSVerif/Model/Hist.lean), harness (harness/h_c01.c), driver sub-command (`ssdriver c01`)
and generators with C01 (tools/props/c01.py); this module judges the C03 side of every dump:
the model's segments = the iterator output field by field, the verified checkers segsTileB /
scoresSumB / hypothesis = segment words on the reported segmentation, and the frame accounting of the
processing calls.  Theorems: SSVerif/Props/C03.lean.
"""
from props import c01


def check(c):
    c01.run_check(c, "C03")


def replay(c, path):
    c01.replay_common(c, path, "C03")
