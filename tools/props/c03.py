"""C03 — word segmentation tiles the utterance and agrees with hypothesis and score.

Shares model (SSVerif/Model/Hist.lean), harness (harness/h_c01.c), driver sub-command (`ssdriver c01`)
and generators with C01 (tools/props/c01.py); this module judges the C03 side of every dump:
the model's segments = the iterator output field by field, the verified checkers segsTileB /
scoresSumB / hypothesis = segment words on the reported segmentation, where the segmentation ends
(Props/C03End.lean), and the frame accounting of the processing calls (sum of the real return values).
Theorems: SSVerif/Props/C03.lean, C03Frames.lean, C03Ret.lean (return values, Model/DecRet.lean),
C03End.lean.  The return-value model of Model/DecRet.lean is tied to the implementation call by call in
the C07 check (tools/props/c07.py reads `rv=` of harness/h_c07.c and compares it with the driver's).
"""
from props import c01


def fix_trusted(c):
    """the trusted base as it stands for C03 (c01.run_check writes the text shared with C01)"""
    c.trusted = [t for t in c.trusted if not t.startswith("production of the history table")]
    c.trusted += [
        "production of the history table: WFHist is a precondition of the C03 theorems, evaluated (wfHistB) on every "
        "dumped table; that fsg_search_start/step keep it is C01's theorem over the step relation of Model/Search.lean "
        "(Props/C01Search.lean), tied to the implementation by C01's check, not by this one",
        "frame accounting: the return values and d->n_frame are modelled (Model/DecRet.lean over Model/AcmodBuf.lean) and "
        "proved to add up (Props/C03Ret.lean) for utterances within the bound s0.cmnFrames + frames <= CMN_WIN_HWM "
        "(streaming) / any length (batch CMN); the model is compared with the implementation call by call in the C07 "
        "check (harness/h_c07.c, tools/props/c07.py, lean/Driver/C07.lean); THIS check evaluates the sums on the real "
        "return values of its own schedules (any length), and fsgs->frame = number of search steps "
        "(assert(fsgs->frame == frame_idx) in fsg_search_step, asserts on)",
        "the last segment is NOT tied to the last frame searched, by the theorems or by the code: it ends in the frame of "
        "the last history-table entry (Props/C03End.lean; evaluated on every dump; measured distribution in the coverage)",
    ]


def long_history_tie(c):
    """Frame accounting BEYOND the bound of the `_partial` theorems (s0.cmnFrames + frames <= CMN_WIN_HWM): one decoder,
    five streaming utterances over the whole recording without resetting the CMN state, so that cmn->nframe passes
    CMN_WIN_HWM and the live-CMN window shifts in the middle of an utterance.  The C07 check keeps away from that
    regime (beyond it the features legitimately depend on the history); here only what the frame accounting speaks
    about is compared, call by call, between the real decoder (harness/h_c07.c) and the models (`ssdriver c07`:
    Model/AcmodFe + AcmodBuf for the counters, Model/DecRet for the values returned): every acmod counter, the frame
    index of every search step, every front-end call (room:frames:left), the value each decoder_process_* /
    decoder_end_utt call returned, the growth of d->n_frame; and on the implementation's own numbers: sum of returns +
    growth of d->n_frame inside end_utt = output_frame = frames the front end delivered."""
    from props import c07
    import vlib
    binp = vlib.build_harness("h_c07", extra_flags=c07.WRAP)
    g = c07.GROUPS[0]
    big = 99999999
    hist = [("40,3,-1", ["p i 30000 0", f"p i {big} 0"]),
            ("-", ["p i 20000 0", "q hyp", f"p i {big} 0"]),
            ("-", ["p i 30000 1", f"p i {big} 1"]),
            ("-", ["p f 7000 0", "p i 3000 1", "q seg", "p i 25000 0", f"p i {big} 0"]),
            ("-", ["p i 1000 0", "p i 30000 0", f"p f {big} 0"])]
    runs = [c07.mk_run(0, big, cmn, ops) for cmn, ops in hist]
    rc, err, P, done = c07.run_harness(binp, g, runs, timeout=300)
    name = "frame accounting beyond the CMN bound (5 utterances on one decoder, live-CMN window shifts): "
    if done < len(runs) or "cmnhwm" not in P:
        c.oblige(name + "harness ran the history to completion", False, {"exit_code": rc, "stderr_tail": err[-800:], "done": done})
        return
    cmn0 = int(c07.kv(runs[0]["out"][0])["cmnframes"])
    mrc, merr, mouts, _ = c07.run_model(P, runs, cmn0)
    if mrc != 0:
        c.oblige(name + "model driver runs", False, merr[-800:])
        return
    problems, stat = [], {"calls": 0, "positive": 0, "steps": 0, "fe_calls": 0, "beyond": 0, "moved": 0, "frames": []}
    for k, (r, mo) in enumerate(zip(runs, mouts)):
        out = r["out"]
        names = ["utt"] + r["ops"] + ["end", "res"]
        prev_nfrm, tot = None, 0
        for idx, (o, m) in enumerate(zip(out, mo)):
            cs, ms = o.split(" | "), m.split(" | ")
            cst, mst, d, mk = c07.kv(cs[-1]), c07.kv(ms[-1]), c07.kv(cs[0]), c07.kv(ms[0])
            where = f"utterance {k} line {idx} ({names[idx]})"
            if "FAULT" in mst or "FEBAD" in mk:
                problems.append(f"{where}: model fault {mst.get('FAULT')}")
                break
            bad = [x for x in c07.ST_KEYS if cst.get(x) != mst.get(x)]
            if bad:
                problems.append(f"{where}: counter {bad[0]}: C={cst.get(bad[0])} model={mst.get(bad[0])}")
                break
            if idx < len(out) - 1:
                csc = [(e[0], e[1]) for e in c07.parse_sc(d.get("sc", "-"))]
                msc = [(e[0], e[1]) for e in c07.parse_sc(mk.get("sc", "-"))]
                if csc != msc:
                    problems.append(f"{where}: search steps differ: C={csc[:6]}.. model={msc[:6]}..")
                    break
                stat["steps"] += len(csc)
                if "fe" in mk:
                    stat["fe_calls"] += 0 if mk["fe"] == "-" else mk["fe"].count(",") + 1
                    if mk["fe"] != d.get("fe", "-"):
                        problems.append(f"{where}: front-end calls: C={d.get('fe', '-')[:120]} model={mk['fe'][:120]}")
                        break
            if "rv" in mk:
                stat["calls"] += 1
                stat["positive"] += 1 if mk["rv"] not in ("0", "-") else 0
                if d.get("rv") != mk["rv"]:
                    problems.append(f"{where}: value returned: C={d.get('rv')} model={mk['rv']}")
                    break
                if names[idx].startswith("p "):
                    tot += int(d["rv"])
            grow = None if prev_nfrm is None else int(cst["nfrm"]) - prev_nfrm
            if grow is not None and grow != int(mk.get("cnt", "0")):
                problems.append(f"{where}: d->n_frame grew by {grow}, model: {mk.get('cnt', '0')}")
                break
            prev_nfrm = int(cst["nfrm"])
            if names[idx] == "end":
                # on the implementation's own numbers
                if tot + grow != int(cst["of"]) or int(cst["of"]) != int(mst["n"]) or int(cst["nfeat"]) != 0:
                    problems.append(f"{where}: sum of returns {tot} + searched in end_utt {grow} != output_frame {cst['of']} "
                                    f"(front-end frames in the model: {mst['n']}, frames left unsearched: {cst['nfeat']})")
                    break
                c0 = int(c07.kv(out[0])["cmnframes"])
                stat["frames"].append((c0, int(cst["of"])))
                stat["beyond"] += 1 if c0 + int(cst["of"]) > P["cmnhwm"] else 0
                # the mean moved BEFORE decoder_end_utt (cmn_live_update at the end always moves it)
                stat["moved"] += 1 if c07.kv(mo[idx - 1].split(" | ")[-1]).get("moved") == "1" else 0
    c.oblige(name + "every counter, search step, front-end call, returned value and d->n_frame growth of the real decoder equals "
             "the models', and sum of returns + frames searched in end_utt = output_frame = front-end frames",
             not problems and stat["beyond"] >= 2 and stat["moved"] >= 2 and stat["positive"] >= 4,
             {"problems": problems[:3], **stat})
    c.cov.update({"frame_accounting_beyond_the_CMN_bound (cmn->nframe at start, frames) per utterance": stat["frames"],
                  "utterances_beyond_the_bound": stat["beyond"], "utterances_in_which_the_live_CMN_window_shifted_before_end_utt (model)": stat["moved"],
                  "calls_whose_return_value_was_compared_beyond_or_near_the_bound": stat["calls"],
                  "search_steps_compared_there": stat["steps"], "front_end_calls_compared_there": stat["fe_calls"]})


def check(c):
    try:
        c01.run_check(c, "C03")
        if c.obligations and all(o[1] for o in c.obligations if o[0].startswith("lake build")):
            long_history_tie(c)
    finally:
        fix_trusted(c)


def replay(c, path):
    c01.replay_common(c, path, "C03")
