"""C16 — dictionary additions take effect and never disturb existing entries.

Lean: SSVerif/Props/C16.lean (invariant of every reachable dictionary; add_then_lookup, others_unchanged,
reject_is_noop, grow_transparent, alt_chain, d2p_covers over SSVerif/Model/Dict.lean = dict_add_word /
dict_word2basestr / decoder_add_word's parser / dict2pid_add_word's fill pattern, with repairs D03-D05).
Table contents: SSVerif/Model/Dict2pid.lean = bin_mdef_phone_id (tree walk over the dumped cd_tree) / phone_id_nearest back-off /
compress_table / dict2pid_build / populate_lrdiph / dict2pid_add_word; C16_d2p_tables_exact: every entry read through the dict2pid
accessors = pid2ssid(phone_id_nearest(...)) after any history; every written row of the real tables is diffed against the model.
Tie: generated constants (S3DICT_INC_SZ, special words, isspace_c set, populate_lrdiph's silence-row stores) + op files replayed on the real
dict.c / dict2pid.c / decoder.c (ASan/UBSan, asserts on) and on the model's own definitions (ssdriver c16),
outputs diffed.  Oracle: the property evaluated in Python on what the C code returned (ids, phone strings,
dumps with alt chains, hypotheses), also on the full en-us dictionary where the list-based model is not run.
"""
import json, os, pathlib, re, shutil
import vlib

MODELDIR = lambda: vlib.REPO / "model" / "en-us"
RAW = lambda: vlib.REPO / "tests" / "data" / "goforward.raw"
INC = 4096  # re-read from the generated file in check()


def hx(b):
    return "-" if not b else bytes(b).hex()


def unhx(s):
    return b"" if s == "-" else bytes.fromhex(s)


def upper(b):
    return bytes(c - 32 if 97 <= c <= 122 else c for c in b)


# --------------------------------------------------------------------------
# the property, evaluated independently of the Lean model (implementation-side oracle)

def basestr(w):
    """base spelling of `base(...)`: last '(' at an index > 0 before a final ')'"""
    if len(w) >= 2 and w[-1:] == b")":
        i = w.rfind(b"(", 0, len(w) - 1)
        if i > 0:
            return w[:i]
    return None


def tokens(s, ws=b" \t\n\r\v\f"):
    out, cur = [], b""
    for c in s:
        if bytes([c]) in [bytes([x]) for x in ws]:
            if cur:
                out.append(cur)
            cur = b""
        else:
            cur += bytes([c])
    if cur:
        out.append(cur)
    return out


class Oracle:
    def __init__(self, phones, nocase):
        self.phones, self.nocase = phones, nocase
        self.pid = {p: i for i, p in enumerate(phones)}
        self.pid_nc = {}
        for i, p in enumerate(phones):
            self.pid_nc.setdefault(upper(p), i)
        self.words, self.idx = [], {}
        self.fs = self.fe = 0
        self.special = set()

    def norm(self, w):
        return upper(w) if self.nocase else w

    def wid(self, w):
        return self.idx.get(self.norm(w), -1)

    def dadd(self, w, pron):
        if w == b"" or self.norm(w) in self.idx:
            return -1
        b = basestr(w)
        if b is not None:
            if self.norm(b) not in self.idx:
                return -1
            base = self.idx[self.norm(b)]
        else:
            base = len(self.words)
        self.idx[self.norm(w)] = len(self.words)
        self.words.append((w, list(pron), base))
        return len(self.words) - 1

    def parse(self, phones, nocase=False):
        ids = []
        for t in tokens(phones):
            i = (self.pid_nc.get(upper(t)) if nocase else self.pid.get(t))
            if i is None:
                return None
            ids.append(i)
        return ids

    def add(self, w, phones):
        ids = self.parse(phones)
        if not ids:
            return -1
        return self.dadd(w, ids)

    def load(self, lines, flines, sil):
        for w, p in lines:
            ids = self.parse(p, self.nocase)
            if ids:
                self.dadd(w, ids)
        if any(self.wid(s) >= 0 for s in (b"<s>", b"</s>", b"<sil>")):
            return False
        self.fs = len(self.words)
        for w, p in flines:
            ids = self.parse(p, self.nocase)
            if ids:
                self.dadd(w, ids)
        for s in (b"<s>", b"</s>", b"<sil>"):
            if self.wid(s) < 0:
                self.dadd(s, [sil])
        self.fe = len(self.words) - 1
        self.special = {self.wid(b"<s>"), self.wid(b"</s>")}
        return True

    def root(self, i):
        seen = 0
        while self.words[i][2] != i and seen <= len(self.words):
            i = self.words[i][2]
            seen += 1
        return i

    def is_base(self, i):
        return basestr(self.words[i][0]) is None

    def members(self, r):
        return {j for j in range(len(self.words)) if j != r and self.root(j) == r}

    def lookup(self, w):
        i = self.wid(w)
        return None if i < 0 else b" ".join(self.phones[p] for p in self.words[i][1])

    def filler(self, i):
        b = self.words[i][2]
        return b not in self.special and self.fs <= b <= self.fe


def parse_dump(line):
    m = re.match(r"d n=(-?\d+) max=(-?\d+) fs=(-?\d+) fe=(-?\d+) \|(.*)$", line)
    if not m:
        return None
    ents = []
    for t in m.group(5).split():
        f = t.split(":")
        if len(f) != 5:
            return None
        ents.append((int(f[0]), f[1], [] if f[2] == "-" else [int(x) for x in f[2].split(".")], int(f[3]), int(f[4])))
    return {"n": int(m.group(1)), "max": int(m.group(2)), "fs": int(m.group(3)), "fe": int(m.group(4)), "ents": ents}


def oracle_eval(ops, out_lines, phones, sil, expect_hyp_must=()):
    """Replays `ops` on the Python oracle and judges the implementation's output lines.
    Returns a list of (op index, what is wrong); empty = the property held on this run."""
    try:
        return oracle_eval_(ops, out_lines, phones, sil, expect_hyp_must)
    except (IndexError, ValueError) as e:
        return [(len(out_lines) - 1, f"unparsable / truncated output line {out_lines[-1][:80]!r} ({e.__class__.__name__})")]


def oracle_eval_(ops, out_lines, phones, sil, expect_hyp_must=()):
    bad = []
    o, lines, flines, started = None, [], [], False
    nocase = False
    grammar = None
    for k, op in enumerate(ops):
        w = op.split()
        got = out_lines[k] if k < len(out_lines) else "<missing: the library crashed or exited>"
        if k >= len(out_lines):
            bad.append((k, f"no output for '{op[:80]}' (crash / sanitizer report / exit inside the library)"))
            break
        if w[0] == "begin":
            nocase = w[2] == "1"
            o, lines, flines, grammar = None, [], [], None
        elif w[0] == "load":
            lines.append((unhx(w[1]), unhx(w[2])))
        elif w[0] == "fload":
            flines.append((unhx(w[1]), unhx(w[2])))
        elif w[0] == "init":
            o = Oracle(phones, nocase)
            ok = o.load(lines, flines, sil)
            if not ok:
                if got != "init fail":
                    bad.append((k, f"dictionary with a special word in the main file accepted: {got}"))
                o = None
            else:
                m = re.match(r"init n=(\d+) max=(\d+) fs=(-?\d+) fe=(-?\d+) s=(-?\d+) f=(-?\d+) sil=(-?\d+)", got)
                if not m:
                    bad.append((k, f"init failed: {got}"))
                    o = None
                elif (int(m.group(1)), int(m.group(3)), int(m.group(4))) != (len(o.words), o.fs, o.fe):
                    bad.append((k, f"init: n/fs/fe = {m.group(1)}/{m.group(3)}/{m.group(4)}, expected {len(o.words)}/{o.fs}/{o.fe}"))
        elif o is None:
            continue
        elif w[0] in ("add", "dadd"):
            if w[0] == "add":
                exp = o.add(unhx(w[1]), unhx(w[2]))
            else:
                np_ = int(w[2])
                exp = o.dadd(unhx(w[1]), [int(x) for x in w[3:3 + np_]])
            if got != f"r {exp}":
                bad.append((k, f"'{op[:80]}' returned '{got}', the property requires r {exp}"))
                # keep the oracle in step with what the implementation claims to have done is NOT attempted:
                break
        elif w[0] == "lookup":
            e = o.lookup(unhx(w[1]))
            exp = "p none" if e is None else "p " + hx(e)
            if got != exp:
                bad.append((k, f"lookup {unhx(w[1])!r} returned '{got}', expected '{exp}'"))
        elif w[0] == "wid":
            i = o.wid(unhx(w[1]))
            f = got.split()
            if len(f) != 4 or int(f[1]) != i or (i >= 0 and int(f[2]) != int(o.filler(i))):
                bad.append((k, f"wid {unhx(w[1])!r} returned '{got}', expected id {i}"))
        elif w[0] == "chain":
            i = o.wid(unhx(w[1]))
            if i < 0:
                if got != "c none":
                    bad.append((k, f"chain of unknown word: {got}"))
                continue
            m = re.match(r"c (\S+) b=(\S+)$", got)
            if not m:
                bad.append((k, f"chain: {got}"))
                continue
            ids = [] if m.group(1) == "-" else m.group(1).split(",")
            if any(not x.isdigit() for x in ids):
                bad.append((k, f"alt chain of {unhx(w[1])!r} leaves the dictionary or cycles: {got}"))
                continue
            ids = [int(x) for x in ids]
            bs = o.words[o.words[i][2]][0]
            if m.group(2) != hx(bs):
                bad.append((k, f"basestr of {unhx(w[1])!r} is {m.group(2)}, expected {hx(bs)}"))
            if o.is_base(i):
                if len(set(ids)) != len(ids) or set(ids) != o.members(i):
                    bad.append((k, f"alt chain of base word {unhx(w[1])!r} is {ids}, its alternates are {sorted(o.members(i))}"))
        elif w[0] == "base":
            x = unhx(w[1])
            b = basestr(x)
            exp = f"b -1 {hx(x)}" if b is None else f"b {len(b)} {hx(b)}"
            if got != exp:
                bad.append((k, f"dict_word2basestr({x!r}) gave '{got}', expected '{exp}'"))
        elif w[0] == "dump":
            d = parse_dump(got)
            if d is None:
                bad.append((k, f"dump unparsable: {got[:120]}"))
                continue
            if d["n"] != len(o.words) or len(d["ents"]) != len(o.words) or d["fs"] != o.fs or d["fe"] != o.fe:
                bad.append((k, f"dump: n={d['n']} fs={d['fs']} fe={d['fe']}, expected n={len(o.words)} fs={o.fs} fe={o.fe}"))
                continue
            if d["max"] < d["n"]:
                bad.append((k, f"dump: n_word {d['n']} exceeds max_words {d['max']}"))
            alt = {}
            for (i, wd, pr, bw, al), (ow, op_, ob) in zip(d["ents"], o.words):
                if wd != hx(ow) or pr != op_ or bw != ob:
                    bad.append((k, f"entry {i}: {wd}:{pr}:{bw}, expected {hx(ow)}:{op_}:{ob}"))
                    break
                alt[i] = al
            else:
                for r in range(len(o.words)):
                    if not o.is_base(r):
                        continue
                    seen, j = [], alt[r]
                    while j != -1 and 0 <= j < len(o.words) and len(seen) <= len(o.words):
                        seen.append(j)
                        j = alt[j]
                    if j != -1 or len(set(seen)) != len(seen) or set(seen) != o.members(r):
                        bad.append((k, f"alt chain of base word {r} ({o.words[r][0]!r}) is {seen}"
                                       f"{' then leaves the table' if j != -1 else ''}, its alternates are {sorted(o.members(r))}"))
                        break
        elif w[0] == "d2p":
            if got != "d2p ok":
                bad.append((k, f"boundary tables: {got}"))
        elif w[0] in ("fsg", "alts", "align", "jsgf"):
            if w[0] == "fsg":
                ws = [unhx(x) for x in w[1:]]
            elif w[0] == "alts":
                ws = [unhx(w[1])]
            elif w[0] == "align":
                ws = tokens(unhx(w[1]), b" \t\n\r")
            else:
                ws = [unhx(x) for x in w[2:]]
            known = all(o.wid(x) >= 0 for x in ws)
            rc = got.split()[1] if len(got.split()) > 1 else "?"
            if rc != ("0" if known else "-1"):
                bad.append((k, f"'{op[:60]}' -> '{got}': words {'all known' if known else 'not all known'}"))
            grammar = ws if known else grammar
            if w[0] == "alts" and known:
                i = o.wid(ws[0])
                if o.is_base(i) and not o.filler(i):
                    exp = sorted(hx(o.words[j][0]) for j in o.members(i))
                    gotl = [] if got.split()[2] == "-" else got.split()[2].split(",")
                    if gotl != exp:
                        bad.append((k, f"alternates the search added for {ws[0]!r}: {gotl}, expected {exp}"))
        elif w[0] == "decode":
            f = got.split()
            if len(f) < 2 or grammar is None:
                continue
            exp = [o.words[o.words[o.wid(x)][2]][0] for x in grammar if not o.filler(o.wid(x))]
            if f[1] == "none":
                hyp = None
            else:
                hyp = unhx(f[1]).split(b" ") if f[1] != "-" else []
            if k in expect_hyp_must:
                if hyp != exp:
                    bad.append((k, f"hypothesis {hyp}, expected {exp} (words added with the pronunciations spoken in the audio)"))
            elif hyp is not None:
                # each grammar word may be realised by any word of its alternate family (fsg_search_add_altpron walks the
                # alt chain), and is reported under that word's own base spelling (dict_basestr)
                allowed = []
                for x in grammar:
                    i = o.wid(x)
                    if o.filler(i):
                        continue
                    fam = {i} | o.members(o.root(i)) | {o.root(i)}
                    allowed.append({o.words[o.words[j][2]][0] for j in fam})
                it = iter(allowed)
                if not all(any(h in a for a in it) for h in hyp):
                    bad.append((k, f"hypothesis {hyp} is not made of base spellings of the grammar's words {grammar}"))
    return bad


# --------------------------------------------------------------------------
# generator

SAFE = b"abcdefghijklmnopqrstuvwxyzABCDEFGHIJKLMNOPQRSTUVWXYZ0123456789_'-."
NOISEDICT = [(b"<s>", b"SIL"), (b"</s>", b"SIL"), (b"<sil>", b"SIL"), (b"[NOISE]", b"+NSN+"), (b"[SPEECH]", b"+SPN+")]
SPOKEN = [(b"go", b"G OW"), (b"forward", b"F AO R W ER D"), (b"ten", b"T EH N"), (b"meters", b"M IY T ER Z")]


class Gen:
    def __init__(self, rng, phones, stats):
        self.rng, self.phones, self.stats = rng, phones, stats
        self.real = [p for p in phones if not p.startswith(b"+")]
        self.serial = 0

    def hit(self, key, sub):
        d = self.stats.setdefault(key, {})
        d[sub] = d.get(sub, 0) + 1

    def fresh(self, n=None):
        r = self.rng
        self.serial += 1
        n = n or r.range(1, 7)
        return bytes(r.choice(SAFE) for _ in range(n)) + str(self.serial).encode()

    def pron(self, n=None):
        r = self.rng
        n = n or r.weighted([(1, 3), (2, 3), (3, 4), (r.range(4, 9), 4), (r.range(10, 40), 1)])
        pool = self.phones if r.chance(0.08) else self.real
        return [r.choice(pool) for _ in range(n)]

    def phone_string(self, toks):
        r = self.rng
        seps = [b" ", b" ", b" ", b"  ", b"\t", b" \t ", b"\n", b"\r\n", b"\v", b"\f"]
        if r.chance(0.6):
            s = b" ".join(toks)
            kind = "single-spaced"
        else:
            s = b""
            for i, t in enumerate(toks):
                s += (r.choice(seps) if i else b"") + t
            if r.chance(0.5):
                s = r.choice(seps) + s
            if r.chance(0.5):
                s += r.choice(seps)
            kind = "odd-whitespace"
        self.hit("phone_string", kind)
        if all(len(t) == 1 for t in toks) and s == b" ".join(toks):
            self.hit("phone_string", "all-one-char-phones (D02 shape)")
        return s

    def spelling(self, known, bases):
        """(word, class) aimed at every branch of dict_add_word / dict_word2basestr"""
        r = self.rng
        kind = r.weighted([("new", 30), ("alt", 22), ("dup", 8), ("dup-case", 5), ("alt-nobase", 6), ("alt-of-alt", 6),
                           ("empty", 2), ("paren-odd", 8), ("long", 2), ("highbyte", 3), ("alt-case", 4)])
        if kind in ("alt", "alt-of-alt", "alt-case") and not (bases if kind != "alt-of-alt" else [k for k in known if basestr(k)]):
            kind = "new"
        if kind in ("dup", "dup-case") and not known:
            kind = "new"
        if kind == "new":
            w = self.fresh()
        elif kind == "alt":
            w = r.choice(bases) + b"(" + str(r.range(2, 5)).encode() + b")"
        elif kind == "alt-case":
            b = r.choice(bases)
            w = (b.upper() if r.chance(0.5) else b.lower()) + b"(" + str(r.range(2, 5)).encode() + b")"
        elif kind == "alt-of-alt":
            w = r.choice([k for k in known if basestr(k)]) + b"(" + str(r.range(2, 4)).encode() + b")"
        elif kind == "dup":
            w = r.choice(known)
        elif kind == "dup-case":
            k = r.choice(known)
            w = k.upper() if k.upper() != k else k.lower()
        elif kind == "alt-nobase":
            w = self.fresh() + b"(2)"
        elif kind == "empty":
            w = b""
        elif kind == "paren-odd":
            f = self.fresh(2)
            w = r.choice([b"(2)", b")", b"()", f + b"()", f + b"(", f + b")", b"(" + f + b")", f + b"(a)b)", f + b"((2)",
                          f + b"(2))", b")" + f + b"(2)", f + b"(2)x", b"((", f + b"(" + f + b"(3)"])
        elif kind == "long":
            w = self.fresh(r.range(200, 600))
        else:
            w = bytes([r.range(128, 255) for _ in range(r.range(1, 4))]) + self.fresh(2)
        self.hit("spelling", kind)
        return w, kind


def gen_init(g, mode, nocase, spoken, nlines=None, allow_fail=True):
    r = g.rng
    ops = [f"begin {mode} {int(nocase)}"]
    lines = []
    if spoken:
        lines += SPOKEN
    n = r.range(0, 25) if nlines is None else nlines
    words = [w for w, _ in lines]
    for _ in range(n):
        k = r.weighted([("word", 50), ("alt", 20), ("dup", 5), ("nobase", 4), ("badphone", 4), ("nopron", 3), ("lcphone", 4),
                        ("one-phone", 6), ("sil-ctx", 6)])
        p = b" ".join(g.pron())
        if k == "one-phone":
            p = r.choice(g.real[:6])
        elif k == "sil-ctx":
            x = r.choice(g.real[:6])
            p = r.choice([x + b" SIL " + r.choice(g.real), r.choice(g.real) + b" SIL " + x, x + b" SIL " + x])
        if k == "alt" and words:
            w = r.choice(words) + b"(" + str(r.range(2, 4)).encode() + b")"
        elif k == "dup" and words:
            w = r.choice(words)
        elif k == "nobase":
            w = g.fresh() + b"(2)"
        else:
            w = g.fresh()
        if k == "badphone":
            p += b" QQ"
        elif k == "nopron":
            p = b""
        elif k == "lcphone":
            p = p.lower()
        g.hit("init_line", k)
        lines.append((w, p))
        words.append(w)
    fl = r.weighted([("std", 6), ("min", 2), ("empty", 1), ("extra", 2)])
    flines = {"std": NOISEDICT, "min": [(b"<sil>", b"SIL")], "empty": [],
              "extra": NOISEDICT + [(b"[UH]", b"AH"), (b"<sil>(2)", b"SIL SIL")]}[fl]
    g.hit("fdict", fl)
    if allow_fail and r.chance(0.03) and mode == "dict":
        lines.append((b"<sil>", b"SIL"))  # must make dict_init fail
        g.hit("init_line", "special-word-in-main-dict")
    for w, p in lines:
        ops.append(f"load {hx(w)} {hx(p)}")
    for w, p in flines:
        ops.append(f"fload {hx(w)} {hx(p)}")
    ops.append("init")
    return ops, lines, flines


def shadow(phones, sil, nocase, lines, flines):
    o = Oracle(phones, nocase)
    return o if o.load(lines, flines, sil) else None


def gen_case(g, phones, sil, mode, nadds):
    """one generated history; returns (ops, indices of decode ops whose hypothesis is determined)"""
    r = g.rng
    nocase = r.chance(0.3)
    spoken = mode == "dec"
    ops, lines, flines = gen_init(g, mode, nocase, spoken)
    o = shadow(phones, sil, nocase, lines, flines)   # generator-side shadow, only to aim the inputs
    must = set()
    if o is None:
        ops += ["dump", f"wid {hx(b'x')}"]
        return ops, must
    have_search = False
    g.text_probes = r.chance(0.5)
    g.hit("around_add_text_probes(align/fsg as query)", "on" if g.text_probes else "off")
    if mode == "dec":
        ops.append("tabs")
        for _ in range(r.range(0, 3)):
            ops.append(f"near {r.below(len(phones))} {r.below(len(phones))} {r.below(len(phones))} {r.below(4)}")
        if r.chance(0.3):
            ops.append(f"nearrow {r.below(len(phones))} {r.below(4)}")
            g.hit("ops", "nearrow")
    for step in range(nadds):
        known = [w for w, _, _ in o.words]
        bases = [w for w in known if basestr(w) is None and not w.startswith(b"<") and b"(" not in w and b")" not in w] or \
                [w for w in known if basestr(w) is None]
        w, kind = g.spelling(known, bases)
        pre = around_add_pre(g, o, ops, w, mode)   # the query directly before the addition (class of C16-em1)
        have_search = have_search or bool(pre and pre["sets"])
        upd = 0
        if mode == "dec":
            pk = r.weighted([("ok", 70), ("unknown", 6), ("lower", 3), ("empty", 3), ("blank", 3), ("one", 7), ("sil-ctx", 8)])
            toks = g.pron(1 if pk == "one" else None)
            if pk == "sil-ctx":
                # silence / filler phone as second or second-last phone, first / last phone shared with a one-phone word:
                # the rows populate_lrdiph also writes (D61)
                ones = [phones[o.words[i][1][0]] for i in range(len(o.words)) if len(o.words[i][1]) == 1] or [r.choice(g.real)]
                f = r.choice([b"SIL", b"SIL", b"+NSN+"])
                shape = r.below(3)
                toks = [[r.choice(ones), f] + g.pron(r.range(1, 3)), g.pron(r.range(1, 3)) + [f, r.choice(ones)],
                        [r.choice(ones), f, r.choice(ones)]][shape]
            if pk == "unknown":
                toks.insert(r.below(len(toks) + 1), r.choice([b"QQ", b"A", b"SILL", b"aa", b"AA1", b"+NSN"]))
            elif pk == "lower":
                toks = [t.lower() for t in toks]
            ps = g.phone_string(toks)
            if pk == "empty":
                ps = b""
            elif pk == "blank":
                ps = r.choice([b" ", b"\t", b"  \n "])
            g.hit("pron_kind", pk)
            upd = 1 if (have_search and r.chance(0.3)) else 0
            ops.append(f"add {hx(w)} {hx(ps)} {upd}")
            res = o.add(w, ps)
        else:
            pk = r.weighted([("ok", 85), ("np0", 8), ("one", 7)])
            ids = [] if pk == "np0" else [phones.index(t) for t in g.pron(1 if pk == "one" else None)]
            g.hit("pron_kind", pk)
            ops.append(f"dadd {hx(w)} {len(ids)} " + " ".join(map(str, ids)))
            res = o.dadd(w, ids)
        g.hit("add_result", "accepted" if res >= 0 else f"rejected:{kind}")
        if mode == "dec":
            g.hit("add_context", f"update={upd},{'grammar loaded' if have_search else 'no grammar'}")
        have_search = around_add_post(g, o, ops, w, mode, pre, res >= 0,
                                      f"add(update={upd},{'grammar' if have_search else 'no grammar'})" if mode == "dec" else "dict_add_word") or have_search
        # observations after (almost) every addition
        for _ in range(r.range(0, 3)):
            ok = r.weighted([("lookup-new", 4), ("lookup-old", 4), ("wid", 3), ("chain", 5), ("dump", 2), ("base", 2), ("lookup-unknown", 1)] +
                            ([("tabs", 2), ("intern", 2), ("d2p", 1)] if mode == "dec" else []))
            known = [x for x, _, _ in o.words]
            if ok == "lookup-new":
                ops.append((f"lookup {hx(w)}") if mode == "dec" else f"wid {hx(w)}")
            elif ok == "lookup-old":
                ops.append((f"lookup {hx(r.choice(known))}") if mode == "dec" else f"wid {hx(r.choice(known))}")
            elif ok == "wid":
                k = r.choice(known)
                ops.append(f"wid {hx(k.upper() if r.chance(0.2) else k)}")
            elif ok == "chain":
                ops.append(f"chain {hx(r.choice(bases) if r.chance(0.8) else r.choice(known))}")
            elif ok == "dump":
                ops.append("dump")
            elif ok in ("tabs", "d2p"):
                ops.append(ok)
            elif ok == "intern":
                ops.append(f"intern {hx(w if r.chance(0.5) else r.choice(known))}")
            elif ok == "base":
                ops.append(f"base {hx(g.spelling(known, bases)[0])}")
            else:
                ops.append((f"lookup {hx(g.fresh())}") if mode == "dec" else f"wid {hx(g.fresh())}")
            g.hit("ops", ok)
        if mode == "dec" and r.chance(0.12):
            have_search = gen_grammar(g, o, ops, must) or have_search
    ops.append("dump")
    if mode == "dec":
        ops.append("d2p")
        ops.append("tabs")
        gen_spoken_block(g, o, ops, must)
        gen_grammar(g, o, ops, must)
        ops.append("d2p")
        ops.append("tabs")
        ops.append("dump")
    return ops, must


def plain(w):
    return w and not any(c in b" \t\n\r\v\f" for c in w) and not w.startswith(b"<") and not w.startswith(b"[")


# --------------------------------------------------------------------------
# queries placed directly around an addition (no other operation in between): the class "is it known? - (no) - add it -
# ask again".  A query only reads the dictionary (Props/C16Probe.lean: C16_queries_transparent, C16_answer_ignores_queries,
# C16_lookup_add_lookup, C16_wid_dadd_wid), so whatever was answered right before an addition must not colour the answer
# given right after it.  The key is the spelling that is ABOUT to be added (or its alternate / base / case variant).

def probe_text_ok(w):
    return bool(w) and plain(w) and all(32 < c < 127 for c in w)


def probe_key(g, o, w):
    r = g.rng
    k = r.weighted([("same", 70), ("alt-of", 10), ("base-of", 10), ("case", 10)])
    if k == "alt-of":
        return w + b"(2)", k
    if k == "base-of" and basestr(w):
        return basestr(w), k
    if k == "case" and w.swapcase() != w:
        return w.swapcase(), k
    return w, "same"


def probe_op(g, o, key, mode, where):
    """one query whose FIRST (where = 'post') / LAST (where = 'pre') dictionary lookup is `key`; returns (op, kind,
    does the implementation have a search afterwards according to the shadow oracle)"""
    r = g.rng
    if mode != "dec":
        kind = r.weighted([("wid", 80), ("chain", 20)])
    elif where == "pre":
        kind = r.weighted([("lookup", 45), ("wid", 18), ("align-last", 17), ("align-only", 6), ("fsg", 6), ("chain", 4), ("intern", 4)])
    else:
        kind = r.weighted([("lookup", 38), ("wid", 14), ("align-first", 22), ("align-only", 6), ("fsg", 10), ("chain", 5), ("intern", 5)])
    if kind in ("align-last", "align-first", "align-only", "fsg") and not (probe_text_ok(key) and getattr(g, "text_probes", True)):
        kind = "lookup"   # (a grammar / alignment text loads a search for good: half of the histories keep these out of the
        #                    probes so that additions WITHOUT a search loaded stay frequent)
    others = [x for x, _, _ in o.words if probe_text_ok(x)]
    if kind in ("align-last", "align-first") and not others:
        kind = "align-only"
    sets = False
    if kind == "lookup":
        op = f"lookup {hx(key)}"
    elif kind in ("wid", "chain", "intern"):
        op = f"{kind} {hx(key)}"
    elif kind == "fsg":
        ws = [key] + ([r.choice(others)] if others and r.chance(0.5) else [])
        op = "fsg " + " ".join(hx(x) for x in ws)
        sets = all(o.wid(x) >= 0 for x in ws)
    else:
        ws = {"align-only": [key], "align-first": [key, r.choice(others or [key])],
              "align-last": [r.choice(others or [key]), key]}[kind]
        op = f"align {hx(b' '.join(ws))}"
        sets = all(o.wid(x) >= 0 for x in ws)
    return op, kind, sets


def around_add_pre(g, o, ops, w, mode, p=0.45):
    """with probability p: a query of the about-to-be-added spelling as the operation right before the addition"""
    r = g.rng
    if not r.chance(p):
        g.hit("around_add_pre", "none")
        return None
    key, kk = probe_key(g, o, w)
    op, kind, sets = probe_op(g, o, key, mode, "pre")
    ops.append(op)
    hit = o.wid(key) >= 0
    g.hit("around_add_pre", f"{kind}:{'hit' if hit else 'miss'}")
    g.hit("around_add_key", kk)
    return {"key": key, "hit": hit, "sets": sets, "kind": kind}


def around_add_post(g, o, ops, w, mode, pre, accepted, ctx):
    """the query right after the addition: the same key again (mostly) when there was one right before"""
    r = g.rng
    if not r.chance(0.85 if pre else 0.25):
        g.hit("around_add_post", "none")
        if pre:
            g.hit("around_add_pattern", f"{'hit' if pre['hit'] else 'miss'}->{'accepted' if accepted else 'rejected'}->(no query)")
        return False
    same = pre is not None and r.chance(0.85)
    key = pre["key"] if same else w
    op, kind, sets = probe_op(g, o, key, mode, "post")
    ops.append(op)
    g.hit("around_add_post", kind)
    if pre:
        g.hit("around_add_pattern", f"{'hit' if pre['hit'] else 'miss'}->{'accepted' if accepted else 'rejected'}->"
                                    f"{'same key' if key == pre['key'] else 'added word'}:{'hit' if o.wid(key) >= 0 else 'miss'}")
        if not pre["hit"] and accepted and o.wid(key) >= 0 and key == pre["key"]:
            g.hit("around_add_miss_then_found(query before->query after)", f"{pre['kind']}->{kind}")
            g.hit("around_add_miss_then_found(the addition)", ctx)
    else:
        g.hit("around_add_pattern", f"(no query)->{'accepted' if accepted else 'rejected'}->added word")
    return sets


def gen_grammar(g, o, ops, must):
    """grammar / alignment text over words of the dictionary (some unknown), then an utterance"""
    r = g.rng
    cand = [w for w, _, _ in o.words if plain(w) and all(32 < c < 127 for c in w)]
    if not cand:
        return False
    k = r.weighted([("fsg", 4), ("align", 4), ("alts", 3), ("jsgf", 2), ("unknown", 2)])
    ws = [r.choice(cand) for _ in range(r.range(1, 4))]
    if k == "unknown":
        ws.insert(r.below(len(ws) + 1), g.fresh() + b"zz")
        k2 = r.choice(["fsg", "align"])
        ops.append(f"fsg {' '.join(hx(x) for x in ws)}" if k2 == "fsg" else f"align {hx(b' '.join(ws))}")
        g.hit("grammar", "unknown-word-" + k2)
        return False
    if k == "fsg":
        ops.append(f"fsg {' '.join(hx(x) for x in ws)}")
    elif k == "align":
        sep = r.choice([b" ", b"  ", b"\t", b"\n"])
        ops.append(f"align {hx(sep.join(ws) + (b' ' if r.chance(0.3) else b''))}")
    elif k == "alts":
        bs = [w for w in cand if basestr(w) is None]
        ws = [r.choice(bs or cand)]
        ops.append(f"alts {hx(ws[0])}")
    else:
        jw = [w for w in ws if re.fullmatch(rb"[A-Za-z0-9_']+", w)]
        if not jw:
            return False
        ws = jw
        text = b"#JSGF V1.0; grammar c16; public <s> = " + b" ".join(ws) + b";"
        ops.append(f"jsgf {hx(text)} {' '.join(hx(x) for x in ws)}")
    g.hit("grammar", k)
    # decoder_alignment (state alignment of the result) only where the words match the audio (gen_spoken_block):
    # aligning arbitrary pronunciations against it overflows in hmm_normalize, which is the business of C18, not C16
    ops.append("decode 0")
    g.hit("ops", "decode")
    return True


def gen_spoken_block(g, o, ops, must):
    """new words (and alternates) carrying the pronunciations spoken in goforward.raw: the hypothesis is determined"""
    r = g.rng
    sent = []
    for w, p in SPOKEN:
        v = r.weighted([("new", 3), ("alt-right", 3), ("old", 2)])
        if v == "old" and o.wid(w) >= 0 and o.lookup(w) == p:
            sent.append(w)
            continue
        n = g.fresh(3)
        if v == "alt-right":
            wrong = b"B AE K" if p != b"B AE K" else b"G OW"
            for x, ph in ((n, wrong), (n + b"(2)", p)):
                ops.append(f"add {hx(x)} {hx(ph)} 0")
                o.add(x, ph)
        else:
            ops.append(f"add {hx(n)} {hx(p)} 0")
            o.add(n, p)
        sent.append(n)
        g.hit("spoken_block", v)
    if r.chance(0.5):
        ops.append(f"fsg {' '.join(hx(x) for x in sent)}")
        ops.append("decode 0")
    else:
        ops.append(f"align {hx(b' '.join(sent))}")
        ops.append("decode 1")
    must.add(len(ops) - 1)
    ops.append(f"chain {hx(sent[1])}")


# --------------------------------------------------------------------------
# running

def d2p_tol():
    """which silence rows populate_lrdiph of the CURRENT source still overwrites with single-phone-word ids (D61);
    the harness's direct comparison with bin_mdef_phone_id_nearest tolerates exactly those"""
    t = (vlib.LEAN / "SSVerif" / "Generated" / "Dict2pidConsts.lean").read_text()
    return ("L" if "d2pPopulateWritesLdiphSil : Bool := true" in t else "") + \
           ("R" if "d2pPopulateWritesRdiphSil : Bool := true" in t else "")


def nearest_sweep(c, binp, modeldir, nrows, stats):
    """bin_mdef_phone_id_nearest(b, l, r, pos) for all l, r on `nrows` rows (b, pos) — all rows when nrows is None —
    real code vs the model's tree walk / back-off over the dumped cd_tree of `modeldir`"""
    import subprocess
    dump = c.scratch / f"mdef-{modeldir.name}.dump"
    rc, out, err = vlib.run_bin(binp, args=["mdefdump", modeldir, dump])
    if rc != 0 or not out.startswith("mdefdump ok"):
        c.oblige(f"cd_tree of {modeldir.name} is well formed", False, out + err[-300:])
        return False
    rc, out, err = vlib.run_bin(binp, args=["phones", modeldir])
    phones, sil = [unhx(x) for x in out.split("\n")[0].split()], int(out.split("\n")[1].split()[1])
    rows = [(b, pos) for b in range(len(phones)) for pos in range(4)]
    if nrows is not None:
        keep = {(sil, p) for p in range(4)} | {(0, 3), (1, 1)}
        while len(keep) < min(nrows, len(rows)):
            keep.add(c.rng.choice(rows))
        rows = sorted(keep)
    ops = [f"nearrow {b} {pos}" for b, pos in rows]
    text = "\n".join(ops) + "\n"
    rc, out, err = vlib.run_bin(binp, args=[c.scratch, modeldir, RAW()], stdin_text=text, timeout=900)
    env = dict(os.environ)
    env["C16_MDEF"] = str(dump)
    r = subprocess.run([str(c.drv), "c16"], input=text.encode(), stdout=subprocess.PIPE, stderr=subprocess.PIPE, timeout=900, env=env)
    mo = r.stdout.decode().rstrip("\n").split("\n")
    ho = out.rstrip("\n").split("\n")
    stats["nearest_sweep"] = stats.get("nearest_sweep", {})
    stats["nearest_sweep"][modeldir.name] = {"rows(b,pos)": len(rows), "lookups": len(rows) * len(phones) ** 2}
    if rc == 0 and r.returncode == 0 and ho == mo:
        return True
    k = next((i for i in range(min(len(ho), len(mo))) if ho[i] != mo[i]), min(len(ho), len(mo)))
    detail = {"op": ops[k] if k < len(ops) else None}
    if k < len(ho) and k < len(mo):
        a, b2 = ho[k].split(), mo[k].split()
        j = next((i for i in range(min(len(a), len(b2))) if a[i] != b2[i]), None)
        if j:
            n = len(phones)
            detail.update({"l": (j - 1) // n, "r": (j - 1) % n, "implementation_pid": a[j], "model_pid": b2[j]})
    c.oblige(f"bin_mdef_phone_id_nearest = model on {modeldir.name}", False, detail)
    c.violation({"kind": "bin_mdef_phone_id_nearest vs model", "model_dir": str(modeldir), **detail,
                 "note": "the model's back-off order (exact, other positions 0..3, silence contexts, CI phone) no longer matches the code"},
                False, tag="nearest")
    return False


D61_KEY = "D61-silence-rows-hold-single-phone-word-ids"


def d61_report(c, binp, mdef_line):
    """While populate_lrdiph of the current source still stores single-phone-word ids into ldiph_lc[b][SIL][*] /
    rdiph_rc[b][SIL][*] the model follows it (regenerated constants) and C16_d2p_tables_exact excludes those rows.
    That is a genuine defect (D61), not an accepted behaviour: produce the witness with the harness's strict
    comparison against bin_mdef_phone_id_nearest and report it under its key once the coordinator has listed it."""
    tol = d2p_tol()
    if not tol:
        return
    f = vlib.ROOT / "corpus" / "C16" / "D61-silence-context-rows.ops"
    ops = [mdef_line] + [l for l in f.read_text().split("\n") if l.strip()]
    rc, out, err = vlib.run_bin(binp, args=[c.scratch, MODELDIR(), RAW()], stdin_text="\n".join(ops) + "\n", timeout=300,
                                env_extra={"C16_D2P_TOL": ""})
    bad = [(ops[k], l) for k, l in enumerate(out.split("\n")) if l.startswith("d2p bad")]
    witness = {"kind": "dict2pid table content", "ops": ops[1:], "rows_still_written": tol,
               "strict_comparison_with_bin_mdef_phone_id_nearest": [l for _, l in bad],
               "what": "a word whose second (second-last) phone is SIL reads, for its first (last) phone, the senone sequence of the "
                       "single-phone-word triphone instead of the word-initial (word-final) one; which one it gets depends on the order "
                       "of the words in the dictionary", "patch": "fixes/D61-single-phone-ids-in-diphone-rows.patch"}
    c.cov["D61_silence_rows"] = {"rows_still_written_by_populate_lrdiph": tol, "witness_found": bool(bad),
                                 "first": bad[0][1] if bad else None}
    if bad:
        # D61 is repaired in /repo (fix commit 1d126fe): if the stores ever return this is a violation again
        # (downgraded to KNOWN-FINDING only if the coordinator lists the key as an open finding)
        c.violation(witness, True, tag="d61", finding_key=D61_KEY)


def run_both(c, binp, ops, timeout=900, model=True, modeldir=None, mdef_file=None):
    text = "\n".join(ops) + "\n"
    rc, out, err = vlib.run_bin(binp, args=[c.scratch, modeldir or MODELDIR(), RAW()], stdin_text=text, timeout=timeout,
                                env_extra={"C16_D2P_TOL": d2p_tol()})
    if not model:
        return (rc, out, err), (0, "", "")
    rc2, mout, merr = run_driver(c, text, timeout=timeout, mdef_file=mdef_file)
    return (rc, out, err), (rc2, mout, merr)


# --------------------------------------------------------------------------
# the dict2pid tables after loads and after run-time additions, both shipped models (C16_d2p_macros_exact)

def model_tables(c, binp, modeldir):
    """phones, silence id and the cd_tree dump of one acoustic model"""
    dump = c.scratch / f"mdef-{modeldir.name}.dump"
    rc, out, err = vlib.run_bin(binp, args=["mdefdump", modeldir, dump])
    if rc != 0 or not out.startswith("mdefdump ok"):
        return None
    rc, out, err = vlib.run_bin(binp, args=["phones", modeldir])
    if rc != 0:
        return None
    return [unhx(x) for x in out.split("\n")[0].split()], int(out.split("\n")[1].split()[1]), dump


def gen_d2p_case(g, phones, sil):
    """a small dictionary whose words share first / last diphones, with one-phone words and lengths 1, 2, 3, 4+; then
    run-time additions aimed at every branch of dict2pid_add_word (first pair new / known, last pair new / known,
    one-phone word new / known); every written row of the tables is dumped after the load and after every addition,
    dict2pid_internal for every word"""
    r = g.rng
    silname = phones[sil]
    real = [p for p in g.real if p != silname] or g.real
    pool = [r.choice(real) for _ in range(r.range(3, 6))]
    firsts, lasts, singles, words = set(), set(), set(), []

    def pron(n):
        p = [r.choice(pool) if r.chance(0.8) else r.choice(real) for _ in range(n)]
        if n >= 3 and r.chance(0.12):
            p[r.range(1, n - 2)] = silname        # silence as a word-internal context (second / second-last phone)
        return p

    def note(p):
        if len(p) == 1:
            singles.add(p[0])
        else:
            firsts.add((p[0], p[1]))
            lasts.add((p[-1], p[-2]))

    ops = ["begin dec 0"]
    nload = r.range(0, 12)
    for i in range(nload):
        n = r.weighted([(1, 3), (2, 3), (3, 3), (4, 2), (r.range(5, 9), 1)])
        p = pron(n)
        w = g.fresh()
        ops.append(f"load {hx(w)} {hx(b' '.join(p))}")
        note(p)
        words.append(w)
        g.hit("d2p_family_load_len", str(min(n, 5)) + ("+" if n >= 5 else ""))
    for w in (b"<s>", b"</s>", b"<sil>"):
        ops.append(f"fload {hx(w)} {hx(silname)}")
    singles.add(silname)
    ops += ["init", "mgood", "tabs", "d2p"]
    ops += [f"intern {hx(w)}" for w in words]
    for i in range(r.range(5, 14)):
        kind = r.weighted([("final-new", 4), ("final-known", 4), ("first-new", 2), ("first-known", 3), ("single-new", 2),
                           ("single-known", 2), ("both-known", 2), ("any", 3)])
        n = r.weighted([(2, 4), (3, 4), (4, 3), (r.range(5, 9), 1)])
        p = pron(n)
        if kind == "final-known" and lasts:
            e, l2 = r.choice(sorted(lasts))
            p[-1], p[-2] = e, l2
        elif kind == "first-known" and firsts:
            b, x = r.choice(sorted(firsts))
            p[0], p[1] = b, x
        elif kind == "both-known" and firsts and lasts:
            b, x = r.choice(sorted(firsts))
            e, l2 = r.choice(sorted(lasts))
            p = [b, x] + p[2:] + [l2, e]
        elif kind == "final-new":
            for _ in range(20):
                if (p[-1], p[-2]) not in lasts:
                    break
                p[-1], p[-2] = r.choice(real), r.choice(real)
        elif kind == "first-new":
            for _ in range(20):
                if (p[0], p[1]) not in firsts:
                    break
                p[0], p[1] = r.choice(real), r.choice(real)
        elif kind == "single-new":
            cand = [x for x in real if x not in singles]
            p = [r.choice(cand or real)]
        elif kind == "single-known":
            p = [r.choice(sorted(singles))]
        what = ("single-" + ("known" if p[0] in singles else "new")) if len(p) == 1 else \
            ("first-" + ("known" if (p[0], p[1]) in firsts else "new") + ",final-" + ("known" if (p[-1], p[-2]) in lasts else "new"))
        g.hit("d2p_family_add", what)
        g.hit("d2p_family_add_len", str(min(len(p), 5)) + ("+" if len(p) >= 5 else ""))
        w = g.fresh()
        ops.append(f"add {hx(w)} {hx(b' '.join(p))} 0")
        ops.append("tabs")
        if len(p) > 2 or r.chance(0.3):
            ops.append(f"intern {hx(w)}")
        note(p)
        words.append(w)
    ops += ["d2p", "dump"]
    return ops


def judge_d2p(c, binp, ops, modeldir, phones, sil, dump, label):
    """real dict2pid tables = model-built tables, cell by cell (every written ldiph_lc / lrdiph_rc row, every rssid row
    with its n_ssid ids and its cimap, dict2pid_internal), on the acoustic model in `modeldir`"""
    mdef_line = f"mdefx {sil} " + " ".join(hx(p) for p in phones)

    def run(body):
        full = [mdef_line] + body
        (rc, out, err), (rc2, mout, merr) = run_both(c, binp, full, modeldir=modeldir, mdef_file=dump)
        ho, mo = out.rstrip("\n").split("\n"), mout.rstrip("\n").split("\n")
        bad = oracle_eval(full, ho, phones, sil, set()) if rc == 0 else []
        return full, rc, rc2, ho, mo, err, bad
    full, rc, rc2, ho, mo, err, bad = run(ops)
    if rc == 0 and rc2 == 0 and ho == mo and not bad:
        return True
    head, body = split_prefix(ops)

    def fails(sub):
        _, r1, r2, h, m, _, b = run(head + sub)
        return r1 != 0 or r2 != 0 or h != m or bool(b)
    small = vlib.ddmin(body, fails, max_tests=60)
    loads = [o for o in head if o.startswith("load ")]
    rest = [o for o in head if not o.startswith("load ")]

    def fails_loads(sub):
        nonlocal head
        saved = head
        head = rest[:1] + sub + rest[1:]
        try:
            return fails(small)
        finally:
            head = saved
    keep = vlib.ddmin(loads, fails_loads, max_tests=40)
    if fails_loads(keep):
        head = rest[:1] + keep + rest[1:]
    sc = head + small
    full, rc, rc2, ho, mo, err, bad = run(sc)
    if rc == 0 and rc2 == 0 and ho == mo and not bad:
        sc = ops
        full, rc, rc2, ho, mo, err, bad = run(sc)
    first = next((i for i in range(max(len(ho), len(mo))) if (ho[i] if i < len(ho) else None) != (mo[i] if i < len(mo) else None)), None)
    detail = {"first_diff_op": full[first] if first is not None and first < len(full) else None, "exit_code": rc, "oracle": bad[:3]}
    if first is not None and first < len(ho) and first < len(mo):
        a, b2 = ho[first].split(), mo[first].split()
        j = next((i for i in range(max(len(a), len(b2))) if (a[i] if i < len(a) else None) != (b2[i] if i < len(b2) else None)), None)
        if j is not None:
            detail.update({"implementation_row": a[j] if j < len(a) else None, "model_row": b2[j] if j < len(b2) else None,
                           "row_key": "L<first>,<second>: ldiph_lc over left contexts | S<b>: lrdiph_rc block | "
                                      "R<last>,<second-last>: ssid list / cimap over right contexts"})
    impl_wrong = rc != 0 or bool(bad) or any(l.startswith("d2p bad") or l == "mg 0" for l in ho)
    c.oblige(f"dict2pid tables of the real code = model-built tables ({label})", False, detail)
    readable = []
    for op in sc:
        w = op.split()
        readable.append(f"{w[0]} {unhx(w[1])!r} {unhx(w[2])!r}" if w[0] in ("add", "load", "fload") else op[:80])
    c.violation({"kind": "dict2pid tables after loads and run-time additions", "model_dir": str(modeldir), "ops": sc,
                 "mdef_line": mdef_line, "readable": readable, **detail,
                 "implementation_output": [l[:600] for l in ho], "model_output": [l[:600] for l in mo], "stderr_tail": err[-2000:],
                 "property_oracle_findings": [f"op {k} ({full[k][:60]}): {what}" for k, what in bad[:6]] +
                                             [f"op {k}: the harness's own comparison with bin_mdef_phone_id_nearest says {l}"
                                              for k, l in enumerate(ho) if l.startswith("d2p bad")],
                 "implementation_violates_property": impl_wrong,
                 "note": "C16_d2p_macros_exact: the model-built tables return the directly looked-up triphone; a difference "
                         "between the real and the model-built tables is therefore a wrong table cell of the real code (or a "
                         "model that no longer follows dict2pid.c)",
                 "how_to_rerun": "python3 tools/check.py C16 --replay <this file>"}, impl_wrong, tag="d2ptabs")
    return False


def d2p_family(c, binp, stats, ncases):
    """the tie of Props/C16D2p.lean: both shipped models, generated dictionaries and addition sequences"""
    total = 0
    for md in (MODELDIR(), vlib.REPO / "model" / "fr-fr"):
        mt = model_tables(c, binp, md)
        if mt is None:
            c.oblige(f"cd_tree of {md.name} can be dumped", False)
            return False, total
        phones, sil, dump = mt
        # D126 (reported, not part of the verdict): does bin_mdef_ciphone_id_nocase invert the phone table of this model?
        rc, out, err = vlib.run_bin(binp, args=[c.scratch, md, RAW()], stdin_text=f"mdef {sil} " + " ".join(hx(p) for p in phones) + "\n",
                                    timeout=300)
        c.cov.setdefault("D126_nocase_phone_lookup", {})[md.name] = out.strip()[:40]
        g = Gen(c.rng, phones, stats)
        for i in range(ncases):
            ops = gen_d2p_case(g, phones, sil)
            total += len(ops)
            if not judge_d2p(c, binp, ops, md, phones, sil, dump, f"{md.name} case {i}"):
                return False, total
            stats.setdefault("d2p_family_cases", {})
            stats["d2p_family_cases"][md.name] = stats["d2p_family_cases"].get(md.name, 0) + 1
    return True, total


def canon(ops, out, mout):
    """line lists with the hypothesis lines reduced to what the model can predict"""
    ho, mo = out.rstrip("\n").split("\n"), mout.rstrip("\n").split("\n")
    for k, op in enumerate(ops):
        if op.startswith("decode") and k < len(ho) and k < len(mo):
            # judged by the oracle (oracle_eval); here only "an answer came back"
            ho[k] = mo[k] = "h *"
    return ho, mo


def diverges(c, binp, ops, mdef_line):
    full = [mdef_line] + ops
    (rc, out, err), (rc2, mout, merr) = run_both(c, binp, full)
    ho, mo = canon(full, out, mout)
    return rc != 0 or rc2 != 0 or ho != mo, (rc, out, err, mout)


def split_prefix(ops):
    i = ops.index("init") + 1 if "init" in ops else 0
    return ops[:i], ops[i:]


def judge(c, binp, ops, must, phones, sil, mdef_line, label, model=True):
    """implementation vs model (diff) and vs the property (oracle); on failure shrink and report"""
    full = [mdef_line] + ops
    (rc, out, err), (rc2, mout, merr) = run_both(c, binp, full, model=model)
    if model and rc2 != 0:
        c.oblige(f"model driver runs ({label})", False, merr[-500:])
        return False
    ho = out.rstrip("\n").split("\n")
    c.last_out = ho
    bad = oracle_eval(full, ho, phones, sil, {k + 1 for k in must})
    if model:
        ch, cm = canon(full, out, mout)
        same = rc == 0 and ch == cm
    else:
        same = rc == 0
    if same and not bad:
        return True
    # shrink: keep the dictionary files, minimise the history
    head, body = split_prefix(ops)

    by_oracle = rc != 0 or bool(oracle_eval(full, ho, phones, sil, set()))   # prefer a witness the property oracle rejects

    def fails(sub):
        cand = head + sub
        f2 = [mdef_line] + cand
        (r1, o1, _), (r2, m1, _) = run_both(c, binp, f2, model=model)
        if r1 != 0:
            return True
        if not by_oracle and model and canon(f2, o1, m1)[0] != canon(f2, o1, m1)[1]:
            return True
        return bool(oracle_eval(f2, o1.rstrip("\n").split("\n"), phones, sil, set()))
    small = vlib.ddmin(body, fails, max_tests=150) if len(body) <= 400 else body
    # then the dictionary files (everything between `begin` and `init`)
    if len(head) > 3 and head[-1] == "init":
        fixed_body, h0, h1 = small, head[:1], head[-1:]

        def fails_head(sub):
            nonlocal head
            saved = head
            head = h0 + sub + h1
            try:
                return fails(fixed_body)
            finally:
                head = saved
        mid = vlib.ddmin(head[1:-1], fails_head, max_tests=80)
        if fails_head(mid):
            head = h0 + mid + h1
    sc = head + small
    f2 = [mdef_line] + sc
    (rc, out, err), (rc2, mout, merr) = run_both(c, binp, f2, model=model)
    ho = out.rstrip("\n").split("\n")
    bad2 = oracle_eval(f2, ho, phones, sil, set())
    if not (rc != 0 or bad2 or (model and canon(f2, out, mout)[0] != canon(f2, out, mout)[1])):
        sc, f2, bad2 = ops, full, bad   # shrinking lost the failure (e.g. a determined hypothesis); report the full case
        (rc, out, err), (rc2, mout, merr) = run_both(c, binp, f2, model=model)
        ho = out.rstrip("\n").split("\n")
    impl_wrong = rc != 0 or bool(bad2)
    mo = mout.rstrip("\n").split("\n")
    first = next((i for i in range(max(len(ho), len(mo))) if (ho[i] if i < len(ho) else None) != (mo[i] if i < len(mo) else None)
                  and not f2[min(i, len(f2) - 1)].startswith("decode")), None) if model else None
    c.oblige(f"correspondence model = implementation and property oracle ({label})", False,
             {"first_diff_op": f2[first] if first is not None and first < len(f2) else None,
              "impl": ho[first][:200] if first is not None and first < len(ho) else None,
              "model": mo[first][:200] if first is not None and first < len(mo) else None,
              "oracle": bad2[:3], "exit_code": rc})
    readable = []
    for op in sc:
        w = op.split()
        if w[0] in ("add", "load", "fload"):
            readable.append(f"{w[0]} {unhx(w[1])!r} {unhx(w[2])!r}" + (f" update={w[3]}" if len(w) > 3 else ""))
        elif w[0] in ("lookup", "wid", "chain", "base", "alts", "align"):
            readable.append(f"{w[0]} {unhx(w[1])!r}")
        elif w[0] == "dadd":
            readable.append(f"dadd {unhx(w[1])!r} {w[3:]}")
        elif w[0] == "fsg":
            readable.append("fsg " + " ".join(repr(unhx(x)) for x in w[1:]))
        else:
            readable.append(op[:100])
    c.violation({"kind": "dictionary history", "ops": sc, "mdef_line": mdef_line, "readable": readable,
                 "implementation_output": [l[:400] for l in ho], "exit_code": rc, "stderr_tail": err[-2500:],
                 "model_output": [l[:400] for l in mo] if model else None,
                 "property_oracle_findings": ([f"the process died with exit code {rc} inside op {len(ho) - 1} ({f2[min(len(ho) - 1, len(f2) - 1)][:60]}): "
                                               f"sanitizer report / assert / exit, see stderr_tail"] if rc != 0 else []) +
                                             [f"op {k} ({f2[k][:60]}): {what}" for k, what in bad2[:6]],
                 "implementation_violates_property": impl_wrong,
                 "how_to_rerun": "python3 tools/check.py C16 --replay <this file>"}, impl_wrong)
    return False


def harness(c):
    """build h_c16 and run it from a private copy: concurrent checks prune old builds under .build/repo"""
    last = None
    for _ in range(3):
        try:
            src = vlib.build_harness("h_c16")
            dst = c.scratch / "h_c16.bin"
            shutil.copy2(src, dst)
            return dst
        except FileNotFoundError as e:   # pruned between build and copy: build again
            last = e
    raise vlib.BuildError(f"harness binary vanished while copying: {last}")


def driver(c):
    """private copy of ssdriver: other checks relink .lake/build/bin/ssdriver while this one runs"""
    import time
    dst = c.scratch / "ssdriver.bin"
    for _ in range(120):
        try:
            shutil.copy2(vlib.driver_path(), dst)
            os.chmod(dst, 0o755)
            return dst
        except (FileNotFoundError, OSError):
            time.sleep(1)
    raise vlib.BuildError("ssdriver binary not available")


def run_driver(c, text, timeout=900, mdef_file=None):
    import subprocess
    env = dict(os.environ)
    env["C16_MDEF"] = str(mdef_file or c.mdef_file)
    r = subprocess.run([str(c.drv), "c16"], input=text.encode(), stdout=subprocess.PIPE, stderr=subprocess.PIPE, timeout=timeout, env=env)
    return r.returncode, r.stdout.decode(errors="replace"), r.stderr.decode(errors="replace")


def dump_mdef(c, binp):
    """cd_tree / filler flags / ssid table of the acoustic model, for the model's bin_mdef_phone_id"""
    c.mdef_file = c.scratch / "mdef.dump"
    rc, out, err = vlib.run_bin(binp, args=["mdefdump", MODELDIR(), c.mdef_file])
    ok = rc == 0 and out.startswith("mdefdump ok")
    c.oblige("the model's cd_tree is well formed (leaves name phones of the table, inner nodes point inside the tree)", ok, out + err[-300:])
    return ok


def read_phones(binp):
    rc, out, err = vlib.run_bin(binp, args=["phones", MODELDIR()])
    if rc != 0:
        raise vlib.BuildError("cannot read the phone table: " + err[-400:])
    l = out.split("\n")
    return [unhx(x) for x in l[0].split()], int(l[1].split()[1])


def full_dict_case(g, phones, sil):
    """ops on a decoder with the shipped en-us dictionary (oracle only: the list-based model is not run at 134k words)"""
    r = g.rng
    ops = ["begin dec 0", "initfull"]
    base_words = [b"forward", b"go", b"meters", b"ten", b"zebra", b"read", b"a", b"the"]
    for i in range(r.range(25, 60)):
        k = r.weighted([("new", 5), ("alt", 5), ("dup", 2), ("nobase", 1), ("unknown", 1), ("empty", 1), ("one", 2)])
        if k == "new":
            w, p = g.fresh(5), g.phone_string(g.pron())
        elif k == "alt":
            w, p = r.choice(base_words) + b"(" + str(r.range(2, 9)).encode() + b")", g.phone_string(g.pron())
        elif k == "dup":
            w, p = r.choice(base_words), g.phone_string(g.pron())
        elif k == "nobase":
            w, p = g.fresh(5) + b"(2)", g.phone_string(g.pron())
        elif k == "unknown":
            w, p = g.fresh(5), b"F OO"
        elif k == "empty":
            w, p = (b"", b"AA") if r.chance(0.5) else (g.fresh(5), b"")
        else:
            w, p = g.fresh(5), g.phone_string(g.pron(1))
        g.hit("full_dict", k)
        if r.chance(0.5):      # the query right before the addition, the same one right after it
            pk_ = r.weighted([("lookup", 6), ("wid", 2), ("align", 2)])
            if pk_ == "align" and not probe_text_ok(w):
                pk_ = "lookup"
            ops.append(f"align {hx(b'go ' + w)}" if pk_ == "align" else f"{pk_} {hx(w)}")
            g.hit("full_dict_query_before_add", pk_)
            if pk_ == "align" and r.chance(0.5):
                ops.append(f"add {hx(w)} {hx(p)} 0")
                ops.append(f"align {hx(w + b' go')}")
                continue
        ops.append(f"add {hx(w)} {hx(p)} 0")
        ops.append(f"lookup {hx(w)}")
        if r.chance(0.5):
            ops.append(f"chain {hx(r.choice(base_words))}")
        if r.chance(0.3):
            ops.append(f"lookup {hx(r.choice(base_words + [b'abandon', b'zulu', b'read(2)']))}")
    return ops, set()


def check(c):
    global INC
    c.trusted += ["tools/gen_consts.py (S3DICT_INC_SZ, special words, isspace_c byte set)",
                  "harness/h_c16.c + tools/props/c16.py (generator, canonicalisation, diff, Python property oracle)",
                  "C20 (hash_table.c is a finite map) as the justification of the abstract map in the model",
                  "clang ASan/UBSan as observer of memory errors in dict.c / dict2pid.c / decoder_add_word",
                  "bin_mdef_ciphone_id is the inverse of the phone table (re-checked on every run by the harness `mdef` op)",
                  "h_c16 mdefdump: the raw cd_tree / filler flags / phone[].ssid handed to the model's bin_mdef_phone_id (its "
                  "well-formedness — leaves name phones of the table, inner nodes point inside the tree — is checked while dumping); "
                  "the real bin_mdef_phone_id_nearest is compared with the model on whole (b, pos) rows of both shipped models and "
                  "stays the independent reference of the harness's `d2p` op",
                  "tools/gen_consts.py gen_dict2pid_consts (which silence rows populate_lrdiph stores into)",
                  "ckd_realloc preserves the old entries (libc realloc)"]
    c.assumptions += ["word and phone strings are NUL-terminated C strings (no embedded NUL)",
                      "fewer than MAX_S3WID words; allocation failure is fatal (ckd_alloc) and outside the model",
                      "alternates of alternates (`x(2)(3)`) hang on the chain of the base word `x` with base id = id of `x(2)`; "
                      "this is the code's behaviour and what C16_alt_chain states",
                      "the determined-hypothesis check uses tests/data/goforward.raw with the shipped en-us acoustic model"]
    if not c.lean_obligations():
        return
    m = re.search(r"s3dictIncSz : Nat := (\d+)", (vlib.LEAN / "SSVerif" / "Generated" / "DictConsts.lean").read_text())
    INC = int(m.group(1))
    binp = harness(c)
    c.drv = driver(c)
    if not dump_mdef(c, binp):
        return
    phones, sil = read_phones(binp)
    mdef_line = f"mdef {sil} " + " ".join(hx(p) for p in phones)
    stats = {}
    for md in (MODELDIR(), vlib.REPO / "model" / "fr-fr"):
        if not nearest_sweep(c, binp, md, 14 if c.tier == "quick" else None, stats):
            return
    d61_report(c, binp, mdef_line)
    g = Gen(c.rng, phones, stats)
    ncorp, corpus_failed = 0, False
    for f in sorted((vlib.ROOT / "corpus" / "C16").glob("*.ops")):
        ops = [l for l in f.read_text().split("\n") if l.strip()]
        mustk = {k for k, op in enumerate(ops) if op.startswith("decode") and op.endswith("!")}
        ops = [op.rstrip("!") for op in ops]
        ncorp += 1
        if not judge(c, binp, ops, mustk, phones, sil, mdef_line, f"corpus {f.name}"):
            corpus_failed = True
    if corpus_failed:
        c.cov.update({"evaluations": ncorp, "distinct_nontrivial": ncorp, "rule": "corpus cases (regressions of D02-D05)"})
        return
    quick = c.tier == "quick"
    plan = [("dict", 50 if quick else 900, False), ("dec", 26 if quick else 450, False)]
    if os.environ.get("C16_ONLY") == "d2p":   # development aid: only the dict2pid-table family (never set by check.py)
        okd, nops = d2p_family(c, binp, stats, 3 if quick else 60)
        c.oblige("dict2pid tables of the real code = tables built by the model (only this family was run: C16_ONLY=d2p)", okd)
        c.cov.update({"evaluations": sum(stats.get("d2p_family_cases", {}).values()), "distinct_nontrivial": sum(stats.get("d2p_family_cases", {}).values()),
                      "distribution": stats, "note": "partial run (C16_ONLY=d2p)"})
        return
    total_ops, ncases, distinct, allok = 0, 0, set(), True
    for mode, n, _ in plan:
        for i in range(n):
            ops, must = gen_case(g, phones, sil, mode, c.rng.range(15, 60))
            ncases += 1
            total_ops += len(ops)
            distinct.add(hash(tuple(ops)))
            if len(c.samples) < 4 and i < 2:
                c.samples.append([o[:90] for o in ops[-12:]])
            if not judge(c, binp, ops, must, phones, sil, mdef_line, f"{mode} case {i}"):
                allok = False
                break
        if not allok:
            break
    ngrowth = grown = 0
    if allok:
        # growth past the preallocated table: > S3DICT_INC_SZ additions (twice in the thorough tier)
        for mode in (("dec", "dict") if not quick else ("dec" if c.rng.chance(0.5) else "dict",)):
            ops, must = gen_growth(g, phones, sil, mode, INC + 40 if quick else 2 * INC + 60)
            ncases += 1
            ngrowth += 1
            total_ops += len(ops)
            if not judge(c, binp, ops, must, phones, sil, mdef_line, f"growth {mode}"):
                allok = False
                break
            mx = [int(m.group(1)) for l in c.last_out for m in [re.match(r"(?:init|d) n=\d+ max=(\d+)", l)] if m]
            grown += (mx[-1] - mx[0]) // INC if mx else 0
    nexh = 0
    if allok:
        for nocase, maxlen in (((False, 3), (True, 2)) if quick else ((False, 5), (True, 4))):
            for batch, k in exhaustive_batches(maxlen, nocase):
                nexh += k
                total_ops += len(batch)
                if not judge_batch(c, binp, batch, phones, sil, mdef_line, f"exhaustive <= {maxlen} additions, nocase={int(nocase)}"):
                    allok = False
                    break
            if not allok:
                break
    nd2p = 0
    if allok:
        okd, nops = d2p_family(c, binp, stats, 3 if quick else 60)
        total_ops += nops
        nd2p = sum(stats.get("d2p_family_cases", {}).values())
        ncases += nd2p
        c.oblige("dict2pid tables (every written ldiph_lc / lrdiph_rc row, every rssid row: ids, n_ssid, cimap; dict2pid_internal) "
                 "of the real code = tables built by the model, after dictionary loads and after every decoder_add_word, "
                 "on en-us and fr-fr; mdefGood holds on both model definitions", okd)
        allok = allok and okd
    nfull = 0
    if allok:
        for i in range(1 if quick else 6):
            ops, must = full_dict_case(g, phones, sil)
            ncases += 1
            nfull += 1
            total_ops += len(ops)
            if not judge_full(c, binp, ops, phones, sil, mdef_line, f"full en-us dictionary {i}"):
                allok = False
                break
    if allok:
        c.oblige("the growth cases really crossed max_words (realloc observed in the dumps)", grown >= ngrowth, f"{grown} < {ngrowth}")
    c.oblige("correspondence: real dict.c/dict2pid.c/decoder_add_word (ASan/UBSan) = model on every generated history, "
             "and the Python property oracle accepts every output", allok)
    never = [k for k in ("rejected:dup", "rejected:dup-case", "rejected:alt-nobase", "rejected:empty") if k not in stats.get("add_result", {})]
    c.cov.update({"evaluations": ncases + ncorp + nexh, "distinct_nontrivial": len(distinct) + ngrowth + nfull + nexh + nd2p,
                  "dict2pid_table_cases(en-us+fr-fr)": nd2p,
                  "exhaustive_small_scope_histories": nexh,
                  "rule": "distinct op histories; every history has >= 15 additions over spellings aimed at each branch of "
                          "dict_add_word/dict_word2basestr (new, alternate, alternate of alternate, duplicate, case-variant duplicate, "
                          "alternate without base, empty, odd parentheses, long, high bytes) interleaved with lookups, chain walks, dumps, "
                          "grammar loads and utterances",
                  "ops_executed": total_ops, "growth_cases(>S3DICT_INC_SZ additions)": ngrowth, "reallocations_observed(max_words steps)": grown, "full_en_us_dictionary_cases": nfull,
                  "corpus_cases": ncorp, "distribution": stats, "model_branches_never_hit": never})


def exhaustive_batches(maxlen, nocase):
    """every sequence of <= maxlen direct additions over a small alphabet of spellings that interact
    (base, alternates, alternate of alternate, case variant, missing base, empty), each followed by a dump"""
    import itertools
    alpha = [b"foo", b"foo(2)", b"foo(3)", b"foo(2)(3)", b"bar", b"FOO(2)", b"", b"x(2)"]
    batch, ncase = [], 0
    for L in range(1, maxlen + 1):
        for seq in itertools.product(range(len(alpha)), repeat=L):
            batch += [f"begin dict {int(nocase)}", f"fload {hx(b'<sil>')} {hx(b'SIL')}", "init"]
            for j, a in enumerate(seq):
                batch.append(f"dadd {hx(alpha[a])} 1 {1 + (j + a) % 7}")
            batch += ["dump", f"chain {hx(b'foo')}", f"wid {hx(b'FOO')}"]
            ncase += 1
            batch += [f"begin dict {int(nocase)}", f"fload {hx(b'<sil>')} {hx(b'SIL')}", "init"]
            for j, a in enumerate(seq):
                batch += [f"wid {hx(alpha[a])}", f"dadd {hx(alpha[a])} 1 {1 + (j + a) % 7}", f"wid {hx(alpha[a])}"]
            batch += ["dump", f"chain {hx(b'foo')}", f"wid {hx(b'FOO')}"]
            ncase += 1
            if len(batch) > 150000:
                yield batch, ncase
                batch, ncase = [], 0
    if batch:
        yield batch, ncase


def judge_batch(c, binp, batch, phones, sil, mdef_line, label):
    full = [mdef_line] + batch
    (rc, out, err), (rc2, mout, merr) = run_both(c, binp, full)
    ho = out.rstrip("\n").split("\n")
    if rc == 0 and rc2 == 0 and ho == mout.rstrip("\n").split("\n") and not oracle_eval(full, ho, phones, sil, set()):
        return True
    # locate the failing case and report it on its own
    case = []
    for op in batch + ["begin end 0"]:
        if op.startswith("begin") and case:
            if not judge(c, binp, case, set(), phones, sil, mdef_line, label):
                return False
            case = []
        case.append(op)
    c.oblige(f"correspondence ({label})", False, "the batch diverges but no single case does")
    return False


def gen_growth(g, phones, sil, mode, nadds):
    r = g.rng
    nocase = r.chance(0.3)
    ops, lines, flines = gen_init(g, mode, nocase, mode == "dec", nlines=r.range(0, 6), allow_fail=False)
    o = shadow(phones, sil, nocase, lines, flines)
    must = set()
    if o is None:
        return ops + ["dump"], must
    nfile = len(lines) + len(flines)
    cap = nfile + INC
    count = 0
    while count < nadds:      # nadds *accepted* additions
        known = [w for w, _, _ in o.words]
        recent = known[-40:] + known[:10]
        bases = [b for b in recent if basestr(b) is None and b"(" not in b and not b.startswith(b"<") and not b.startswith(b"[")] or known[:1]
        kind = r.weighted([("new", 70), ("alt", 18), ("dup", 4), ("nobase", 3), ("alt-of-alt", 3), ("empty", 1), ("badphone", 1)])
        # the addition that makes the word table grow (and move) is, most of the time, a numbered alternate of an
        # existing base word or a rejected addition: what the growth does to links INTO the table (base -> alt) and
        # to a half-done addition shows only then (seeded change C16-dm1 was caught by luck of the draw before)
        if any(len(o.words) == cap + j * INC for j in range(0, 3)):
            kind = r.weighted([("alt", 60), ("alt-of-alt", 10), ("dup", 10), ("nobase", 5), ("new", 15)])
            g.hit("growth_add", f"kind-at-exact-growth-point:{kind}")
        if kind == "new":
            w = g.fresh()
        elif kind == "alt":
            w = r.choice(bases) + b"(" + str(r.range(2, 9)).encode() + b")"
        elif kind == "dup":
            w = r.choice(recent)
        elif kind == "nobase":
            w = g.fresh() + b"(2)"
        elif kind == "alt-of-alt":
            alts = [k for k in recent if basestr(k)]
            w = (r.choice(alts) if alts else g.fresh()) + b"(3)"
        elif kind == "empty":
            w = b""
        else:
            w = g.fresh()
        at_boundary = any(-1 <= len(o.words) - (cap + j * INC) <= 1 for j in range(0, 3))
        pre = around_add_pre(g, o, ops, w, mode, p=0.9 if at_boundary else 0.06)
        if mode == "dec":
            ps = b" ".join(g.pron(r.range(1, 4)))
            if kind == "badphone":
                ps = b"QQ"
            ops.append(f"add {hx(w)} {hx(ps)} 0")
            res = o.add(w, ps)
        else:
            ids = [phones.index(t) for t in g.pron(r.range(1, 4))]
            ops.append(f"dadd {hx(w)} {len(ids)} " + " ".join(map(str, ids)))
            res = o.dadd(w, ids)
        if pre:
            around_add_post(g, o, ops, w, mode, pre, res >= 0, "add at the reallocation boundary" if at_boundary else "add (growth)")
        count += 1 if res >= 0 else 0
        g.hit("growth_add", "accepted" if res >= 0 else f"rejected:{kind}")
        n = len(o.words)
        if any(-1 <= n - (cap + j * INC) <= 1 for j in range(0, 3)) and r.chance(0.7):
            ops.append("dump")
            ops.append(f"chain {hx(known[0])}")
            g.hit("ops", "dump-at-growth-boundary")
        if len(ops) % 211 == 0:
            ops.append(f"wid {hx(r.choice(known))}")
            if mode == "dec":
                ops.append(f"lookup {hx(r.choice(known))}")
    ops.append("dump")
    if mode == "dec":
        ops.append("d2p")
        ops.append("tabs")
        gen_spoken_block(g, o, ops, must)
    return ops, must


def judge_full(c, binp, ops, phones, sil, mdef_line, label):
    """full shipped dictionary: the implementation is judged by the Python oracle only"""
    full = [mdef_line] + ops
    text = "\n".join(full) + "\n"
    rc, out, err = vlib.run_bin(binp, args=[c.scratch, MODELDIR(), RAW()], stdin_text=text, timeout=900,
                                env_extra={"C16_D2P_TOL": d2p_tol()})
    ho = out.rstrip("\n").split("\n")
    # oracle with the dictionary files parsed here
    def read(path):
        res = []
        for l in open(path, "rb").read().split(b"\n"):
            if l.startswith(b"##") or l.startswith(b";;") or not l.strip():
                continue
            f = l.split(None, 1)
            res.append((f[0], f[1] if len(f) > 1 else b""))
        return res
    lines, flines = read(MODELDIR() / "dict.txt"), read(MODELDIR() / "noisedict.txt")
    conv = []
    for op in full:
        if op == "initfull":
            conv += [f"load {hx(w)} {hx(p)}" for w, p in lines] + [f"fload {hx(w)} {hx(p)}" for w, p in flines] + ["init"]
        else:
            conv.append(op)
    k = full.index("initfull")
    outs = ho[:k] + ["ok"] * (len(lines) + len(flines)) + ho[k:]
    bad = oracle_eval(conv, outs, phones, sil, set())
    if rc == 0 and not bad:
        return True
    c.oblige(f"property oracle on the implementation ({label})", False, {"oracle": bad[:3], "exit_code": rc})
    c.violation({"kind": "dictionary history on the shipped en-us dictionary", "ops": ops, "mdef_line": mdef_line,
                 "implementation_output": [l[:300] for l in ho[-40:]], "exit_code": rc, "stderr_tail": err[-2500:],
                 "property_oracle_findings": [f"{what}" for _, what in bad[:6]],
                 "implementation_violates_property": True,
                 "how_to_rerun": "python3 tools/check.py C16 --replay <this file>"}, True)
    return False


def replay(c, path):
    c.lean_obligations()
    binp = harness(c)
    c.drv = driver(c)
    if not dump_mdef(c, binp):
        return
    phones, sil = read_phones(binp)
    obj = json.loads(open(path).read())
    mdef_line = f"mdef {sil} " + " ".join(hx(p) for p in phones)
    if obj.get("model_dir") and obj.get("kind", "").startswith("dict2pid tables"):
        md = pathlib.Path(obj["model_dir"])
        if not md.exists() or vlib.REPO not in md.parents:
            md = vlib.REPO / "model" / md.name
        mt = model_tables(c, binp, md)
        if mt is None:
            c.oblige(f"cd_tree of {md.name} can be dumped", False)
        else:
            judge_d2p(c, binp, obj["ops"], md, mt[0], mt[1], mt[2], "replay")
    elif "initfull" in obj["ops"]:
        judge_full(c, binp, obj["ops"], phones, sil, mdef_line, "replay")
    else:
        judge(c, binp, obj["ops"], set(), phones, sil, mdef_line, "replay")
    c.cov.update({"evaluations": 1, "distinct_nontrivial": 1})
