"""C14 — the JSON result is well-formed and says what the iterators say.

Lean: SSVerif/Props/C14.lean — for the model of `decoder_result_json` (src/decoder.c, with repairs D13/D14):
the two passes agree (allocation = text + NUL, no store outside the block, all asserts hold), the line is accepted
by a total JSON recogniser as one object + one newline for every word spelling, and the parsed tree is the
hypothesis / segment / alignment records.  Tie: HYP_FORMAT regenerated from the source; scenarios (grammar kinds x
audio x result states x levels x start offsets x frame rates x word spellings) run on the real decoder under
ASan/UBSan (harness/h_c14.c), every returned line compared byte for byte with the model's line for the same
iterator dump (`ssdriver c14`).  Oracle on the implementation's own output: allocation size reported by the
allocator = strlen + 1, strict JSON parse (Python `json` with NaN/Infinity/duplicate keys/control characters
rejected, and the Lean recogniser), numeric comparison with what the iterators report.

Round 2 (Props/C14Fmt.lean, tools/props/c14fmt.py): `%.3f` is no longer an observed parameter.  Model/Fmt3.lean renders a
double's bit pattern exactly as glibc does, Model/Dbl.lean computes `start + (double)f / frate` and `(double)n / frate` as
IEEE doubles, and the model instantiated with both (`resultJsonD`, driver `c14f`, with repair D80: a non-finite start
offset is refused) must reproduce every returned line byte for byte from the iterator integers, the start offset's bit
pattern and the `logmath_exp` values alone.  libc's snprintf and the machine's arithmetic are compared with the Lean
definitions on thousands of structured bit patterns / triples per run (harness ops `fmt`, `arith`).
"""
import concurrent.futures, json, math, os, re, time
import vlib
from props import c14fmt

RAW = "tests/data/goforward.raw"
NSAMP = 44580          # samples in goforward.raw (checked at run time)
BASE = [(b"go", "G,OW"), (b"forward", "F,AO,R,W,ER,D"), (b"ten", "T,EH,N"), (b"meters", "M,IY,T,ER,Z")]
GOFORWARD_GRAM = None   # read from the repo at run time

# spellings the dictionary accepts (decoder_add_word takes any non-empty C string); class -> examples
SPECIAL = {
    "quote": [b'say"hi', b'"', b'""', b'a"b"c', b'"x'],
    "backslash": [b"back\\slash", b"\\", b"\\\\", b"x\\", b"\\n", b"\\u0041", b'\\"', b'"\\'],
    "control": [b"\x01a", b"b\x1f", b"\x08\x0cz", b"a\x1bz", b"\x7f"],
    "whitespace": [b"tab\tx", b"nl\nx", b"cr\rx", b"a b"],        # only usable through the FSG API
    "utf8": ["é".encode(), "日本".encode(), "naïve".encode(), "😀".encode(), "ü\"ö\\".encode()],
    "non-utf8": [b"\xff\xfe", b"\x80", b"caf\xe9", b"\xc3", b'\xe9"\\'],
    "json-like": [b'{"a":1}', b"[1,2]", b"a,b", b"}", b"]", b":", b"null"],
    "long": [b"L" + bytes((i * 37 + 11) % 255 + 1 for i in range(300)).replace(b" ", b"_").replace(b"\t", b"_")
             .replace(b"\n", b"_").replace(b"\r", b"_").replace(b"(", b"<").replace(b")", b">") + b"X"],
}
STARTS = ["0", "0.5", "1.25", "1234.5678", "1000000.001", "-3.25", "0.0001", "31536000", "1e15", "0.0004999", "2.0005",
          "x8000000000000000", "-0.0001", "0.0625", "2.1875", "-0.4375", "1e300", "-1e22", "1.7976931348623157e308",
          "x0000000000000001", "4503599627370495.5", "99.9995", "0.0005"]
# start offsets that are not numbers (repair D80: refused with NULL)
NONFINITE = ["x7ff0000000000000", "xfff0000000000000", "x7ff8000000000000", "xfff8000000000000", "x7ff0000000000001"]
# offsets with ~300 integer digits: used at level 0 only (the model's byte-list memory is quadratic in the line length)
HUGE = {"1e300", "1.7976931348623157e308"}
KEY_D80 = "D80-nonfinite-start-offset"     # a label in replays only: the defect is repaired, a recurrence is a plain violation
FRATES = [1, 3, 7, 50, 100, 125, 1000, 16000]


def hx(b):
    return "-" if not b else b.hex()


def unhex(s):
    return None if s == "null" else (b"" if s == "-" else bytes.fromhex(s))


def is_utf8(b):
    try:
        b.decode("utf-8")
        return True
    except UnicodeDecodeError:
        return False


# --------------------------------------------------------------------------
# scenario generation

def json_ops(rng, tier, stats, init_frate, n):
    """a few (start, level, frate-override) combinations for the current result state"""
    ops = []
    combos = [(l, "0", None) for l in (0, 1, 2)]
    for _ in range(n):
        level, start = rng.choice([0, 1, 2]), rng.choice(STARTS)
        combos.append((0 if start in HUGE else level, start, rng.choice(FRATES) if rng.chance(0.5) else None))
    for level, start, fr in combos:
        if fr is not None and fr != init_frate:
            ops += [f"frate {fr}", f"json {start} {level}", f"frate {init_frate}"]
        else:
            ops.append(f"json {start} {level}")
        stats["levels"][level] = stats["levels"].get(level, 0) + 1
    return ops


def feed_ops(rng, stats, init_frate, tier, audio):
    """start; [json]; audio part 1; [json]; rest; end; [json]  — empty, partial and final results"""
    nj = 2 if tier == "quick" else 5
    ops = ["start"] + json_ops(rng, tier, stats, init_frate, nj)
    chunk = rng.choice([160, 512, 1024, 2048, 4096])
    if audio == "speech":
        cut = rng.range(3000, NSAMP - 3000)
        ops.append(f"raw {vlib.REPO / RAW} 0 {cut} {chunk}")
        ops += json_ops(rng, tier, stats, init_frate, nj)
        if rng.chance(0.4):
            cut2 = rng.range(cut, NSAMP)
            ops.append(f"raw {vlib.REPO / RAW} {cut} {cut2 - cut} {chunk}")
            ops += json_ops(rng, tier, stats, init_frate, 1)
            cut = cut2
        ops.append(f"raw {vlib.REPO / RAW} {cut} {NSAMP - cut} {chunk}")
    elif audio == "noise":
        n1, amp = rng.range(2000, 16000), rng.choice([0, 5, 200, 2000])
        ops.append(f"noise {rng.below(1 << 30)} {n1} {amp} {chunk}")
        ops += json_ops(rng, tier, stats, init_frate, nj)
        ops.append(f"noise {rng.below(1 << 30)} {rng.range(0, 8000)} {rng.choice([0, 5, 200])} {chunk}")
        ops += json_ops(rng, tier, stats, init_frate, 1)
    elif audio == "short":
        ops.append(f"raw {vlib.REPO / RAW} 0 {rng.range(0, 2500)} {chunk}")
        ops += json_ops(rng, tier, stats, init_frate, 1)
    # audio == "none": nothing fed
    ops.append("end")
    ops += json_ops(rng, tier, stats, init_frate, nj)
    return ops


def pick_special(rng, stats, allow_ws):
    cls = rng.choice([c for c in SPECIAL if allow_ws or c != "whitespace"])
    stats["spelling_classes"][cls] = stats["spelling_classes"].get(cls, 0) + 1
    return rng.choice(SPECIAL[cls])


# --------------------------------------------------------------------------
# length-aimed stratum: entry texts whose ESCAPED length sits on / next to plausible fixed-buffer sizes

BOUNDARY = sorted(set(list(range(56, 73)) + list(range(124, 133)) + list(range(252, 261)) + list(range(508, 517))))
BOUNDARY_BIG = list(range(1020, 1029))
VARIANTS = {"plain": b"", "quote": b'"', "backslash": b"\\", "control": b"\x01", "utf8": "é".encode()}
ALPHA = b"abcdefghijklmnopqrstuvwxyzABCDEFGHIJKLMNOPQRSTUVWXYZ0123456789"


def esc_len(b):
    return sum(2 if c in (34, 92) else 6 if c < 32 else 1 for c in b)


def aimed_word(L, variant, tag=""):
    """a spelling (no blanks, no parentheses, not an English word) whose escaped length is exactly L and which ends
    in the variant's byte(s), so that a cut at L-1 falls inside the escape pair / sequence / UTF-8 character"""
    tail = VARIANTS[variant]
    body_len = L - esc_len(tail)
    head = (f"_{L}{variant[0]}{tag}_").encode()[:max(body_len, 0)]
    if body_len < 1:
        return None
    body = head + bytes(ALPHA[(i * 7 + L) % len(ALPHA)] for i in range(body_len - len(head)))
    w = body + tail
    assert esc_len(w) == L, (L, variant, esc_len(w))
    return w


def bare_sweep_scenario(stats):
    """no decoding: every aimed spelling becomes a word of an installed alignment (levels 1 and 2)"""
    stats["kinds"]["length-bare"] = stats["kinds"].get("length-bare", 0) + 1
    ops, words, todo = ["init bestpath=no frate=100"], [], []
    for L in range(8, 141):
        for v in ("plain", "quote"):
            todo.append(aimed_word(L, v))
    for L in BOUNDARY + BOUNDARY_BIG:
        for v in VARIANTS:
            if L > 140 or v not in ("plain", "quote"):
                todo.append(aimed_word(L, v))
    todo = [w for w in todo if w]
    for w in todo:
        ops.append(f"addword {hx(w)} G,OW")
        words.append(w.hex())
    batch, size, t0 = [], 0, 0
    def flush():
        nonlocal batch, size, t0
        if batch:
            ops.append("barealign " + " ".join(batch))
            ops.extend(["json 0 1", "json 0.5 2"])
            for l in (1, 2):
                stats["levels"][l] = stats["levels"].get(l, 0) + 1
        batch, size, t0 = [], 0, 0
    for w in todo:
        batch.append(f"{hx(w)}:{t0}:3")
        t0 += 3
        size += len(w)
        if len(batch) >= 12 or size > 900:
            flush()
    flush()
    return {"kind": "length-bare", "ops": ops, "words": words}


def length_decode_scenario(rng, stats, mode, targets=None, variant=None):
    """goforward.raw aligned to four aimed spellings; JSON at all levels after every word boundary, so that the
    hypothesis string passes through the prefixes w1, w1 w2, ... (mode "hyp": the prefix lengths are the targets;
    mode "word": each spelling's own escaped length is a target)"""
    stats["kinds"]["length-decode"] = stats["kinds"].get("length-decode", 0) + 1
    variant = variant or rng.choice(list(VARIANTS))
    need = esc_len(VARIANTS[variant]) + 1
    if mode == "hyp":
        if targets is None:
            pool, targets, last = BOUNDARY[:], [], -10
            start = rng.below(len(pool) - 8)
            for t in pool[start:]:
                if t - last - 1 >= need and (not targets or rng.chance(0.45)) and len(targets) < 4:
                    targets.append(t)
                    last = t
            while len(targets) < 4:
                last += need + 1 + rng.below(5)
                targets.append(last)
        lens = [targets[0]] + [b - a - 1 for a, b in zip(targets, targets[1:])]
    else:
        lens = targets or [rng.choice(BOUNDARY) for _ in range(4)]
    bestpath = rng.choice(["yes", "no"])
    stats["bestpath"][bestpath] = stats["bestpath"].get(bestpath, 0) + 1
    stats["init_frate"][100] = stats["init_frate"].get(100, 0) + 1
    stats["audio"]["speech"] = stats["audio"].get("speech", 0) + 1
    ops, words, chain = [f"init bestpath={bestpath} frate=100"], [], []
    for i, (L, (_, pron)) in enumerate(zip(lens, BASE)):
        w = aimed_word(max(L, need), variant, tag=str(i))
        ops.append(f"addword {hx(w)} {pron}")
        words.append(w.hex())
        chain.append(w)
    ops.append("align " + hx(b" ".join(chain)))
    ops.append("start")
    pos = 0
    for cut in (13000, 21000, 27000, 36000, NSAMP):
        cut = min(cut, NSAMP)
        if cut > pos:
            ops.append(f"raw {vlib.REPO / RAW} {pos} {cut - pos} 2048")
            pos = cut
        ops += ["json 0 0", "json 0 1", "json 0 2"]
        for l in (0, 1, 2):
            stats["levels"][l] = stats["levels"].get(l, 0) + 1
    ops.append("end")
    ops += ["json 0 0", "json 1.25 1", "json 0 2"]
    for l in (0, 1, 2):
        stats["levels"][l] = stats["levels"].get(l, 0) + 1
    return {"kind": "length-decode", "ops": ops, "words": words}


def length_scenarios(rng, tier, stats):
    scs = [bare_sweep_scenario(stats)]
    # hypothesis prefixes on / next to the power-of-two sizes, always
    for d in (-1, 0, 1):
        scs.append(length_decode_scenario(rng, stats, "hyp", targets=[64 + d, 128 + d, 256 + d, 512 + d], variant="plain"))
    # single spellings (segment words at level 0, alignment words with phones at 1/2) on / next to the same sizes, always
    for lens in ([63, 64, 65, 128], [127, 129, 255, 256], [257, 511, 512, 513]):
        scs.append(length_decode_scenario(rng, stats, "word", targets=lens, variant="plain"))
    if tier == "quick":
        scs.append(length_decode_scenario(rng, stats, "hyp", targets=[64, 128, 256, 512], variant=rng.choice(["quote", "backslash"])))
        for _ in range(3):
            scs.append(length_decode_scenario(rng, stats, "hyp"))
        for _ in range(3):
            scs.append(length_decode_scenario(rng, stats, "word"))
        return scs
    for v in VARIANTS:
        need = esc_len(VARIANTS[v]) + 1
        # every boundary value as a hypothesis-prefix length: chains of four targets with the smallest legal gap
        todo = BOUNDARY[:]
        while todo:
            t, chain = todo.pop(0), []
            chain.append(t)
            for u in todo[:]:
                if len(chain) < 4 and u - chain[-1] - 1 >= need:
                    chain.append(u)
                    todo.remove(u)
            while len(chain) < 4:
                chain.append(chain[-1] + need + 1)
            scs.append(length_decode_scenario(rng, stats, "hyp", targets=chain, variant=v))
        # every boundary value as a single spelling's length (segment words at level 0)
        for i in range(0, len(BOUNDARY), 4):
            lens = (BOUNDARY[i:i + 4] + BOUNDARY[:4])[:4]
            scs.append(length_decode_scenario(rng, stats, "word", targets=lens, variant=v))
    return scs


def gen_scenario(rng, tier, stats, kind=None):
    kind = kind or rng.weighted([("jsgf", 3), ("align-special", 5), ("fsg-special", 4), ("noise", 2), ("lead-null", 2),
                                 ("empty-align", 2), ("no-grammar", 1), ("short", 1), ("nonfinite-start", 1)])
    stats["kinds"][kind] = stats["kinds"].get(kind, 0) + 1
    init_frate = rng.weighted([(100, 6), (50, 1), (125, 1)])
    bestpath = rng.choice(["yes", "no"])
    stats["init_frate"][init_frate] = stats["init_frate"].get(init_frate, 0) + 1
    stats["bestpath"][bestpath] = stats["bestpath"].get(bestpath, 0) + 1
    ops = [f"init bestpath={bestpath} frate={init_frate}"]
    words = []          # spellings added to the dictionary in this scenario

    def special_chain(allow_ws):
        chain = []
        for w, pron in BASE:
            if rng.chance(0.6):
                sp = pick_special(rng, stats, allow_ws)
                if sp not in [x for x, _ in chain] and sp not in words:
                    ops.append(f"addword {hx(sp)} {pron}")
                    words.append(sp)
                chain.append((sp, pron))
            else:
                chain.append((w, pron))
        return chain

    audio = "speech"
    if kind == "jsgf":
        ops.append(f"jsgf {hx(GOFORWARD_GRAM)}")
    elif kind == "align-special":
        chain = special_chain(False)
        ops.append("align " + hx(b" ".join(w for w, _ in chain)))
    elif kind == "fsg-special":
        chain = special_chain(True)
        trans, st = [], 0
        if rng.chance(0.4):
            trans.append(f"{st}:{st + 1}:-")
            st += 1
        for w, _ in chain:
            trans.append(f"{st}:{st + 1}:{hx(w)}")
            if rng.chance(0.2):
                trans.append(f"{st}:{st + 1}:{hx(rng.choice(BASE)[0])}")     # an alternative
            st += 1
        if rng.chance(0.4):
            trans.append(f"{st}:{st + 1}:-")
            st += 1
        ops.append(f"fsg {st + 1} {st} " + " ".join(trans))
    elif kind == "noise":
        audio = "noise"
        if rng.chance(0.5):
            ops.append(f"jsgf {hx(GOFORWARD_GRAM)}")
        else:
            ops.append("align " + hx(b"go forward ten meters"))
    elif kind == "lead-null":
        # a top rule starting with a group: the first segment is a (NULL) transition, present right after start_utt
        g = rng.choice([b"#JSGF V1.0; grammar g; public <s> = [go] forward ten meters;",
                        b"#JSGF V1.0; grammar g; public <s> = (go | forward)* ten meters;",
                        b"#JSGF V1.0; grammar g; public <s> = [go forward] [ten] [meters];"])
        ops.append(f"jsgf {hx(g)}")
        audio = rng.choice(["speech", "none", "short"])
    elif kind == "empty-align":
        ops.append("align " + hx(b"go forward ten meters"))
        audio = rng.choice(["speech", "none"])
    elif kind == "nonfinite-start":
        # a start offset that is not a finite number, on empty, partial and final results, all levels
        ops.append("align " + hx(b"go forward ten meters"))
        cut = rng.range(12000, 30000)
        ops += ["start", f"json {rng.choice(NONFINITE)} 0", f"raw {vlib.REPO / RAW} 0 {cut} 2048"]
        ops += [f"json {x} {l}" for x in NONFINITE[:2] for l in (0, 1, 2)]
        ops += [f"raw {vlib.REPO / RAW} {cut} {NSAMP - cut} 2048", "end"]
        ops += [f"json {rng.choice(NONFINITE)} {l}" for l in (0, 1, 2)] + [f"json {rng.choice(STARTS[:11])} 1"]
        for l in (0, 1, 2):
            stats["levels"][l] = stats["levels"].get(l, 0) + 4
        stats["audio"]["speech"] = stats["audio"].get("speech", 0) + 1
        return {"kind": kind, "ops": ops, "words": []}
    elif kind == "no-grammar":
        ops += json_ops(rng, tier, stats, init_frate, 1)
        stats["audio"]["none"] = stats["audio"].get("none", 0) + 1
        return {"kind": kind, "ops": ops, "words": []}
    elif kind == "short":
        ops.append(f"jsgf {hx(GOFORWARD_GRAM)}")
        audio = "short"
    stats["audio"][audio] = stats["audio"].get(audio, 0) + 1
    ops += feed_ops(rng, stats, init_frate, tier, audio)
    if kind == "empty-align" and rng.chance(0.4):
        # words without phone entries (alignment_add_word only): "w":[] inside every word
        t0, parts = 0, []
        for w, _ in BASE[:rng.range(1, 4)]:
            du = rng.range(1, 60)
            parts.append(f"{hx(w)}:{t0}:{du}")
            t0 += du
        ops.append("barealign " + " ".join(parts))
        ops += [f"json {rng.choice(STARTS)} 1", f"json {rng.choice(STARTS)} 2"]
        for l in (1, 2):
            stats["levels"][l] = stats["levels"].get(l, 0) + 1
    if kind == "empty-align":
        # a current alignment with zero words (what the alignment interface holds for a result without
        # dictionary words), installed through the public structs: levels 1 and 2 must give "w":[]
        ops.append("emptyalign")
        ops += [f"json {rng.choice(STARTS)} 1", f"json {rng.choice(STARTS)} 2", "json 0 0"]
        for l in (1, 2, 0):
            stats["levels"][l] = stats["levels"].get(l, 0) + 1
    return {"kind": kind, "ops": ops, "words": [w.hex() for w in words]}


# --------------------------------------------------------------------------
# parsing the harness dump

class Dump:
    pass


def parse_dump(line):
    w = line.split()
    d = Dump()
    kv = {}
    i = 1
    while i < len(w) and "=" in w[i] and w[i] != "segs":
        k, v = w[i].split("=", 1)
        kv[k] = v
        i += 1
    d.ret = kv["ret"]
    d.alloc, d.len = int(kv["alloc"]), int(kv["len"])
    d.text = unhex(kv["text"])
    d.start, d.level, d.frate, d.nfr = float(kv["start"]), int(kv["level"]), int(kv["frate"]), int(kv["nfr"])
    d.hyp, d.prob, d.probf = unhex(kv["hyp"]), int(kv["prob"]), float(kv["probf"])
    assert w[i] == "segs"
    i += 1
    d.segs = []
    while w[i] == "s":
        d.segs.append((unhex(w[i + 1]), int(w[i + 2]), int(w[i + 3]), int(w[i + 4]), float(w[i + 5])))
        i += 6
    assert w[i] == "endsegs"
    i += 1
    al = w[i].split("=", 1)[1]
    i += 1
    if al in ("none", "null"):
        d.al = None
        d.al_kind = al
    else:
        d.al_kind = "some"
        d.al = []
        while w[i] in ("aw", "ap", "as"):
            ent = {"name": unhex(w[i + 1]), "start": int(w[i + 2]), "dur": int(w[i + 3]), "score": int(w[i + 4]),
                   "probf": float(w[i + 5]), "kids": []}
            if w[i] == "aw":
                d.al.append(ent)
            elif w[i] == "ap":
                d.al[-1]["kids"].append(ent)
            else:
                d.al[-1]["kids"][-1]["kids"].append(ent)
            i += 6
        assert len(d.al) == int(al)
    assert w[i] == "end"
    return d


# --------------------------------------------------------------------------
# the oracle: the property evaluated on what the C code returned

class Raw(str):
    """a JSON number kept as text"""


def _no_const(x):
    raise ValueError("constant " + x)


def _pairs(p):
    keys = [k for k, _ in p]
    if len(set(keys)) != len(keys):
        raise ValueError("duplicate key")
    return p          # keep order: list of pairs


NUM_RE = re.compile(r"-?(0|[1-9][0-9]*)(\.[0-9]+)?([eE][+-]?[0-9]+)?\Z")


def strict_parse(text):
    """one JSON object followed by exactly one newline; returns list of (key, value) with strings as latin-1 str"""
    if not text.endswith(b"\n") or text.count(b"\n") != 1:
        raise ValueError("does not end in exactly one newline")
    body = text[:-1]
    if not body.startswith(b"{") or not body.endswith(b"}"):
        raise ValueError("not a bare object")
    if b"\0" in body:
        raise ValueError("NUL inside")
    s = body.decode("latin-1")
    v = json.loads(s, parse_float=Raw, parse_int=Raw, parse_constant=_no_const, object_pairs_hook=_pairs, strict=True)
    if not isinstance(v, list):
        raise ValueError("top level is not an object")
    return v


def close(raw, exact):
    if not isinstance(raw, Raw) or not NUM_RE.match(raw):
        return False
    if not math.isfinite(exact):
        return False
    return abs(float(raw) - exact) <= 0.0005 + 1e-9 * abs(exact)


def check_record(pairs, want_keys, b, dur, p, t, where, errs, table, kb, kd, kp):
    keys = [k for k, _ in pairs] if isinstance(pairs, list) else None
    if keys != want_keys:
        errs.append(f"{where}: members {keys} instead of {want_keys}")
        return None
    m = dict(pairs)
    for key, exact, nk in (("b", b, kb), ("d", dur, kd), ("p", p, kp)):
        if not close(m[key], exact):
            errs.append(f"{where}: \"{key}\" is {m[key]!r}, the interfaces give {exact!r}")
        if isinstance(m[key], Raw):
            old = table.setdefault(nk, str(m[key]))
            if old != str(m[key]):
                errs.append(f"{where}: argument {nk} rendered as {old} and as {m[key]}")
    if not isinstance(m["t"], str) or m["t"].encode("latin-1") != (t or b""):
        errs.append(f"{where}: \"t\" is {m['t']!r}, the interfaces give {t!r}")
    return m


def oracle(d, words_utf8):
    """list of violations of the property by this call; also the Num -> text table for the model"""
    errs, table = [], {}
    nonfinite = not math.isfinite(d.start)
    want_null = (d.level != 0 and d.al is None) or nonfinite
    if d.ret == "null":
        if not want_null:
            errs.append("returned NULL although " + ("no alignment was requested" if d.level == 0 else "an alignment exists"))
        return errs, table
    if want_null and not nonfinite:
        errs.append("returned a line although an alignment was requested and the alignment interface reports none")
    if nonfinite:
        errs.append(f"returned a line for the start offset {d.start!r}, which no JSON number can express")
    if d.alloc != d.len + 1:
        errs.append(f"allocated {d.alloc} bytes for a text of {d.len} bytes + NUL")
    if not d.text.endswith(b"}\n"):
        errs.append("does not end in '}' newline")
    try:
        top = strict_parse(d.text)
    except (ValueError, RecursionError) as e:
        errs.append(f"not one valid JSON object + newline: {e}")
        return errs, table
    if words_utf8:
        try:
            json.loads(d.text.decode("utf-8"))
        except (UnicodeDecodeError, ValueError) as e:
            errs.append(f"all spellings are UTF-8 but the line is not valid UTF-8 JSON: {e}")
    fr = d.frate
    m = check_record(top, ["b", "d", "p", "t", "w"], d.start, d.nfr / fr, d.probf, d.hyp, "top", errs, table,
                     "S", f"R:{d.nfr}:{fr}", f"P:{d.prob}")
    if m is None:
        return errs, table
    ws = m["w"]
    if not isinstance(ws, list) or any(not isinstance(x, list) for x in ws):
        errs.append("\"w\" is not a list of objects")
        return errs, table
    if d.level == 0:
        if len(ws) != len(d.segs):
            errs.append(f"{len(ws)} entries in \"w\", the segment iterator gives {len(d.segs)}")
            return errs, table
        for i, (obj, (word, sf, ef, prob, probf)) in enumerate(zip(ws, d.segs)):
            check_record(obj, ["b", "d", "p", "t"], d.start + sf / fr, (ef + 1 - sf) / fr, probf, word, f"w[{i}]", errs,
                         table, f"T:{sf}:{fr}", f"R:{ef + 1 - sf}:{fr}", f"P:{prob}")
        return errs, table
    al = d.al or []
    if len(ws) != len(al):
        errs.append(f"{len(ws)} entries in \"w\", the alignment has {len(al)} words")
        return errs, table

    def ent(obj, e, keys, where):
        return check_record(obj, keys, d.start + e["start"] / fr, e["dur"] / fr, e["probf"], e["name"], where, errs, table,
                            f"T:{e['start']}:{fr}", f"R:{e['dur']}:{fr}", f"P:{e['score']}")
    for i, (obj, w) in enumerate(zip(ws, al)):
        mw = ent(obj, w, ["b", "d", "p", "t", "w"], f"w[{i}]")
        if mw is None:
            continue
        ps = mw["w"]
        if not isinstance(ps, list) or len(ps) != len(w["kids"]):
            errs.append(f"w[{i}]: phone list does not match the alignment ({len(w['kids'])} phones)")
            continue
        for j, (pobj, p) in enumerate(zip(ps, w["kids"])):
            mp = ent(pobj, p, ["b", "d", "p", "t", "w"] if d.level > 1 else ["b", "d", "p", "t"], f"w[{i}].w[{j}]")
            if mp is None or d.level <= 1:
                continue
            ss = mp["w"]
            if not isinstance(ss, list) or len(ss) != len(p["kids"]):
                errs.append(f"w[{i}].w[{j}]: state list does not match the alignment ({len(p['kids'])} states)")
                continue
            for k, (sobj, s) in enumerate(zip(ss, p["kids"])):
                ent(sobj, s, ["b", "d", "p", "t"], f"w[{i}].w[{j}].w[{k}]")
    return errs, table


# --------------------------------------------------------------------------
# the model side

def py_render(d, table):
    """fallback renderings (correctly rounded, like glibc) for arguments the C line did not yield"""
    fr = d.frate

    def put(k, v):
        if k not in table and math.isfinite(v):
            table[k] = "%.3f" % v
    put("S", d.start)
    put(f"R:{d.nfr}:{fr}", d.nfr / fr)
    put(f"P:{d.prob}", d.probf)
    for word, sf, ef, prob, probf in d.segs:
        put(f"T:{sf}:{fr}", d.start + sf / fr)
        put(f"R:{ef + 1 - sf}:{fr}", (ef + 1 - sf) / fr)
        put(f"P:{prob}", probf)

    def walk(es):
        for e in es:
            put(f"T:{e['start']}:{fr}", d.start + e["start"] / fr)
            put(f"R:{e['dur']}:{fr}", e["dur"] / fr)
            put(f"P:{e['score']}", e["probf"])
            walk(e["kids"])
    walk(d.al or [])


def driver_line(d, table):
    def hb(b):
        return "null" if b is None else hx(b)
    t = ["case", "level", d.level, "frate", d.frate, "nfr", d.nfr, "prob", d.prob, "hyp", hb(d.hyp), "text", hb(d.text),
         "segs", len(d.segs)]
    for word, sf, ef, prob, _ in d.segs:
        t += [hb(word), sf, ef, prob]
    t.append("al")
    if d.al is None:
        t.append("null")
    else:
        t.append(len(d.al))
        for w in d.al:
            t += [hb(w["name"]), w["start"], w["dur"], w["score"], len(w["kids"])]
            for p in w["kids"]:
                t += [hb(p["name"]), p["start"], p["dur"], p["score"], len(p["kids"])]
                for s in p["kids"]:
                    t += [hb(s["name"]), s["start"], s["dur"], s["score"]]
    t += ["fmt", len(table)]
    for k, v in table.items():
        t += [k, hx(v.encode("latin-1"))]
    return " ".join(str(x) for x in t)


# --------------------------------------------------------------------------
# running one scenario

_REBUILT = {}


def run_scenario(binp, sc, timeout=600):
    text = "\n".join(sc["ops"]) + "\n"
    for attempt in range(4):
        path = _REBUILT.get(str(binp), binp)
        try:
            return vlib.run_bin(path, stdin_text=text, timeout=timeout, env_extra={"VERIF_REPO": str(vlib.REPO)})
        except FileNotFoundError:
            # the shared build cache keeps only a few trees; a concurrent check of another tree may have pruned ours
            # (if the working tree changed meanwhile, the rebuilt binary is of the current tree)
            _REBUILT[str(binp)] = vlib.build_harness("h_c14")
    raise vlib.BuildError("harness binary keeps disappearing from the build cache")


def last_op(err):
    ops = re.findall(r"^op: (.*)$", err, re.M)
    return ops[-1][:200] if ops else None


def evaluate(sc, rc, out, err):
    """-> (list of findings, list of (dump, table) for the model comparison, counters)"""
    findings, cases = [], []
    lines = out.rstrip("\n").split("\n") if out.strip() else []
    cnt = {"json_calls": 0, "null_returns": 0, "lines": 0, "max_len": 0, "lines_with_escaped_quote": 0,
           "lines_with_escaped_backslash": 0, "lines_with_u00_escape": 0, "lines_with_bytes_ge_0x80": 0,
           "lines_with_empty_w": 0, "lines_with_null_segment": 0, "lines_fillers_only": 0}
    if not lines or not lines[0].startswith("selftest 37 4097"):
        if rc == 0:
            findings.append({"what": "allocation-size observer is not exact", "line": lines[:1]})
    words_utf8 = all(is_utf8(bytes.fromhex(w)) for w in sc.get("words", []))
    for l in lines[1:]:
        if l.startswith(("jsgf -1", "align -1", "fsg -1", "init fail", "bad-op", "no-decoder", "start -1", "end -1")) \
                and sc["kind"] != "no-grammar":
            findings.append({"what": "harness op failed (generator/harness problem)", "line": l, "machinery": True})
        if not l.startswith("json "):
            continue
        cnt["json_calls"] += 1
        try:
            d = parse_dump(l)
        except Exception as e:   # a truncated line after a crash
            if rc == 0:
                findings.append({"what": f"unparsable dump line: {e}", "line": l[:300], "machinery": True})
            continue
        d.bits = c14fmt.parse_bits(l)
        errs, table = oracle(d, words_utf8)
        if d.ret == "null":
            cnt["null_returns"] += 1
        else:
            cnt["lines"] += 1
            cnt["max_len"] = max(cnt["max_len"], d.len)
            cnt["lines_with_escaped_quote"] += b'\\"' in d.text
            cnt["lines_with_escaped_backslash"] += b"\\\\" in d.text
            cnt["lines_with_u00_escape"] += b"\\u00" in d.text
            cnt["lines_with_bytes_ge_0x80"] += any(x >= 0x80 for x in d.text)
            cnt["lines_with_empty_w"] += d.text.endswith(b'"w":[]}\n') and d.text.count(b"{") == 1
            cnt["lines_with_null_segment"] += b'"t":"(NULL)"' in d.text
            cnt["lines_fillers_only"] += d.level == 0 and d.hyp is None and len(d.segs) > 0
        if errs:
            findings.append({"what": "; ".join(errs[:6]), "call": f"json start={d.start!r} level={d.level} frate={d.frate}",
                             "nonfinite_start": not math.isfinite(d.start),
                             "returned": None if d.text is None else d.text.decode("latin-1")[:2000]})
        py_render(d, table)
        cases.append((d, table))
    if rc != 0:
        kind = {99: "sanitizer report", 98: "sanitizer report", -6: "abort (failed assert)", 134: "abort (failed assert)",
                -999: "timeout", -11: "segmentation fault"}.get(rc, f"exit code {rc}")
        m = re.search(r"(Assertion `[^']*' failed|SUMMARY: [^\n]*|runtime error: [^\n]*)", err)
        findings.append({"what": f"{kind} inside the library during `{last_op(err)}`" + (f": {m.group(1)}" if m else ""),
                         "crash": True, "stderr_tail": err[-1800:]})
    return findings, cases, cnt


def model_compare(cases):
    """implementation line vs the model's line for the same dump; returns list of divergences"""
    # calls with a non-finite start offset are outside the older model (it does not look at the value of `start`);
    # they are compared with the model of the repaired function by c14fmt.line_compare
    cases = [(d, t) for d, t in cases if math.isfinite(d.start)]
    if not cases:
        return [], 0
    text = "\n".join(driver_line(d, t) for d, t in cases) + "\n"
    for attempt in range(6):
        try:
            rc, out, err = vlib.run_driver("c14", text)
            break
        except OSError as e:       # the driver binary is being relinked by a concurrent `lake build`
            rc, out, err = -1, "", repr(e)
            time.sleep(3)
    if rc != 0:
        return [{"what": "model driver failed", "detail": err[-500:]}], 0
    div = []
    outs = out.rstrip("\n").split("\n")
    if len(outs) != len(cases):
        return [{"what": f"model driver answered {len(outs)} lines for {len(cases)} cases"}], 0
    for (d, _), o in zip(cases, outs):
        kv = dict(x.split("=", 1) for x in o.split()[1:]) if o.startswith("model ") else None
        if kv is None:
            div.append({"what": "model driver: " + o[:100]})
            continue
        probs = []
        if kv["ret"] != d.ret:
            probs.append(f"implementation returned {d.ret}, model {kv['ret']}")
        elif d.ret == "ok":
            if int(kv["alloc"]) != d.alloc:
                probs.append(f"implementation allocated {d.alloc}, model {kv['alloc']}")
            if unhex(kv["text"]) != d.text:
                probs.append("implementation line differs from the model's line")
            if kv["ok"] != "1" or kv["dry"] != "1":
                probs.append("the model raised a flag (store outside the block / assert)")
            if kv["cvalid"] != "1":
                probs.append("the Lean recogniser rejects the implementation's line")
            elif kv["ctree"] != "1":
                probs.append("the implementation's line denotes a different tree than the iterator records")
        if probs:
            div.append({"what": "; ".join(probs), "call": f"json start={d.start!r} level={d.level} frate={d.frate}",
                        "implementation": None if d.text is None else d.text.decode("latin-1")[:1500],
                        "model": None if kv.get("text") in (None, "null") else unhex(kv["text"]).decode("latin-1")[:1500]})
    return div, len(cases)


def signature(f):
    """stable class of a finding, so that shrinking keeps the same failure"""
    if f.get("crash"):
        m = re.search(r"(Assertion `[^']*'|(?:heap|stack|global)-[a-z-]+|SEGV|runtime error: [a-z ]+| in [A-Za-z_0-9]+$)", f["what"])
        fn = re.search(r" in ([A-Za-z_0-9]+)\s*$", f["what"])
        return "crash:" + (m.group(1) if m else "") + ":" + (fn.group(1) if fn else "")
    if f.get("nonfinite_start"):
        return "prop:nonfinite-start"
    return "prop:" + re.split(r"[:;]", f["what"])[0][:40]


def shrink(binp, sc, sig):
    """drop ops (never the init line) while the scenario still fails the same way and every harness op succeeds"""
    head, body = sc["ops"][:1], sc["ops"][1:]

    def fails(sub):
        s2 = dict(sc, ops=head + sub)
        rc, out, err = run_scenario(binp, s2, timeout=120)
        f, cases, _ = evaluate(s2, rc, out, err)
        return not any(x.get("machinery") for x in f) and any(signature(x) == sig for x in f)
    small = vlib.ddmin(body, fails, max_tests=25)
    return dict(sc, ops=head + small)


def judge(c, binp, sc, label, totals):
    rc, out, err = run_scenario(binp, sc)
    findings, cases, cnt = evaluate(sc, rc, out, err)
    for k, v in cnt.items():
        totals[k] = max(totals.get(k, 0), v) if k == "max_len" else totals.get(k, 0) + v
    div, ncmp = model_compare(cases)
    div3, _, st3 = c14fmt.line_compare(cases, driver_line, unhex)
    div = div + div3
    for k, v in st3.items():
        totals[k] = totals.get(k, 0) + v
    totals["model_comparisons"] = totals.get("model_comparisons", 0) + ncmp
    mach = [f for f in findings if f.get("machinery")]
    real = [f for f in findings if not f.get("machinery")]
    for f in mach:
        c.oblige(f"harness/generator sanity ({label})", False, f)
    if real:
        sig = signature(real[0])
        small = shrink(binp, sc, sig)
        rc2, out2, err2 = run_scenario(binp, small)
        f2, _, _ = evaluate(small, rc2, out2, err2)
        f2 = [x for x in f2 if not x.get("machinery") and signature(x) == sig] or real
        c.oblige(f"oracle on the implementation's output ({label})", False, f2[0]["what"])
        c.violation({"kind": "decoder_result_json scenario", "scenario_kind": sc["kind"], "ops": small["ops"],
                     "words": small.get("words", []), "violations": f2[:5], "exit_code": rc2,
                     "label": KEY_D80 + " (regression of repair D80)" if all(x.get("nonfinite_start") for x in f2) else None,
                     "how_to_rerun": "python3 tools/check.py C14 --replay <this file>"}, True)
        return False
    if div:
        # shrink: drop ops while some divergence (either model) remains and every harness op still succeeds
        head, body = sc["ops"][:1], sc["ops"][1:]

        def diverges(sub):
            s2 = dict(sc, ops=head + sub)
            rc2, out2, err2 = run_scenario(binp, s2, timeout=120)
            f2, cases2, _ = evaluate(s2, rc2, out2, err2)
            if f2:
                return False
            return bool(model_compare(cases2)[0] or c14fmt.line_compare(cases2, driver_line, unhex)[0])
        try:
            small_ops = head + vlib.ddmin(body, diverges, max_tests=20)
            rc2, out2, err2 = run_scenario(binp, dict(sc, ops=small_ops))
            _, cases2, _ = evaluate(dict(sc, ops=small_ops), rc2, out2, err2)
            div2 = model_compare(cases2)[0] + c14fmt.line_compare(cases2, driver_line, unhex)[0]
            if div2:
                sc, div = dict(sc, ops=small_ops), div2
        except Exception:
            pass
        c.oblige(f"correspondence model = implementation ({label})", False, div[0])
        c.violation({"kind": "model/implementation divergence without a property violation by the oracle",
                     "scenario_kind": sc["kind"], "ops": sc["ops"], "words": sc.get("words", []), "divergences": div[:5],
                     "how_to_rerun": "python3 tools/check.py C14 --replay <this file>"}, False)
        return False
    return not mach


def setup(c):
    global GOFORWARD_GRAM, NSAMP
    GOFORWARD_GRAM = (vlib.REPO / "tests/data/goforward.gram").read_bytes()
    NSAMP = (vlib.REPO / RAW).stat().st_size // 2
    c.trusted += ["libc snprintf(\"%.3f\") = Model/Fmt3.lean (fmtBits/lenBits) and the machine's double division/addition = "
                  "Model/Dbl.lean: no longer assumed laws but definitions with theorems (Props/C14Fmt.lean), tied to the real libc / "
                  "FPU on every run by exact comparison on thousands of structured bit patterns and on every number of every "
                  "returned line; trusted is that the tie's sample is representative of glibc's printf_fp and SSE2 arithmetic",
                  "logmath_exp (libm pow) is a parameter: its value is read through the public interface, only its finiteness matters for validity and is evaluated on every call",
                  "tools/gen_consts.py (HYP_FORMAT extraction)",
                  "harness/h_c14.c + tools/props/c14.py (scenario generator, dump parser, oracle, diff)",
                  "clang ASan/UBSan as observer of stores outside the JSON buffer; __sanitizer_get_allocated_size as the exact requested size (self-tested each run)",
                  "Python json module as second strict JSON parser"]
    c.assumptions += ["frame rate >= 1 (fe_init refuses anything else; a frame rate of 0 written into the configuration of a live decoder "
                      "makes (double)n / frate infinite or NaN); a non-finite start offset is refused with NULL (repair D80)",
                      "non-ASCII bytes are copied verbatim: the line is syntactically valid for every spelling and valid UTF-8 iff the spellings are",
                      "decimal rendering: proved for the Lean rendering fmt3 (JSON number, within 1/2000 of the exact binary value, "
                      "ties to even, monotone, dry-run count = length) and compared as text with libc; the independent numeric oracle "
                      "(|value - iterator value| <= 0.0005) is kept",
                      "an alignment with zero words is installed through the public structs (decoder_alignment itself returns NULL for it after repair D27)"]


def new_stats():
    return {"kinds": {}, "levels": {}, "init_frate": {}, "bestpath": {}, "audio": {}, "spelling_classes": {}}


def check(c):
    setup(c)
    c.lean_obligations()
    # the model comparison needs the freshly built driver only (a forbidden construct or a failed audit elsewhere in
    # the library is reported by its own obligation and must not switch the correspondence off)
    lean_ok = any(n.startswith("lake build") and ok for n, ok, _ in c.obligations)
    binp = vlib.build_harness("h_c14")
    stats, totals = new_stats(), {}
    ok_all = True
    ncorp = 0
    for f in sorted((vlib.ROOT / "corpus" / "C14").glob("*.json")):
        sc = json.loads(f.read_text())
        sc["ops"] = [o.replace("@REPO@", str(vlib.REPO)) for o in sc["ops"]]
        ncorp += 1
        ok_all &= judge(c, binp, sc, f"corpus {f.name}", totals)
    n = 34 if c.tier == "quick" else 2000
    # every kind at least once, then random
    kinds = ["jsgf", "align-special", "fsg-special", "noise", "lead-null", "empty-align", "no-grammar", "short",
             "nonfinite-start"]
    scs = length_scenarios(c.rng, c.tier, stats)
    n_len = len(scs)
    scs += [gen_scenario(c.rng, c.tier, stats, kind=kinds[i] if i < len(kinds) else None) for i in range(n)]
    for i, sc in enumerate(scs[:3]):
        c.samples.append({"kind": sc["kind"], "ops": [o[:120] for o in sc["ops"][:12]] + ["..."]})
    distinct = set()
    seen_bits = set()
    nviol = 0
    branches = {"level 0, no segments": 0, "level 0, segments": 0, "alignment NULL -> NULL": 0,
                "alignment with zero words": 0, "alignment with words": 0, "state lists (level 2)": 0,
                "hypothesis NULL": 0, "hypothesis present": 0,
                "alignment word without phones": 0, "phone without states (level 2)": 0, "NULL word/name string": 0}
    esc_hit = {"hypothesis string": set(), "segment word (level 0)": set(), "alignment word (level 1)": set(),
               "alignment word (level 2)": set()}
    workers = 4 if c.tier == "quick" else 6
    for lo in range(0, len(scs), 120):
        chunk = scs[lo:lo + 120]
        def work(sc):
            rc, out, err = run_scenario(binp, sc)
            findings, cases, cnt = evaluate(sc, rc, out, err)
            if lean_ok:       # the two model drivers side by side
                with concurrent.futures.ThreadPoolExecutor(max_workers=2) as ex2:
                    f1 = ex2.submit(model_compare, cases)
                    f3 = ex2.submit(c14fmt.line_compare, cases, driver_line, unhex)
                    (div, ncmp), (div3, _, st3) = f1.result(), f3.result()
            else:
                div, ncmp, div3, st3 = [], 0, [], {}
            cnt.update(st3)
            return findings, cases, cnt, div + div3, ncmp
        with concurrent.futures.ThreadPoolExecutor(max_workers=workers) as ex:
            futs = {ex.submit(work, sc): sc for sc in chunk}
            results = {id(futs[f]): f.result() for f in concurrent.futures.as_completed(futs)}
        for j, sc in enumerate(chunk):
            i = lo + j
            findings, cases, cnt, div, ncmp = results[id(sc)]
            if findings or div:
                if nviol < 3:          # re-run through judge for shrinking and reporting
                    ok_all &= judge(c, binp, sc, f"generated scenario {i} ({sc['kind']})", totals)
                else:
                    ok_all = False
                nviol += 1
                continue
            for k, v in cnt.items():
                totals[k] = max(totals.get(k, 0), v) if k == "max_len" else totals.get(k, 0) + v
            totals["model_comparisons"] = totals.get("model_comparisons", 0) + ncmp
            for d, _ in cases:
                distinct.add((d.text, d.level, d.frate))
                seen_bits.update((d.bits or {}).values())
                if d.ret == "ok":
                    esc_hit["hypothesis string"].add(esc_len(d.hyp or b""))
                    if d.level == 0:
                        esc_hit["segment word (level 0)"].update(esc_len(w or b"") for w, *_ in d.segs)
                    else:
                        esc_hit[f"alignment word (level {min(d.level, 2)})"].update(esc_len(w["name"] or b"") for w in d.al or [])
                branches["hypothesis NULL" if d.hyp is None else "hypothesis present"] += 1
                if d.level == 0:
                    branches["level 0, segments" if d.segs else "level 0, no segments"] += 1
                    branches["NULL word/name string"] += any(w is None for w, *_ in d.segs)
                elif d.al is None:
                    branches["alignment NULL -> NULL"] += 1
                else:
                    branches["alignment with words" if d.al else "alignment with zero words"] += 1
                    branches["alignment word without phones"] += any(not w["kids"] for w in d.al)
                    if d.level > 1 and d.al:
                        branches["state lists (level 2)"] += 1
                        branches["phone without states (level 2)"] += any(not p["kids"] for w in d.al for p in w["kids"])
        if nviol >= 12:
            break
    # the %.3f rendering itself: libc's snprintf against Model/Fmt3 on structured bit patterns and on every double that
    # occurred in a real result of this run
    pats, pat_classes = c14fmt.gen_patterns(c.rng, c.tier, sorted(seen_bits))
    fbad, fn = c14fmt.pattern_tie(binp, pats, run_scenario) if lean_ok else ([], 0)
    c.oblige("correspondence: snprintf(\"%.3f\") of the C library (count of the dry run, text) = lenBits / fmtBits of "
             f"Model/Fmt3.lean on {fn} bit patterns", lean_ok and not fbad and fn > 0, fbad[:3])
    if fbad:
        c.violation({"kind": "fmt", "what": "libc %.3f differs from the Lean rendering", "mismatches": fbad[:10],
                     "ops": [f"fmt {m['bits']}" for m in fbad[:10] if "bits" in m],
                     "how_to_rerun": "python3 tools/check.py C14 --replay <this file>"}, False, tag="fmt")
    triples = c14fmt.gen_arith(c.rng, c.tier, pats)
    abad, an = c14fmt.arith_tie(binp, triples, run_scenario) if lean_ok else ([], 0)
    c.oblige("correspondence: the machine's (double)f / frate and start + (double)f / frate (same C expressions, same compiler "
             f"flags) = divInt / timeBits of Model/Dbl.lean on {an} (start, f, frate) triples", lean_ok and not abad and an > 0,
             abad[:3])
    if abad:
        c.violation({"kind": "arith", "what": "machine double arithmetic differs from the Lean IEEE model", "mismatches": abad[:10],
                     "ops": [f"arith {m['start_bits']} {m['f']} {m['frate']}" for m in abad[:10] if "start_bits" in m],
                     "how_to_rerun": "python3 tools/check.py C14 --replay <this file>"}, False, tag="arith")
    c.oblige("hypothesis of C14_result_json_valid_D80 evaluated: for every call on the real decoder that returned a line, every "
             "double in `args r level` (start, computed times and durations, logmath_exp values) was finite (driver field fin=1)", totals.get("fmt3_calls_with_nonfinite_argument", 0) == 0,
             {"calls_with_nonfinite_argument": totals.get("fmt3_calls_with_nonfinite_argument", 0)})
    c.oblige("hypothesis of C14_result_json_valid_every_offset evaluated (argOK on args r level): for every call that returned a "
             "line the frame rate was >= 1, every frame number/count a C int and every logmath_exp value finite (driver field argok=1)",
             totals.get("fmt3_calls_argok_false", 0) == 0 and totals.get("fmt3_line_comparisons", 0) > 0,
             {"calls_with_argok_false": totals.get("fmt3_calls_argok_false", 0)})
    c.oblige("oracle: every line returned by the real decoder_result_json (ASan/UBSan, asserts on) is one valid JSON object + "
             "newline, allocation = strlen + 1, and carries the iterators' words/times/probabilities", ok_all)
    c.oblige("correspondence: the implementation's line and allocation equal the model's for every dumped result", ok_all and lean_ok)
    nontriv = sum(1 for t, _, _ in distinct if t is not None and t.count(b"{") > 1)
    c.cov.update({"evaluations": totals.get("json_calls", 0), "distinct_nontrivial": nontriv,
                  "rule": "distinct (returned line, level, frame rate) triples whose line has at least one entry in \"w\"; "
                          "evaluations = calls of decoder_result_json on the real decoder",
                  "scenarios": len(scs), "corpus_cases": ncorp, "scenario_kinds": stats["kinds"], "levels": stats["levels"],
                  "init_time_frame_rates": stats["init_frate"], "bestpath": stats["bestpath"], "audio": stats["audio"],
                  "spelling_classes_used": stats["spelling_classes"], "null_returns": totals.get("null_returns", 0),
                  "lines_returned": totals.get("lines", 0), "longest_line": totals.get("max_len", 0),
                  "model_comparisons": totals.get("model_comparisons", 0),
                  "fmt3": {"bit_patterns_rendered_by_libc_and_model": fn, "pattern_classes": pat_classes,
                           "distinct_doubles_seen_in_real_results": len(seen_bits),
                           "arith_triples_machine_vs_ieee_model": an,
                           "line_comparisons_with_fmt3_model": totals.get("fmt3_line_comparisons", 0),
                           "numbers_in_those_lines": totals.get("fmt3_numbers_in_lines", 0),
                           "whole_millisecond_fields_printed_exactly": totals.get("exact_millisecond_fields_checked", 0),
                           "begin_field_pairs_checked_non_decreasing": totals.get("monotone_begin_pairs_checked", 0)},
                  "line_content": {k: v for k, v in totals.items() if k.startswith("lines_")},
                  "start_offsets": STARTS, "frame_rate_overrides": FRATES,
                  "length_aimed_scenarios": n_len,
                  "escaped_lengths_aimed_at": "every length 8..140 (plain / trailing quote) and " + str(BOUNDARY + BOUNDARY_BIG) +
                                              " with trailing nothing/quote/backslash/control byte/2-byte UTF-8 character",
                  "boundary_escaped_lengths_hit": {k: sorted(x for x in v if x in BOUNDARY or x in BOUNDARY_BIG or 8 <= x <= 140)
                                                   for k, v in esc_hit.items()},
                  "boundary_escaped_lengths_not_hit": {k: [x for x in BOUNDARY if x not in v] for k, v in esc_hit.items()},
                  "model_branches_hit": branches,
                  "model_branches_never_hit": [k for k, v in branches.items() if v == 0]})


def replay(c, path):
    setup(c)
    c.lean_obligations()
    binp = vlib.build_harness("h_c14")
    obj = json.loads(open(path).read())
    if obj.get("kind") in ("fmt", "arith"):
        # a bit pattern / (start, f, frate) triple on which libc / the FPU and the Lean definitions disagreed
        if obj["kind"] == "fmt":
            bad, n = c14fmt.pattern_tie(binp, [int(o.split()[1], 16) for o in obj["ops"]], run_scenario)
        else:
            bad, n = c14fmt.arith_tie(binp, [(int(o.split()[1], 16), int(o.split()[2]), int(o.split()[3])) for o in obj["ops"]],
                                      run_scenario)
        c.oblige(f"replayed {obj['kind']} cases: C library / machine arithmetic = Lean definitions", not bad and n > 0, bad[:3])
        if bad:
            c.violation(dict(obj, mismatches=bad[:10]), False, tag=obj["kind"])
        c.cov.update({"evaluations": n, "distinct_nontrivial": n})
        return
    sc = {"kind": obj.get("scenario_kind", "replay"), "ops": [o.replace("@REPO@", str(vlib.REPO)) for o in obj["ops"]],
          "words": obj.get("words", [])}
    totals = {}
    ok = judge(c, binp, sc, "replay", totals)
    c.oblige("replayed scenario satisfies the property", ok)
    c.cov.update({"evaluations": totals.get("json_calls", 0), "distinct_nontrivial": totals.get("lines", 0)})
