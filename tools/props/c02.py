"""C02 — with pruning disabled the search returns the true Viterbi optimum.

Lean: SSVerif/Props/C02.lean (`C02_viterbi_is_max` for every network / score function / length; the array DP the
driver runs equals the specification DP; `C02_hmmStep_eq_ideal`; `C02_alignment_sentence`;
`C02_hist_domination_exact`).
Tie: harness h_c02 decodes generated (grammar, audio excerpt, penalties/weights) cases on the real fsg_search
(ASan/UBSan, asserts on) with wide-open beams, records the senone scores of every frame and dumps the search FSG,
pronunciations, the triphone->senone-sequence map taken straight from bin_mdef, transition matrices and
penalties; `ssdriver c02` builds the flat network with the model's own `FlatNet.build` and runs the model's own
`Viterbi.viterbiArr`.  Oracle = the property on the implementation: in the no-pruning regime the score
`decoder_hyp` reports must EQUAL the optimum, with default beams it must not exceed it.
History family (wave 5): the judged utterance is the 2nd-4th one on its decoder / search object (`gen_history`, harness `pre` lines);
Props/C02Finish.lean proves that fsg_search_finish restores the initial search state after any history, `finish_tie` evaluates that
conclusion on the real object after every utterance.
"""
import json, os, re
from pathlib import Path
import vlib

LANGS = {"en-us": {"audio": "tests/data/goforward.raw"}, "fr-fr": {"audio": "tests/data/goforward_fr.raw"}}
MARGIN = 4096          # slack kept between the measured score spread and |beam|


# ----------------------------------------------------------------------------------------------
# dictionary

def load_dict(lang="en-us"):
    """base word -> [(spelling, [phones])] (base first, then alternates in file order)"""
    d = {}
    for line in (vlib.REPO / "model" / lang / "dict.txt").read_text().split("\n"):
        if not line or line.startswith(";;"):
            continue
        w = line.split()
        m = re.fullmatch(r"([a-z']+)(\(\d+\))?", w[0])
        if not m or len(w) < 2:
            continue
        d.setdefault(m.group(1), []).append((w[0], w[1:]))
    # keep only entries whose base spelling itself is present and first
    return {b: v for b, v in d.items() if v[0][0] == b}


CORE = ["go", "forward", "ten", "meters", "a", "i", "oh", "uh", "e", "mm", "sh", "to", "of", "at", "up", "it", "in",
        "for", "fork", "form", "forty", "four", "ford", "met", "meet", "tent", "tend", "tenth", "goat", "goal", "the",
        "an", "and", "on", "or", "are", "eye", "owe", "awe", "two", "do", "so", "no", "me", "we", "he"]


CORE_FR = ["avance", "recule", "de", "dix", "un", "deux", "trois", "quatre", "cinq", "six", "sept", "huit", "neuf", "a", "au", "eau",
           "et", "en", "on", "ou", "y", "il", "la", "le", "tu", "va"]


def pick_vocab(rng, dic, n_extra, lang="en-us"):
    words = [w for w in (CORE if lang == "en-us" else CORE_FR) if w in dic]
    pool = [w for w, v in dic.items() if len(v[0][1]) <= 6 and len(w) > 1]
    pool.sort()
    while n_extra > 0:
        w = rng.choice(pool)
        if w not in words:
            words.append(w)
            n_extra -= 1
    return words


def write_dict(path, dic, words):
    lines = []
    for b in words:
        for sp, ph in dic[b]:
            lines.append(sp + " " + " ".join(ph))
    path.write_text("\n".join(lines) + "\n")


# ----------------------------------------------------------------------------------------------
# grammar shapes (each returns n_state, start, final, [(from, to, prob, word|None)], shape name)

PROBS = ["1.0", "1.0", "0.5", "0.3", "0.1", "0.01"]


def by_len(dic, words, n):
    return [w for w in words if len(dic[w][0][1]) == n]


def g_linear(rng, dic, V):
    k = rng.range(1, 4)
    ws = [rng.choice(V) for _ in range(k)]
    return k + 1, 0, k, [(i, i + 1, rng.choice(PROBS), w) for i, w in enumerate(ws)], "linear"


def g_branch(rng, dic, V):
    """branching into and out of a state with differing neighbouring phones"""
    a = [rng.choice(V) for _ in range(rng.range(2, 4))]
    b = [rng.choice(V) for _ in range(rng.range(2, 4))]
    tr = [(0, 1, rng.choice(PROBS), w) for w in a] + [(1, 2, rng.choice(PROBS), w) for w in b]
    if rng.chance(0.5):
        c = [rng.choice(V) for _ in range(rng.range(1, 3))]
        tr += [(2, 3, rng.choice(PROBS), w) for w in c]
        return 4, 0, 3, tr, "branch3"
    return 3, 0, 2, tr, "branch"


def g_short(rng, dic, V):
    """one- and two-phone words next to each other"""
    one, two = by_len(dic, V, 1), by_len(dic, V, 2)
    k = rng.range(2, 4)
    tr = []
    for i in range(k):
        for _ in range(rng.range(1, 3)):
            pool = one if rng.chance(0.5) and one else (two if two else V)
            tr.append((i, i + 1, rng.choice(PROBS), rng.choice(pool)))
    return k + 1, 0, k, tr, "short-words"


def g_loop(rng, dic, V):
    """(w1 | w2 | ...)+ by a word loop, a null back arc or a self-loop arc"""
    ws = [rng.choice(V) for _ in range(rng.range(1, 3))]
    kind = rng.below(3)
    if kind == 0:      # 0 -w-> 1, 1 -eps-> 0, final 1
        tr = [(0, 1, rng.choice(PROBS), w) for w in ws] + [(1, 0, rng.choice(PROBS), None)]
        return 2, 0, 1, tr, "loop-null"
    if kind == 1:      # self-loop word arcs on the final state after a first word
        tr = [(0, 1, "1.0", rng.choice(V))] + [(1, 1, rng.choice(PROBS), w) for w in ws]
        return 2, 0, 1, tr, "loop-self"
    # two-state cycle of words
    tr = [(0, 1, rng.choice(PROBS), w) for w in ws] + [(1, 0, rng.choice(PROBS), rng.choice(V))]
    return 2, 0, 1, tr, "loop-cycle"


def g_null(rng, dic, V):
    """optional words and chains of null transitions (closure)"""
    n = rng.range(3, 5)
    tr = []
    for i in range(n - 1):
        tr.append((i, i + 1, rng.choice(PROBS), rng.choice(V)))
        if rng.chance(0.6):
            tr.append((i, i + 1, rng.choice(PROBS), None))
    if rng.chance(0.4) and n >= 4:
        tr.append((0, 2, rng.choice(PROBS), None))
    return n, 0, n - 1, tr, "null-chain"


def g_prefix(rng, dic, V):
    """words sharing their first phones leave the same state (lextree prefix sharing), then rejoin"""
    multi = [w for w in V if len(dic[w][0][1]) >= 2]
    if not multi:
        return g_branch(rng, dic, V)
    w0 = rng.choice(multi)
    p = dic[w0][0][1][:2]
    same = [w for w in V if dic[w][0][1][:2] == p] or [w0]
    first = [w for w in V if dic[w][0][1][:1] == p[:1]]
    ws = list({rng.choice(same) for _ in range(3)} | {rng.choice(first)})
    tr = [(0, 1, "1.0", rng.choice(V))] + [(1, 2, rng.choice(PROBS), w) for w in ws] + [(2, 3, "1.0", rng.choice(V))]
    return 4, 0, 3, tr, "prefix-sharing"


def g_nullmerge(rng, dic, V):
    """the same word leads to two states that are joined to a third one by null arcs, and one of the two also has word arcs of
    its own whose first phones overlap with those reachable through the null arc: the history entries of the two states go
    through fsg_history_entry_add for the SAME (target state, lc) list in fsg_search_null_prop (domination among null-arc
    entries), and the dominated predecessor must keep its own right contexts for its own word arcs"""
    w0 = rng.choice(V)
    w1 = rng.choice(V)
    same = [w for w in V if dic[w][0][1][:1] == dic[w1][0][1][:1]] or [w1]
    w2 = rng.choice(same)
    pa, pb = rng.choice([("0.6", "0.4"), ("0.4", "0.6"), ("0.5", "0.5")])
    tr = [(0, 1, pa, w0), (0, 2, pb, w0), (1, 3, rng.choice(PROBS), None), (2, 3, rng.choice(PROBS), None),
          (2, 4, rng.choice(PROBS), w1), (3, 4, rng.choice(PROBS), w2)]
    if rng.chance(0.5):
        tr.append((1, 4, rng.choice(PROBS), rng.choice(same)))
    return 5, 0, 4, tr, "null-merge"


def g_random(rng, dic, V):
    n = rng.range(2, 5)
    tr = []
    for i in range(n - 1):                       # spine so that the final state is reachable
        tr.append((i, i + 1, rng.choice(PROBS), rng.choice(V)))
    for _ in range(rng.range(1, 6)):
        a, b = rng.below(n), rng.below(n)
        if rng.chance(0.25):
            if a != b:
                tr.append((a, b, rng.choice(PROBS), None))
        else:
            tr.append((a, b, rng.choice(PROBS), rng.choice(V)))
    return n, 0, n - 1, tr, "random-graph"


SHAPES = [(g_linear, 2), (g_branch, 4), (g_short, 3), (g_loop, 3), (g_null, 3), (g_prefix, 2), (g_random, 4), (g_nullmerge, 2)]


def min_phones(dic, n, start, final, tr):
    """length in phones of the shortest sentence (Bellman-Ford over the states)"""
    INF = 10 ** 9
    d = [INF] * n
    d[start] = 0
    for _ in range(n + 1):
        for a, b, _, w in tr:
            cost = 0 if not w else min(len(ph) for _, ph in dic[w])
            if d[a] + cost < d[b]:
                d[b] = d[a] + cost
    return d[final]


def gen_case(rng, dic, vocab, cid, tier, beams=None, frames=None, lang="en-us"):
    V = [rng.choice(vocab) for _ in range(rng.range(3, 8))]
    if rng.chance(0.5):
        V += [w for w in (("go", "forward", "ten", "meters") if lang == "en-us" else ("avance", "de", "dix", "recule")) if rng.chance(0.7)]
    if rng.chance(0.5):
        V += [rng.choice(by_len(dic, vocab, 1) or vocab), rng.choice(by_len(dic, vocab, 2) or vocab)]
    n, s, f, tr, shape = rng.weighted(SHAPES)(rng, dic, V)
    cfg = {"wip": rng.choice(["0.65", "0.65", "1.0", "0.2", "0.001"]), "pip": rng.choice(["1.0", "1.0", "0.5", "0.05"]),
           "lw": rng.choice(["6.5", "6.5", "1.0", "9.5", "2.0"]), "silprob": rng.choice(["0.005", "0.005", "0.1", "1e-5"]),
           "fillprob": rng.choice(["1e-8", "1e-8", "1e-3"]), "fsgusefiller": "yes" if rng.chance(0.9) else "no",
           "fsgusealtpron": "yes" if rng.chance(0.85) else "no"}
    if beams is None:
        beams = rng.weighted([("wide", 70), ("default", 15), ("medium", 15)])
    if beams == "wide":
        cfg.update({"beam": "0", "pbeam": "0", "wbeam": "0"})
    elif beams == "medium":
        # beams of the order of the score spread: exercises the boundary of the proved no-pruning condition
        b = rng.choice(["1e-100", "1e-200", "1e-300"])
        cfg.update({"beam": b, "pbeam": rng.choice([b, "1e-150"]), "wbeam": rng.choice([b, "1e-120"])})
    else:
        cfg.update({"beam": "1e-48", "pbeam": "1e-48", "wbeam": "7e-29"})
    apath = LANGS[lang]["audio"]
    total = (vlib.REPO / apath).stat().st_size // 2
    nfr = frames if frames is not None else rng.range(5, 150)
    need = 3 * min_phones(dic, n, s, f, tr) + 2      # three frames per phone: below that no alignment exists
    if frames is None and nfr < need < 150 and rng.chance(0.85):
        nfr = rng.range(need, 150)
    if nfr >= 270:
        audio = ("file", apath, 0, total)
    elif rng.chance(0.8):
        ns = nfr * 160 + 250
        audio = ("file", apath, rng.below(max(1, total - ns)), ns)
    else:
        audio = ("noise", rng.below(1 << 30), nfr * 160 + 250, rng.choice([30, 300, 3000]))
    # result queries during the utterance (decoder_hyp() after some frame and/or after the last frame but before the search is
    # finished): the FINAL result must not depend on them
    probes = []
    if rng.chance(0.5):
        if rng.chance(0.5):
            probes.append(rng.below(max(1, nfr)))
        if rng.chance(0.8) or not probes:
            probes.append(-1)
    return {"id": cid, "lang": lang, "shape": shape, "beams": beams, "cfg": cfg, "n_state": n, "start": s, "final": f,
            "trans": [list(t) for t in tr], "audio": list(audio), "probes": probes}


def case_text(case):
    out = [f"case {case['id']}"]
    for w, ph in case.get("addwords", []):      # close6-c02: words added at run time (decoder_add_word) before the grammar is set
        out.append(f"addword {w} {'_'.join(ph)}")
    for k, v in sorted(case["cfg"].items()):
        out.append(f"cfg {k} {v}")
    out.append(f"fsg {case['n_state']} {case['start']} {case['final']}")
    for a, b, p, w in case["trans"]:
        out.append(f"t {a} {b} {p}" + (f" {w}" if w else ""))
    a = list(case["audio"])
    if a[0] == "file":
        a[1] = str(vlib.REPO / a[1]) if not os.path.isabs(a[1]) else a[1]
    out.append("audio " + " ".join(str(x) for x in a))
    for q in case.get("history", []):      # earlier utterances on the same decoder / search object (history family)
        q = list(q)
        if q[0] == "file":
            q[1] = str(vlib.REPO / q[1]) if not os.path.isabs(q[1]) else q[1]
        out.append("pre " + " ".join(str(x) for x in q))
    for p in case.get("probes", []):
        out.append(f"probe {p}")
    if case.get("detail") is not None:
        out.append(f"detail {case['detail']}")
    out.append("run")
    return "\n".join(out) + "\n"


# ----------------------------------------------------------------------------------------------
# running and judging

def parse_harness(out):
    """case id -> {T, score (int|None), exit_frame, hyp, segs, errors}"""
    res, cur = {}, None
    for l in out.split("\n"):
        w = l.split()
        if not w:
            continue
        if w[0] == "case":
            cur = {"segs": [], "errors": [], "T": 0, "score": None, "exit_frame": None, "hyp": None, "done": False}
            res[w[1]] = cur
        elif cur is None:
            continue
        elif w[0] == "error":
            cur["errors"].append(" ".join(w[1:]))
        elif w[0] == "H":
            cur["segs"].append(w[1:])
        elif w[0] == "R":
            cur["T"] = int(w[1])
            cur["score"] = None if w[2] == "none" else int(w[2])
            cur["exit_frame"] = int(w[3])
            cur["hyp"] = w[4]
        elif w[0] == "XN":
            cur.setdefault("lexnodes", []).append(" ".join(w[1:]))
        elif w[0] == "A":
            cur.setdefault("arcs", []).append((int(w[1]), int(w[2]), int(w[4])))
        elif w[0] == "W":
            cur.setdefault("words", {})[int(w[1])] = w[2]
        elif w[0] == "C":
            cur.setdefault("phones", {})[int(w[1])] = w[2]
        elif w[0] == "Y":
            cur.setdefault("Y", []).append(" ".join(w[1:]))
        elif w[0] == "PH":
            cur.setdefault("partial", []).append(w[1:])
        elif w[0] == "YD":
            cur.setdefault("detail", []).append(" ".join(w[1:]))
        elif w[0] == "PRE" and len(w) == 7:      # earlier utterance: index, frames searched, score|none, hyp, pnodes not cleared, lists left
            cur.setdefault("pre", []).append({"frames": int(w[2]), "score": None if w[3] == "none" else int(w[3]), "hyp": w[4],
                                              "dirty": int(w[5]), "lists": int(w[6])})
        elif w[0] == "PZ" and len(w) == 3:       # after fsg_search_finish of the judged utterance
            cur["pz"] = {"dirty": int(w[1]), "lists": int(w[2])}
        elif w[0] == "end":
            cur["done"] = True
    return res


def parse_search_driver(out):
    """output of `ssdriver c02s`: per case the fingerprint lines of the model's unpruned search and its result"""
    res = {}
    for l in out.split("\n"):
        w = l.split()
        if len(w) < 3:
            continue
        if w[0] == "Y":
            res.setdefault(w[1], {"Y": []})["Y"].append(" ".join(w[2:]))
        elif w[0] == "YB":
            res.setdefault(w[1], {"Y": []}).setdefault("YB", []).append(" ".join(w[2:]))
        elif w[0] == "PH":
            res.setdefault(w[1], {"Y": []}).setdefault("partial", []).append(w[2:4])
        elif w[0] == "YM":
            res.setdefault(w[1], {"Y": []}).setdefault("detail", []).append(" ".join(w[2:]))
        elif w[0] == "case":
            r = res.setdefault(w[1], {"Y": []})
            if w[2] == "error":
                r["error"] = " ".join(w[3:])
                continue
            d = {w[i]: w[i + 1] for i in range(2, len(w) - 1, 2)}
            r.update({"score": None if d["search"] == "none" else int(d["search"]), "exit_frame": int(d["exitframe"]),
                      "tree": None if d["tree"] in ("none", "illformed") else int(d["tree"]), "tree_raw": d["tree"],
                      "pnodes": int(d["pnodes"]), "entries": int(d["entries"]), "data": d["data"] == "true",
                      "chains": d["chains"] == "true", "treeedges": int(d["treeedges"]),
                      "cover": d.get("cover"), "emagree": d.get("emagree"),
                      "flat": None if d.get("flat", "none") == "none" else int(d["flat"]),
                      "beam_score": None if d.get("beamsearch", "none") == "none" else int(d["beamsearch"]),
                      "beam_exit_frame": int(d.get("beamexit", "-2")), "tablesagree": d.get("tablesagree") == "true",
                      "sidecond": {k: d.get(k) for k in ("leafctx", "fillersingle", "ctxrange")}})
    return res


def parse_driver(out):
    res = {}
    for l in out.split("\n"):
        w = l.split()
        if len(w) < 3 or w[0] != "case":
            continue
        if w[2] == "error":
            res[w[1]] = {"error": " ".join(w[3:])}
            continue
        d = {w[i]: w[i + 1] for i in range(2, len(w) - 1, 2)}
        r = {"opt": None if d["opt"] == "none" else int(d["opt"]),
             "optef": None if d.get("optef", "none") == "none" else int(d["optef"]),
             "empty": None if d.get("empty", "none") == "none" else int(d["empty"]), "T": int(d["T"]), "states": int(d["states"]),
             "edges": int(d["edges"]), "spread": int(d["spread"]), "beam": int(d["beam"]), "align": d.get("align", "-"),
             "minval": None if d["minval"] == "none" else int(d["minval"])}
        r["lexonly"], r["flatonly"] = d.get("lexonly", "-"), d.get("flatonly", "-")
        for k in ("consts", "data", "fillerflags", "closed", "monotone", "skipcons", "agree", "pathok", "labels", "lextree", "regime"):
            if k in d:
                r[k] = d[k] == "true"
        res[w[1]] = r
    return res


def run_driver_retry(text, timeout, sub="c02"):
    """the driver binary is briefly absent while another check relinks it"""
    import time
    for attempt in range(30):
        try:
            return vlib.run_driver(sub, text, timeout=timeout)
        except (FileNotFoundError, PermissionError, OSError):
            time.sleep(2)
    return vlib.run_driver(sub, text, timeout=timeout)


def filler_all_rc():
    """does fsg_search_pnode_exit (as it is in the tree under test) let a FILLER leave to every right context whatever its length?
    True for the code as it is (`fsg_model_is_filler(...) || dict_is_single_phone(...)`), False with fix D110 (only
    `dict_is_single_phone(...)`): the scoring model and the theorems have both variants (SearchScore.Env.anyRc, LexCover.envOfG)."""
    src = (vlib.REPO / "src" / "fsg_search.c").read_text()
    i = src.find("fsg_search_pnode_exit(fsg_search_t")
    j = src.find("fsg_pnode_add_all_ctxt(&ctxt)", i) if i >= 0 else -1
    seg = src[i:j] if i >= 0 and j >= 0 else ""
    return not ("dict_is_single_phone" in seg and "fsg_model_is_filler" not in seg)


def model_dir(lang, noisedict, where):
    """the acoustic model directory the harness is given; a case may bring its own noise dictionary (`noisedict`: list of lines),
    then a copy of the directory (links) with that `noisedict.txt`"""
    base = vlib.REPO / "model" / lang
    if not noisedict:
        return base
    import tempfile
    d = Path(tempfile.mkdtemp(prefix="c02-model-", dir=str(where)))
    for f in base.iterdir():
        if f.name != "noisedict.txt":
            os.symlink(f, d / f.name)
    (d / "noisedict.txt").write_text("\n".join(noisedict) + "\n")
    return d


# ---- close6-c02: triphone back-off = Lean model `nearest`, rare boundary phones ----------------------------------------
_MDEF_DUMP, _NEAR, BACKOFF_STATS = {}, {}, {"S_lines": 0, "distinct_(b,l,r,pos)": 0, "differing": 0, "by_model": {},
                                            "S_lines_whose_triphone_is_absent_at_every_word_position": 0}
_ABSENT = {}


def mdef_dump(lang, where):
    """dump of the acoustic model's cd_tree / ssid table (h_c16 mdefdump), read by the C16 driver into Dict2pid.BinMdef"""
    if lang not in _MDEF_DUMP:
        b16 = vlib.build_harness("h_c16")
        dump = Path(where) / f"c02-mdef-{lang}.dump"
        rc, out, err = vlib.run_bin(b16, args=["mdefdump", vlib.REPO / "model" / lang, dump])
        if rc != 0 or not out.startswith("mdefdump ok"):
            raise RuntimeError(f"mdefdump {lang}: {out} {err[-300:]}")
        _MDEF_DUMP[lang] = dump
    return _MDEF_DUMP[lang]


def model_near(lang, keys, where):
    """(b, l, r, pos) -> (pid, ssid) by the Lean model `nearest` / `BinMdef.pid2ssid` (ssdriver c16, op `near`)"""
    import subprocess, time
    cache = _NEAR.setdefault(lang, {})
    todo = sorted(set(keys) - set(cache))
    if todo:
        env = dict(os.environ)
        env["C16_MDEF"] = str(mdef_dump(lang, where))
        text = "".join(f"near {b} {l} {r} {p}\n" for b, l, r, p in todo)
        for attempt in range(30):
            try:
                r = subprocess.run([str(vlib.driver_path()), "c16"], input=text.encode(), stdout=subprocess.PIPE,
                                   stderr=subprocess.PIPE, timeout=900, env=env)
                break
            except (FileNotFoundError, PermissionError, OSError):
                time.sleep(2)
        lines = [l.split() for l in r.stdout.decode().split("\n") if l.startswith("n ")]
        if r.returncode != 0 or len(lines) != len(todo):
            raise RuntimeError(f"ssdriver c16 near: rc {r.returncode}, {len(lines)} answers for {len(todo)} ops: {r.stderr.decode()[-300:]}")
        for k, w in zip(todo, lines):
            cache[k] = (int(w[1]), int(w[2]))
    return cache


def model_backoff(out, lang, where):
    """harness dump with the ssid of every S line replaced by the model's; case id -> differing lines"""
    keys = set()
    for l in out.split("\n"):
        if l.startswith("S "):
            keys.add(tuple(int(x) for x in l.split()[1:5]))
    near = model_near(lang, keys, where) if keys else {}
    ab = _ABSENT.get(lang)
    res, bad, cur = [], {}, None
    for l in out.split("\n"):
        if l.startswith("case "):
            cur = l.split()[1]
        if l.startswith("S "):
            w = l.split()
            k = tuple(int(x) for x in w[1:5])
            BACKOFF_STATS["S_lines"] += 1
            BACKOFF_STATS["by_model"][lang] = BACKOFF_STATS["by_model"].get(lang, 0) + 1
            if ab and k[2] in ab["absent"].get((k[0], k[1]), ()):
                BACKOFF_STATS["S_lines_whose_triphone_is_absent_at_every_word_position"] += 1
            pid, ssid = near[k]
            if int(w[5]) != ssid:
                BACKOFF_STATS["differing"] += 1
                bad.setdefault(cur, []).append({"base": k[0], "left": k[1], "right": k[2], "word_position(0 int,1 begin,2 end,3 single)": k[3],
                                                "bin_mdef_phone_id_nearest->ssid": int(w[5]), "model_phone_id": pid, "model_ssid": ssid})
            l = " ".join(w[:5] + [str(ssid)])
        res.append(l)
    BACKOFF_STATS["distinct_(b,l,r,pos)"] = sum(len(v) for v in _NEAR.values())
    return "\n".join(res), bad


def absent_triphones(binp, lang, dictfile):
    """from exact bin_mdef_phone_id look-ups: (b, l) -> set of r such that the model has b(l, r) at no word position"""
    if lang not in _ABSENT:
        rc, out, err = vlib.run_bin(binp, [str(vlib.REPO / "model" / lang), str(dictfile)], stdin_text="absent\n", timeout=600)
        ab, names, fil, sil = {}, [], [], -1
        for l in out.split("\n"):
            w = l.split()
            if w and w[0] == "AB":
                ab[(int(w[1]), int(w[2]))] = {int(x) for x in w[3:]}
            elif w and w[0] == "PHONES":
                sil = int(w[1])
                names = [x.rsplit(":", 1)[0] for x in w[2:]]
                fil = [x.rsplit(":", 1)[1] == "1" for x in w[2:]]
        if "absent done" not in out or not names:
            raise RuntimeError(f"h_c02 absent ({lang}): rc {rc} {err[-300:]}")
        _ABSENT[lang] = {"absent": ab, "names": names, "filler": fil, "sil": sil}
    return _ABSENT[lang]


def gen_rare_case(rng, dic, vocab, cid, tier, lang, ab, stats):
    """two ADJACENT words whose cross-word triphone the model definition lacks: one (or both) of them added at run time
    (decoder_add_word) with a boundary phone drawn from the phone pairs whose triphone is absent at every word position
    (enumerated from exact look-ups), so that the senone sequence at the boundary is decided by the back-off rule"""
    names, fil, sil, absent = ab["names"], ab["filler"], ab["sil"], ab["absent"]
    idx = {n: i for i, n in enumerate(names)}
    nonfil = [i for i in range(len(names)) if not fil[i] and i != sil]
    base = gen_case(rng, dic, vocab, cid, tier, beams=("wide" if rng.chance(0.85) else None), frames=rng.range(25, 100), lang=lang)
    two = [w for w in vocab if len(dic[w][0][1]) >= 2 and all(p in idx for p in dic[w][0][1])]
    side = rng.weighted([("new-word-on-the-right", 4), ("new-word-on-the-left", 4), ("both-new", 3)])
    add, hit = [], False

    def fresh(ph):
        nm = f"zq{cid}n{len(add)}".replace("-", "").lower()
        add.append([nm, [names[p] for p in ph]])
        return nm
    if side == "new-word-on-the-right":
        for _ in range(12):      # prefer a left word whose final diphone has an absent right context
            w1 = rng.choice(two)
            a, x = idx[dic[w1][0][1][-1]], idx[dic[w1][0][1][-2]]
            cand = sorted(c for c in absent.get((a, x), ()) if c in nonfil)
            if cand:
                break
        hit = bool(cand) and rng.chance(0.85)
        c = rng.choice(cand) if hit else rng.choice(nonfil)
        w2 = fresh([c] + [rng.choice(nonfil) for _ in range(rng.range(1, 3))])
    elif side == "new-word-on-the-left":
        for _ in range(12):
            w2 = rng.choice(two)
            c, y = idx[dic[w2][0][1][0]], idx[dic[w2][0][1][1]]
            cand = sorted(a for a in nonfil if y in absent.get((c, a), ()))
            if cand:
                break
        hit = bool(cand) and rng.chance(0.85)
        a = rng.choice(cand) if hit else rng.choice(nonfil)
        w1 = fresh([rng.choice(nonfil) for _ in range(rng.range(1, 3))] + [a])
    else:
        p1 = [rng.choice(nonfil) for _ in range(rng.range(1, 4))]
        p2 = [rng.choice(nonfil) for _ in range(rng.range(1, 4))]
        pool = sorted((b, l, r) for (b, l), rs in absent.items() for r in rs if b in nonfil and l in nonfil and r in nonfil)
        if pool and rng.chance(0.8):      # boundary drawn from the enumeration of absent triphones: word-final b(l, r)
            b, l, r = rng.choice(pool)
            p1, p2 = p1[:-1][:1] + [l, b], [r] + p2[1:]
        w1, w2 = fresh(p1), fresh(p2)
        hit = len(p1) >= 2 and p2[0] in absent.get((p1[-1], p1[-2]), ())
    ws = ([rng.choice(vocab)] if rng.chance(0.3) else []) + [w1, w2] + ([rng.choice(vocab)] if rng.chance(0.3) else [])
    tr = [[i, i + 1, rng.choice(PROBS), w] for i, w in enumerate(ws)]
    if rng.chance(0.3):      # an alternative to the second word of the pair: the left word then has two right contexts
        k = ws.index(w2)
        tr.append([k, k + 1, rng.choice(PROBS), rng.choice(vocab)])
    base.update({"shape": "rare-boundary", "n_state": len(ws) + 1, "start": 0, "final": len(ws), "trans": tr, "addwords": add})
    need = 3 * sum(len(dict(add).get(w) or dic[w][0][1]) for w in ws) + 2
    a_ = base["audio"]
    n_idx = 3 if a_[0] == "file" else 2
    if a_[n_idx] < need * 160 + 250:
        a_[n_idx] = need * 160 + 250
        if a_[0] == "file":
            total = (vlib.REPO / LANGS[lang]["audio"]).stat().st_size // 2
            a_[2] = min(a_[2], max(0, total - a_[n_idx]))
    fam = stats.setdefault("rare_boundary_family", {"cases": 0, "by_model": {}, "placement": {}, "boundary_triphone_absent_at_every_position": 0,
                                                    "words_added_at_run_time": 0, "beams": {}})
    fam["cases"] += 1
    fam["by_model"][lang] = fam["by_model"].get(lang, 0) + 1
    fam["placement"][side] = fam["placement"].get(side, 0) + 1
    fam["boundary_triphone_absent_at_every_position"] += 1 if hit else 0
    fam["words_added_at_run_time"] += len(add)
    fam["beams"][base["beams"]] = fam["beams"].get(base["beams"], 0) + 1
    return base


def run_cases(binp, dictfile, cases, timeout=1200):
    text = "".join(case_text(c) for c in cases)
    binp = vlib.build_harness("h_c02")     # other runs may have pruned the build cache in the meantime
    lang = cases[0].get("lang", "en-us")       # one acoustic model per harness process
    assert all(c.get("lang", "en-us") == lang for c in cases)
    assert all(c.get("noisedict") == cases[0].get("noisedict") for c in cases)
    df = dictfile[lang] if isinstance(dictfile, dict) else dictfile
    mdir = model_dir(lang, cases[0].get("noisedict"), Path(df).parent)
    rc, out, err = vlib.run_bin(binp, [str(mdir), str(df)], stdin_text=text, timeout=timeout)
    # close6-c02: the triphone of every (base, left, right, position) of the flat network is recomputed by the Lean model
    # `nearest` (exact tree-walk look-ups + back-off rule, Model/Dict2pid.lean) on the dumped cd_tree; the optimum oracle
    # (driver c02) gets the MODEL's senone sequences, the harness's bin_mdef_phone_id_nearest values are only compared
    out_model, backoff_bad = model_backoff(out, lang, Path(df).parent)
    rc2, mout, merr = run_driver_retry(out_model, timeout)
    ms = parse_driver(mout)
    for cid, lst in backoff_bad.items():
        ms.setdefault(cid, {"error": "no driver output"})["backoff_bad"] = lst
    # the scoring model of the unpruned token-passing search, run on the same dump (real lextree, recorded senone scores)
    sin = out if filler_all_rc() else re.sub(r"(?m)^(case \S+)$", r"\1\nOPT fillerallrc 0", out)
    rc3, sout, serr = run_driver_retry(sin, timeout, sub="c02s")
    for cid, sr in parse_search_driver(sout).items():
        if cid in ms:
            ms[cid]["search"] = sr
    if rc3 != 0:
        rc2, merr = rc3, merr + serr
    return (rc, parse_harness(out), err), (rc2, ms, merr)


def describe_key(h, key):
    """readable form of an unshared-path key `arcN/lcX/rcY/extA.B/ssid:tmat:entry,...`"""
    try:
        f = key.split("/")
        a = int(f[0][3:])
        src, dst, wid = h["arcs"][a]
        ph = h.get("phones", {})

        def name(x):
            return "any" if x == "*" else ph.get(int(x), x)
        return (f"word '{h['words'].get(wid, wid)}' on arc {src}->{dst}, left context {name(f[1][2:])}, right context "
                f"{name(f[2][2:])}: per-phone ssid:tmat:penalty = {f[4]}")
    except Exception:
        return key


def verdict(case, h, m):
    """score verdict, then the structural correspondence with the real lextree: a mismatch there is reported as
    `lextree-mismatch` unless the score already violates the property (then the difference is attached)"""
    kind, detail = verdict_score(case, h, m)
    if kind in ("harness-error", "model-error"):
        return kind, detail
    if m.get("lextree", True):
        if kind.startswith("ok") or kind == "finding-partial":
            bad = finish_tie(case, h) or search_tie(h, m)
            if bad:
                return "search-mismatch", bad
        return kind, detail
    diff = (f"real lextree has [{describe_key(h, m['lexonly'])}]; flat network of the model has "
            f"[{describe_key(h, m['flatonly'])}]")
    if kind.startswith("violation"):
        return kind, f"{detail}; lextree differs from the model: {diff}"
    return "lextree-mismatch", diff


def finish_tie(case, h):
    """what `C02_finish_restores_initial` (Props/C02Finish.lean) concludes of the model, evaluated on the real search object: after
    fsg_search_finish of EVERY utterance (the earlier ones of a history case and the judged one) every HMM of the lextree is in the state
    hmm_clear() leaves (all scores WORST_SCORE, frame stamp < 0) and both active lists are empty — the state fsg_search_start assumes of the
    HMMs it does not enter, so that the next utterance on the same search object starts like the first.  Also: every earlier utterance
    the case asked for was run."""
    pre = h.get("pre", [])
    if len(pre) != len(case.get("history", [])):
        return {"what": "not every earlier utterance of the history case was run", "asked": len(case.get("history", [])), "ran": len(pre)}
    for i, q in enumerate(pre):
        if q["dirty"] or q["lists"]:
            return {"what": "after the end of an earlier utterance on the same search object (decoder_end_utt -> fsg_search_finish) some lextree "
                            "HMMs are not in the cleared state / an active list is not empty: the next utterance does not start from the "
                            "initial search state", "earlier_utterance": i, "frames_searched": q["frames"], "pnodes_not_cleared": q["dirty"],
                    "active_lists_left": q["lists"]}
    z = h.get("pz")
    if z and (z["dirty"] or z["lists"]):
        return {"what": "after fsg_search_finish of the judged utterance some lextree HMMs are not in the cleared state / an active list is "
                        "not empty", "frames_searched": h["T"], "pnodes_not_cleared": z["dirty"], "active_lists_left": z["lists"]}
    return None


# ----------------------------------------------------------------------------------------------
# history family: the judged utterance is the k-th one on its decoder

def gen_history(rng, lang="en-us"):
    """1-3 earlier utterances of adversarial lengths, decoded on the same decoder and the same search object before the judged one:
    zero frames (no audio at all / start_utt directly followed by end_utt), every length around the frames in which lextree nodes are
    first entered (3 frames per phone: 1..14 frames, three sample-count residues so that both k*160 and k*160+250 samples occur),
    excerpts cut mid-word (15..60 frames), short noise, and normal utterances."""
    apath = LANGS[lang]["audio"]
    total = (vlib.REPO / apath).stat().st_size // 2
    hist = []
    for _ in range(rng.weighted([(1, 50), (2, 30), (3, 20)])):
        kind = rng.weighted([("phone-entry-length", 50), ("zero", 12), ("cut-mid-word", 18), ("noise", 10), ("normal", 10)])
        if kind == "zero":
            hist.append(["empty"] if rng.chance(0.5) else ["file", apath, 0, rng.choice([0, 100, 250])])
            continue
        if kind == "phone-entry-length":
            ns = rng.range(1, 14) * 160 + rng.choice([0, 90, 250])
        elif kind == "cut-mid-word":
            ns = rng.range(15, 60) * 160 + rng.choice([0, 250])
        elif kind == "noise":
            hist.append(["noise", rng.below(1 << 30), rng.range(1, 14) * 160 + rng.choice([0, 250]), rng.choice([30, 300, 3000])])
            continue
        else:
            ns = rng.range(60, 140) * 160 + 250
        hist.append(["file", apath, rng.below(max(1, total - ns)), ns])
    return hist


def gen_history_case(rng, dic, vocab, cid, tier, lang="en-us"):
    """a generated case of any shape (mostly wide beams, so that the exact-optimum oracle applies to the judged utterance; otherwise
    the <= clause and the per-frame tie with beams judge it) preceded by a generated history"""
    case = gen_case(rng, dic, vocab, cid, tier, beams=rng.weighted([("wide", 80), ("default", 12), ("medium", 8)]), lang=lang)
    case["history"] = gen_history(rng, lang)
    return case


def in_regime(m):
    """the proved no-pruning condition plus the no-underflow / skip-consistency hypotheses (see verdict_score)"""
    floor = m["minval"] is None or m["minval"] > -536870912 + 33023
    return bool(m.get("regime")) and m["skipcons"] and floor


def search_tie(h, m):
    """token-passing correspondence in the no-pruning regime: the model's unpruned scoring search (SearchScore.searchStart /
    searchFrame / findExit, run by `ssdriver c02s` on the dumped real lextree and the recorded senone scores) must reproduce, frame by
    frame, what the real search held (bestscore, number of active HMMs, every active HMM's state and exit scores, the word-exit and
    the null-arc history entries per (state, lc, right-context phone)) and the result fsg_search_find_exit read.  Returns None when it
    agrees or does not apply, else a description of the first difference."""
    sr = m.get("search")
    if sr is None:
        return None
    if "error" in sr:
        return {"what": "the search model could not run on the dump", "error": sr["error"]}
    # the decidable side conditions of C02_unpruned_search_is_dp (Props/C02Cover.lean, the certificate-free theorem): a filler word has one
    # phone, the phones fit the context bit vectors; plus leafCtxB (proved for buildLexTree, leafCtxB_build) on the real lextree: every leaf
    # pnode has a context bit
    sc = sr.get("sidecond") or {}
    if any(sc.get(k) != "true" for k in ("leafctx", "fillersingle", "ctxrange")):
        return {"what": "a side condition of C02_unpruned_search_is_dp (leafCtxB on the real lextree / fillerSingleB / ctxRangeB on the "
                        "model, Model/LexCoverHyps.lean) does not hold", "values": sc}
    # cross-check, independent of beams: the untrusted certificate search still finds a cover of the real lextree network by the model's
    # flat network (coverB / emAgreeB, C02_unpruned_search_is_dp_partial) -- since round 3 a consequence of C02_lextree_optimum_is_flat_optimum
    if sr.get("cover") != "true" or sr.get("emagree") != "true":
        return {"what": "cover certificate (cross-check of C02_lextree_optimum_is_flat_optimum): the flat network of the model does not cover "
                        "the real lextree read as a network", "coverB": sr.get("cover"), "emAgreeB": sr.get("emagree")}
    if sr.get("flat") != m["opt"]:
        return {"what": "the two drivers disagree on the optimum of the flat network", "c02s": sr.get("flat"), "c02": m["opt"]}
    if not (sr.get("data") and sr.get("chains")):
        return {"what": "dumped lextree unusable", "data": sr.get("data"), "chains": sr.get("chains")}
    # ANY beams: the scoring model WITH the beam tests (searchStartBeam / searchFrameBeam, run with the beams the real search holds)
    # must reproduce every frame of the real, pruned search and its result (needs only no underflow to WORST_SCORE and
    # skip-consistent matrices, the hypotheses under which hmm_vit_eval is the max-plus step)
    floor = m["minval"] is None or m["minval"] > -536870912 + 33023
    if floor and m["skipcons"]:
        a, b = h.get("Y", []), sr.get("YB", [])
        for k in range(max(len(a), len(b))):
            x, y = (a[k] if k < len(a) else None), (b[k] if k < len(b) else None)
            if x != y:
                return {"what": "first frame in which the real search and the scoring model run WITH the search's beams differ "
                                "(frame, bestscore, #active HMMs, hash of HMM scores, hash of word-exit entries, hash of null-arc entries)",
                        "real_search": x, "model_with_beams": y, "frame_index": k - 1}
        if sr.get("beam_score") != h["score"] or (h["score"] is not None and sr.get("beam_exit_frame") != h["exit_frame"]):
            return {"what": "fsg_search_find_exit vs model findExit on the pruned history", "real_search": [h["score"], h["exit_frame"]],
                    "model_with_beams": [sr.get("beam_score"), sr.get("beam_exit_frame")]}
        # partial results asked for during the utterance (fsg_search_hyp before fsg_search_finish = find_exit with final = FALSE)
        pa, pb = [x[:2] for x in h.get("partial", [])], sr.get("partial", [])
        if pa != pb:
            return {"what": "partial results (decoder_hyp before the search was finished): [frame, score] pairs", "real_search": pa,
                    "model_with_beams": pb}
        # C02_search_with_beams_is_dp_partial: when the pruned model's history table equals the unpruned model's (decidable, evaluated by
        # the driver on its two runs) the result must be the optimum of the flat network, whatever the `regime` flag says
        if sr.get("tablesagree"):
            if m["opt"] is not None and (h["score"] != m["opt"] or h["exit_frame"] != h["T"] - 1):
                return {"what": "pruning removed nothing from the history table (pruned model table = unpruned model table) but the result is "
                                "not the optimum of the flat network", "real_search": [h["score"], h["exit_frame"]], "optimum": m["opt"]}
            if m["opt"] is None and sr.get("beam_exit_frame") == h["T"] - 1 and h["score"] is not None:
                return {"what": "no alignment exists but a result is reported from the last frame", "real_search": [h["score"], h["exit_frame"]]}
    if not in_regime(m):
        return None
    a, b = h.get("Y", []), sr["Y"]
    for k in range(max(len(a), len(b))):
        x, y = (a[k] if k < len(a) else None), (b[k] if k < len(b) else None)
        if x != y:
            return {"what": "first frame in which the real search and the unpruned scoring model differ "
                            "(frame, bestscore, #active HMMs, hash of HMM scores, hash of word-exit entries, hash of null-arc entries)",
                    "real_search": x, "model": y, "frame_index": k - 1}
    if sr["score"] != h["score"] or (h["score"] is not None and sr["exit_frame"] != h["exit_frame"]):
        return {"what": "fsg_search_find_exit vs model findExit", "real_search": [h["score"], h["exit_frame"]],
                "model": [sr["score"], sr["exit_frame"]]}
    if h["exit_frame"] == h["T"] - 1 and sr["tree"] != m["opt"]:
        return {"what": "optimum of the lextree network differs from the optimum of the flat network",
                "lextree_network": sr["tree_raw"], "flat_network": m["opt"]}
    return None


def verdict_score(case, h, m):
    """returns (kind, detail): kind in ok-equal, ok-le, ok-none, harness-error, model-error, violation-*"""
    if h is None or not h.get("done") or h["errors"]:
        return "harness-error", (h or {}).get("errors")
    if m is None or "error" in m:
        return "model-error", (m or {}).get("error")
    SIDE = ("consts", "data", "fillerflags", "labels", "closed", "agree", "pathok")
    side = all(m.get(k, False) for k in SIDE)
    if not side:
        return "model-error", {k: m.get(k) for k in SIDE}
    cs, opt = h["score"], m["opt"]
    wide = case["beams"] == "wide"
    floor = m["minval"] is None or m["minval"] > -536870912 + 33023
    # no-pruning regime: the condition `Beam.regime` the driver evaluated on the model's beam-annotated network with the
    # beams the search holds (theorem C02_wide_beams_prune_nothing: the beam tests then remove nothing), plus the
    # no-underflow / skip-consistency hypotheses of C02_hmmStep_eq_ideal
    regime = bool(m.get("regime")) and m["skipcons"] and floor
    if cs is not None and h["exit_frame"] != h["T"] - 1:
        # no history entry in the final frame (every word exit pruned, or the utterance is shorter than any sentence while
        # the grammar has a null path start -> final): fsg_search_find_exit falls back to the most recent frame that has
        # one — possibly the dummy entries of frame -1 — and the reported score covers frames 0..exit_frame only
        ef = h["exit_frame"]
        covered = m["empty"] if ef < 0 else m["optef"]
        if covered is None or cs > covered or (regime and (ef >= 0 or cs != covered)):
            return "violation-above", (f"reported {cs} (history entry of frame {ef}) vs optimum {covered} over the "
                                       f"{ef + 1} frames it covers; optimum over all {h['T']} frames: {opt}")
        if opt is None or cs > opt:
            return "finding-partial", (f"reported {cs} is the score of an alignment of frames 0..{ef} only "
                                       f"(utterance has {h['T']}); optimum over the whole utterance: {opt}")
        return "ok-le-partial", None
    if regime:
        if cs == opt:
            return ("ok-equal" if cs is not None else "ok-none"), None
        if cs is None:
            return "violation-missed", f"search reports no result, optimum {opt}"
        if opt is None or cs > opt:
            return "violation-above", f"reported {cs} > optimum {opt}: not the score of any legal alignment"
        return "violation-below", f"reported {cs} < optimum {opt} although nothing can have been pruned"
    if cs is None:
        return "ok-none", None
    if opt is None or cs > opt:
        return "violation-above", f"reported {cs} > optimum {opt}: not the score of any legal alignment"
    return "ok-le", None


def shrink(c, binp, dictfile, case, kind):
    """fewer frames, then fewer transitions, while the same kind of violation persists"""
    budget = [60 if c.tier == "quick" else 150]

    def still(cand):
        if budget[0] <= 0:
            return False
        budget[0] -= 1
        (rc, hs, _), (rc2, ms, _) = run_cases(binp, dictfile, [cand])
        mm = ms.get(cand["id"])
        k, _ = verdict(cand, hs.get(cand["id"]), mm)
        if kind == "lextree-mismatch":
            return bool(mm) and mm.get("lextree") is False
        return k == kind
    cur = dict(case)
    # frames: halve the excerpt from the end while it still fails
    a = list(cur["audio"])
    n_idx = 3 if a[0] == "file" else 2
    while a[n_idx] > 160 * 8:
        cand = dict(cur)
        a2 = list(a)
        a2[n_idx] = max(160 * 6, a[n_idx] * 2 // 3)
        cand["audio"] = a2
        if still(cand):
            cur, a = cand, a2
        else:
            break
    trans = vlib.ddmin(cur["trans"], lambda sub: still(dict(cur, trans=sub)), max_tests=budget[0])
    cur = dict(cur, trans=trans)
    if len(cur.get("history") or []) >= 2:      # history family: fewer earlier utterances
        cur = dict(cur, history=vlib.ddmin(cur["history"], lambda sub: still(dict(cur, history=sub)), max_tests=max(1, budget[0])))
    for k in ("fsgusefiller", "fsgusealtpron"):
        cand = dict(cur, cfg=dict(cur["cfg"], **{k: "no"}))
        if cur["cfg"].get(k) == "yes" and still(cand):
            cur = cand
    return cur


KEY_PARTIAL = "partial-result-no-history-entry-in-final-frame"


def is_known(key):
    return any(kf.get("property") == "C02" and kf.get("status", "open") == "open" and kf.get("key") == key
               for kf in vlib.known_findings())


def report(c, binp, dictfile, dic, vocab, case, kind, detail, finding_key=None):
    small = shrink(c, binp, dictfile, case, kind) if finding_key is None or not is_known(finding_key) else case
    (rc, hs, err), (rc2, ms, _) = run_cases(binp, dictfile, [small])
    h, m = hs.get(small["id"]), ms.get(small["id"])
    k2, d2 = verdict(small, h, m)
    lex = kind in ("lextree-mismatch", "search-mismatch")
    if k2 != kind and not (lex and k2.startswith("violation")):
        small, (h, m) = case, (None, None)
        (rc, hs, err), (rc2, ms, _) = run_cases(binp, dictfile, [small])
        h, m = hs.get(small["id"]), ms.get(small["id"])
        k2, d2 = verdict(small, h, m)
    if lex and not k2.startswith("violation"):
        # the correspondence broke: look for an input on which the reported score itself is wrong
        total = (vlib.REPO / LANGS[small.get("lang", "en-us")]["audio"]).stat().st_size // 2
        tries = []
        for i in range(10):
            ns = c.rng.range(20, 120) * 160 + 250
            tries.append(dict(small, id=f"{small['id']}x{i}", beams="wide", cfg=dict(small["cfg"], beam="0", pbeam="0", wbeam="0"),
                              audio=["file", LANGS[small.get("lang", "en-us")]["audio"], c.rng.below(max(1, total - ns)), ns]))
            if i % 2 and len(small.get("history") or []) < 4:
                # ... also as the NEXT utterance on the same search object: the case's own audio becomes an earlier utterance
                tries[-1]["history"] = list(small.get("history") or []) + [list(small["audio"])]
        (rc3, hs3, err3), (_, ms3, _) = run_cases(binp, dictfile, tries)
        for t in tries:
            k3, d3 = verdict(t, hs3.get(t["id"]), ms3.get(t["id"]))
            if k3.startswith("violation"):
                small, h, m, k2, d2, err = t, hs3.get(t["id"]), ms3.get(t["id"]), k3, d3, err3
                break
    if lex:
        kind = k2 if k2.startswith("violation") else kind
    state_diff = None
    if isinstance(d2, dict) and "frame_index" in d2:
        # the full state behind the fingerprints of the first differing frame: active HMMs `H pnode s0 s1 s2 out` and the history entries
        # made in that frame `E is_null_arc dst_state lc score right_contexts`, real search vs the scoring model run with the search's beams
        try:
            (_, hs4, _), (_, ms4, _) = run_cases(binp, dictfile, [dict(small, detail=d2["frame_index"])])
            ra = set(hs4[small["id"]].get("detail", []))
            mo = set((ms4[small["id"]].get("search") or {}).get("detail", []))
            nodes = [l for l in (hs4[small["id"]].get("lexnodes") or [])]
            state_diff = {"frame": d2["frame_index"], "only_in_real_search": sorted(ra - mo)[:12], "only_in_model": sorted(mo - ra)[:12],
                          "pnodes (id ssid tmat logs2prob ci_ext ppos leaf arc ctxt)": [n for n in nodes if any(
                              x.split()[0] == "H" and x.split()[1] == n.split()[0] for x in list(ra ^ mo))][:12]}
        except Exception as ex:      # diagnostics only
            state_diff = {"error": repr(ex)}
    used = sorted({t[3] for t in small["trans"] if t[3]})
    c.violation({"kind": kind, "what": d2 or detail, "case": small, "state_difference_in_first_differing_frame": state_diff,
                 "lextree_only": m and m.get("lexonly"), "model_only": m and m.get("flatonly"),
                 "search_model_result": m and {k: v for k, v in (m.get("search") or {}).items() if k != "Y"},
                 "dictionary": {sp: ph for b in used for sp, ph in dic[small.get("lang", "en-us")].get(b, [])},
                 "c_score": h and h["score"], "c_hyp": h and h["hyp"], "c_segments": h and h["segs"],
                 "c_exit_frame": h and h["exit_frame"], "frames": h and h["T"],
                 "model_optimum": m and m.get("opt"), "model_optimal_alignment": m and m.get("align"),
                 "score_spread": m and m.get("spread"), "beam": m and m.get("beam"),
                 "stderr_tail": (err or "")[-800:],
                 "how_to_rerun": "python3 tools/check.py C02 --replay <this file>"},
                found_input=kind.startswith("violation") or kind.startswith("finding"), tag="replay", finding_key=finding_key)


# ----------------------------------------------------------------------------------------------
# unit correspondence: hmm_vit_eval vs hmmStep, fsg_history_entry_add vs HistDom.add

WORST = -536870912


def gen_hmm_op(rng, stats):
    tp = [255] * 12
    for i in range(3):
        tp[i * 4 + i] = rng.range(0, 40) if rng.chance(0.9) else rng.choice([0, 254, 255])
        tp[i * 4 + i + 1] = rng.range(0, 40) if rng.chance(0.9) else rng.choice([0, 254, 255])
    sk02, sk13 = rng.chance(0.4), rng.chance(0.4)
    if sk02:
        tp[2] = rng.range(0, 60) if rng.chance(0.9) else 254
    if sk13:
        tp[7] = rng.range(0, 60) if rng.chance(0.9) else 254
    if rng.chance(0.1):      # garbage below the diagonal must be ignored
        for k in (4, 8, 9):
            tp[k] = rng.range(0, 255)
    sen = [rng.range(0, 600) if rng.chance(0.85) else rng.choice([0, 32767, rng.range(0, 32767)]) for _ in range(3)]

    def score(active_p):
        if not rng.chance(active_p):
            return WORST
        k = rng.below(10)
        if k == 0:
            return WORST + rng.range(1, 40000)      # underflow region: the clamps fire
        if k == 1:
            return -rng.range(0, 5)
        return -rng.range(0, 4000000)
    st = [score(0.8), score(0.6), score(0.5)]
    # out: stale value or WORST
    out = WORST if rng.chance(0.6) else -rng.range(0, 4000000)
    stats["hmm_skip"][(sk02, sk13)] = stats["hmm_skip"].get((sk02, sk13), 0) + 1
    act = tuple(x != WORST for x in st)
    stats["hmm_active"][act] = stats["hmm_active"].get(act, 0) + 1
    return "hmm " + " ".join(str(x) for x in tp + sen + st + [out]), (tp, sen, st, out)


def hmm_ideal(tp, sen, st, out_old):
    """max-plus step, None = -inf (the property the C update is supposed to compute); returns None when the op is
    outside the no-underflow hypotheses of C02_hmmStep_eq_ideal"""
    M = 33023
    if any(x != WORST and x <= WORST + M for x in st):
        return None
    sk02, sk13 = tp[2] < 255, tp[7] < 255
    if sk13 and not sk02:
        return None
    if st[1] == WORST and (st[2] != WORST or out_old != WORST):
        return None
    a = [None if x == WORST else x - sen[k] for k, x in enumerate(st)]

    def mx(*xs):
        xs = [x for x in xs if x is not None]
        return max(xs) if xs else None

    def add(x, i, j):
        return None if x is None else x - tp[i * 4 + j]
    out = mx(add(a[2], 2, 3), add(a[1], 1, 3) if sk13 else None)
    n2 = mx(add(a[2], 2, 2), add(a[1], 1, 2), add(a[0], 0, 2) if sk02 else None)
    n1 = mx(add(a[1], 1, 1), add(a[0], 0, 1))
    n0 = add(a[0], 0, 0)
    return [n0, n1, n2, out]


def gen_hmm5_op(rng, stats):
    tp = [255] * 30
    for i in range(5):
        for j in (i, i + 1, i + 2):
            if j <= 5:
                tp[i * 6 + j] = rng.range(0, 40) if rng.chance(0.9) else rng.choice([0, 254, 255])
    if rng.chance(0.1):
        for k in (6, 12, 13, 18, 24):      # garbage below the diagonal must be ignored
            tp[k] = rng.range(0, 255)
    sen = [rng.range(0, 600) if rng.chance(0.85) else rng.choice([0, 32767, rng.range(0, 32767)]) for _ in range(5)]

    def score():
        k = rng.below(10)
        if k == 0:
            return WORST + rng.range(1, 40000)
        if k == 1:
            return -rng.range(0, 5)
        return -rng.range(0, 4000000)
    if rng.chance(0.7):            # left-to-right activity pattern (what the search produces)
        na = rng.range(0, 5)
        st = [score() if k < na else WORST for k in range(5)]
        out = score() if (na >= 4 and rng.chance(0.7)) else WORST
    else:                          # arbitrary pattern, stale exit score
        st = [score() if rng.chance(0.6) else WORST for _ in range(5)]
        out = WORST if rng.chance(0.5) else score()
    act = "".join("1" if x != WORST else "0" for x in st)
    stats["hmm5_active"][act] = stats["hmm5_active"].get(act, 0) + 1
    return "hmm5 " + " ".join(str(x) for x in tp + sen + st + [out]), (tp, sen, st, out)


def hmm5_ideal(tp, sen, st, out_old):
    """5-state max-plus step; None outside the hypotheses of C02_hmmStep5_eq_ideal"""
    M = 33023
    if any(x != WORST and x <= WORST + M for x in st):
        return None
    inv = ((st[1] != WORST or st[2] == WORST) and (st[2] != WORST or st[3] == WORST) and
           (st[3] != WORST or (st[4] == WORST and out_old == WORST)))
    if not inv:
        return None
    a = [None if x == WORST else x - sen[k] for k, x in enumerate(st)]

    def mx(*xs):
        xs = [x for x in xs if x is not None]
        return max(xs) if xs else None

    def add(k, j):
        return None if a[k] is None else a[k] - tp[k * 6 + j]
    return [add(0, 0), mx(add(1, 1), add(0, 1)), mx(add(2, 2), add(1, 2), add(0, 2)), mx(add(3, 3), add(2, 3), add(1, 3)),
            mx(add(4, 4), add(3, 4), add(2, 4)), mx(add(4, 5), add(3, 5))]


def gen_hist_op(rng, stats):
    pool = [0, 1, 2, 3, 31, 32, 33, 64, 100, 127]
    k = rng.range(1, 8)
    ents = []
    for t in range(k):
        rc = sorted({rng.choice(pool) for _ in range(rng.range(1, 4))})
        if rng.chance(0.03):
            rc = []
        ents.append((-rng.range(0, 6) * (1 if rng.chance(0.8) else 1000), rc, t + 1))
    stats["hist_sizes"][k] = stats["hist_sizes"].get(k, 0) + 1
    return f"hist {k} " + " ".join(f"{s} {','.join(map(str, rc)) if rc else '-'} {t}" for s, rc, t in ents), ents


def hist_lossless(ents, out_line):
    """the property on the implementation's output: for every phone the best score is preserved"""
    res = []
    for tok in out_line.split()[1:]:
        sc, rc, tag = tok.split(":")
        res.append((int(sc), [] if rc == "-" else [int(x) for x in rc.split(",")], int(tag)))
    for r in {x for _, rc, _ in ents for x in rc}:
        want = max(s for s, rc, _ in ents if r in rc)
        got = [s for s, rc, _ in res if r in rc]
        if not got or max(got) != want:
            return False, f"phone {r}: best {want} before, {max(got) if got else None} after"
    return True, None


def unit_correspondence(c, stats):
    binp = vlib.build_harness("h_c02ops")
    n = 4000 if c.tier == "quick" else 60000
    ops, meta = [], []
    for i in range(n):
        if i % 4 == 3:
            o, m = gen_hist_op(c.rng, stats)
            meta.append(("hist", m))
        elif i % 4 == 2:
            o, m = gen_hmm5_op(c.rng, stats)
            meta.append(("hmm5", m))
        else:
            o, m = gen_hmm_op(c.rng, stats)
            meta.append(("hmm", m))
        ops.append(o)
    text = "\n".join(ops) + "\n"
    rc, out, err = vlib.run_bin(binp, stdin_text=text)
    rc2, mout, merr = run_driver_retry(text, 600)
    lo, lm = out.rstrip("\n").split("\n"), mout.rstrip("\n").split("\n")
    ok = rc == 0 and rc2 == 0 and len(lo) == len(ops) and len(lm) == len(ops)
    bad = None
    ideal_checked = ideal5_checked = 0
    if ok:
        for i, (a, b) in enumerate(zip(lo, lm)):
            kind, m = meta[i]
            impl_wrong = None
            if kind == "hmm":
                ideal = hmm_ideal(*m)
                if ideal is not None:
                    ideal_checked += 1
                    got = [None if int(x) <= WORST else int(x) for x in a.split()[1:5]]
                    if got != ideal:
                        impl_wrong = f"hmm_vit_eval gives {got}, max-plus step gives {ideal}"
            elif kind == "hmm5":
                ideal = hmm5_ideal(*m)
                if ideal is not None:
                    ideal5_checked += 1
                    got = [None if int(x) <= WORST else int(x) for x in a.split()[1:7]]
                    if got != ideal:
                        impl_wrong = f"hmm_vit_eval (5-state) gives {got}, max-plus step gives {ideal}"
            else:
                good, why = hist_lossless(m, a)
                if not good:
                    impl_wrong = "history pruning lost a maximiser: " + why
            if a != b or impl_wrong:
                cand = {"op": ops[i], "implementation": a, "model": b, "implementation_violates_property": impl_wrong}
                if bad is None:
                    bad = cand
                if impl_wrong:          # prefer an op on which the implementation itself breaks the property
                    bad = cand
                    break
    c.oblige("unit correspondence: real hmm_vit_eval = hmmStep (3-state) / hmmStep5 (5-state) and real fsg_history_entry_add = HistDom.add on every generated op; "
             "the implementation's outputs satisfy the max-plus / lossless properties directly", ok and bad is None,
             bad or {"rc": rc, "rc2": rc2, "stderr": err[-600:], "lines": [len(lo), len(lm), len(ops)]})
    if bad:
        c.violation(dict(bad, kind="unit-correspondence", how_to_rerun="echo '<op>' | harness h_c02ops ; echo '<op>' | ssdriver c02"),
                    found_input=bool(bad["implementation_violates_property"]), tag="unit")
    stats["unit_ops"] = n
    stats["hmm_ideal_checked"] = ideal_checked
    stats["hmm5_ideal_checked"] = ideal5_checked
    return ok and bad is None


def check(c):
    c.trusted += ["tools/gen_consts.py (WORST_SCORE, SENSCR_SHIFT, TMAT_WORST_SCORE, word positions; compared again with the "
                  "values the harness was compiled with)",
                  "harness/h_c02.c (dump of search FSG, pronunciations, bin_mdef triphone map, tmat, recorded senone scores) + "
                  "tools/props/c02.py (generators, regime test, comparison)",
                  "SSVerif/Model/FlatNet.lean as the *definition* of a legal alignment (contexts, penalties, one null hop, "
                  "any right-context variant at the utterance end) — modelled from the code's documented intent, not verified against it",
                  "the acoustic scorer (senone scores taken as data); the triphone back-off is NOT taken as data any more (close6-c02): the legal "
                  "triphone of every (base, left, right, position) is computed by the Lean model Dict2pid.nearest (exact tree-walk look-ups on the "
                  "dumped cd_tree + back-off rule; the same model C16 ties to dict2pid) and its senone sequence feeds the optimum oracle; "
                  "trusted there: h_c16 mdefdump (dump of cd_tree / ssid table)",
                  "fsg_model.c (reader, null closure, silence/alternate arcs): the search FSG is dumped after them (C01/C05/C13 cover it)"]
    c.assumptions += ["compallsen=yes (with the default the per-frame normaliser depends on the active senone set and the "
                      "total is not a function of the frame scores alone — DESIGN D12)",
                      "fillers are single-phone words (true of every shipped noisedict; the driver reports fillerflags otherwise)",
                      "no-pruning regime = Beam.regime evaluated by the driver on the beam-annotated network with the beams the search "
                      "holds (proved to imply that the beam tests remove nothing: C02_wide_beams_prune_nothing) AND every finite score "
                      "> WORST_SCORE + 33023 AND skip-consistent transition matrices (hypotheses of C02_hmmStep_eq_ideal); outside it "
                      "only 'reported <= optimum' is required.  The beam model itself (Model/Beam.lean) is read from fsg_search.c and is "
                      "tied to it only through the equality it predicts",
                      "whole-utterance cases use the 3-state left-to-right topology of the shipped models; the 5-state evaluator is modelled (hmmStep5, C02_hmmStep5_eq_ideal) and tied by the unit correspondence only; hmm_vit_eval_anytopo is not modelled",
                      "utterance length T >= 1 wherever a length appears (Viterbi.viterbi / Alignment use T-1 on naturals, so T = 0 reads as T = 1; the search theorems of Props/C02Search carry 0 < T explicitly and every checked case has T >= 1)"]
    if not c.lean_obligations():
        return
    binp = vlib.build_harness("h_c02")
    dic, vocab, dictfile = {}, {}, {}
    for lang in LANGS:
        dic[lang] = load_dict(lang)
        vocab[lang] = pick_vocab(c.rng, dic[lang], (40 if c.tier == "quick" else 200) if lang == "en-us" else 25, lang)
        dictfile[lang] = c.scratch / f"c02-{lang}.dict"
    stats = {"shapes": {}, "verdicts": {}, "beams": {}, "frames": [], "states": [], "edges": [], "spread_max": 0,
             "audio": {}, "cfg": {}, "hmm_skip": {}, "hmm_active": {}, "hmm5_active": {}, "hist_sizes": {}, "langs": {}}
    unit_correspondence(c, stats)     # a divergence is recorded; the whole-utterance cases below still look for a failing input
    cases = []
    # corpus first
    for f in sorted((vlib.ROOT / "corpus" / "C02").glob("*.json")):
        obj = json.loads(f.read_text())
        case = obj["case"]
        case["id"] = "corpus-" + f.stem
        lang = case.setdefault("lang", "en-us")
        for b in {t[3] for t in case["trans"] if t[3]}:
            if b not in vocab[lang] and b in dic[lang]:
                vocab[lang].append(b)
        cases.append(case)
    for lang in LANGS:
        write_dict(dictfile[lang], dic[lang], vocab[lang])
    ncorp = len(cases)
    ngen = 150 if c.tier == "quick" else 3000
    for i in range(ngen):
        cases.append(gen_case(c.rng, dic["en-us"], vocab["en-us"], f"g{i}", c.tier))
    for i in range(20 if c.tier == "quick" else 300):      # second acoustic model / phone set / dictionary
        cases.append(gen_case(c.rng, dic["fr-fr"], vocab["fr-fr"], f"fr{i}", c.tier, lang="fr-fr"))
    # history family: the judged utterance is the 2nd-4th utterance on its decoder / search object (the clause 'reported score = optimum'
    # holds for every utterance of a decoder history, not only the first); drawn after the families above so that their cases are unchanged
    nhist = (30, 6) if c.tier == "quick" else (500, 60)
    for i in range(nhist[0]):
        cases.append(gen_history_case(c.rng, dic["en-us"], vocab["en-us"], f"hist{i}", c.tier))
    for i in range(nhist[1]):
        cases.append(gen_history_case(c.rng, dic["fr-fr"], vocab["fr-fr"], f"frhist{i}", c.tier, lang="fr-fr"))
    # close6-c02: adjacent words whose cross-word triphone the model definition lacks (run-time added words with rare boundary phones)
    nrare = {"fr-fr": 14, "en-us": 10} if c.tier == "quick" else {"fr-fr": 250, "en-us": 250}
    for lang in LANGS:
        ab = absent_triphones(binp, lang, dictfile[lang])
        stats.setdefault("absent_triphones", {})[lang] = {
            "phones": len(ab["names"]), "silence_phone_id": ab["sil"],
            "(b,l,r)_absent_at_every_word_position": sum(len(v) for v in ab["absent"].values())}
        for i in range(nrare[lang]):
            cases.append(gen_rare_case(c.rng, dic[lang], vocab[lang], f"rare{'fr' if lang == 'fr-fr' else ''}{i}", c.tier, lang, ab, stats))
    if c.tier == "thorough":
        for i in range(60):   # full recording, default and wide beams
            cases.append(gen_case(c.rng, dic["en-us"], vocab["en-us"], f"full{i}", c.tier, beams=("default" if i % 2 else "wide"), frames=278))
    # batches never mix acoustic models
    cases.sort(key=lambda cs: (not cs["id"].startswith("corpus"), cs.get("lang", "en-us") != "en-us"))
    allok, nontrivial, nviol, nfind, lexok, nlex = True, set(), 0, 0, True, 0
    searchok, nsearch = True, 0
    finishok = True
    backok, nback, backfirst = True, 0, None
    stats["search_tie"] = {"cover_certificates_checked": 0, "cases_compared": 0, "frames_compared": 0, "cases_outside_regime": 0, "history_entries": 0, "pnodes": 0}
    B = 30
    batches = []
    for cs in cases:
        if not batches or len(batches[-1]) >= B or batches[-1][0].get("lang", "en-us") != cs.get("lang", "en-us"):
            batches.append([])
        batches[-1].append(cs)
    for batch in batches:
        (rc, hs, err), (rc2, ms, merr) = run_cases(binp, dictfile, batch)
        if rc2 != 0:
            c.oblige("model driver runs", False, merr[-800:])
            return
        for case in batch:
            h, m = hs.get(case["id"]), ms.get(case["id"])
            if m and m.get("backoff_bad"):
                backok = False
                nback += 1
                backfirst = backfirst or {"case": case, "differing_triphones": m["backoff_bad"][:6]}
            kind, detail = verdict(case, h, m)
            stats["verdicts"][kind] = stats["verdicts"].get(kind, 0) + 1
            stats["shapes"][case["shape"]] = stats["shapes"].get(case["shape"], 0) + 1
            stats["beams"][case["beams"]] = stats["beams"].get(case["beams"], 0) + 1
            stats["audio"][case["audio"][0]] = stats["audio"].get(case["audio"][0], 0) + 1
            stats["langs"][case.get("lang", "en-us")] = stats["langs"].get(case.get("lang", "en-us"), 0) + 1
            for k in ("wip", "pip", "lw", "silprob", "fsgusefiller", "fsgusealtpron"):
                kv = f"{k}={case['cfg'].get(k)}"
                stats["cfg"][kv] = stats["cfg"].get(kv, 0) + 1
            pk = "none" if not case.get("probes") else ("before-finish" if case["probes"] == [-1] else
                                                        ("mid-utterance+before-finish" if -1 in case["probes"] else "mid-utterance"))
            stats.setdefault("result_queries_before_the_final_one", {})[pk] = stats.setdefault("result_queries_before_the_final_one", {}).get(pk, 0) + 1
            if h and h.get("pz") is not None:
                stats["finish_checks_(utterances_after_which_every_pnode_was_inspected)"] = stats.get("finish_checks_(utterances_after_which_every_pnode_was_inspected)", 0) + 1 + len(h.get("pre", []))
            if case.get("history"):
                hf = stats.setdefault("history_family", {"cases": 0, "earlier_utterances_per_case": {}, "frames_searched_in_earlier_utterances": {},
                                                         "earlier_utterance_kind": {}, "earlier_utterance_result": {}, "judged_verdicts": {},
                                                         "judged_beams": {}, "judged_in_no_pruning_regime": 0})
                hf["cases"] += 1
                nk = str(len(case["history"]))
                hf["earlier_utterances_per_case"][nk] = hf["earlier_utterances_per_case"].get(nk, 0) + 1
                for q in case["history"]:
                    hf["earlier_utterance_kind"][q[0]] = hf["earlier_utterance_kind"].get(q[0], 0) + 1
                for q in (h or {}).get("pre", []):
                    fk = str(q["frames"]) if q["frames"] <= 15 else ("16-60" if q["frames"] <= 60 else ">60")
                    hf["frames_searched_in_earlier_utterances"][fk] = hf["frames_searched_in_earlier_utterances"].get(fk, 0) + 1
                    rk_ = "no-result" if q["score"] is None else ("fillers-only" if q["hyp"] == "-" else "words")
                    hf["earlier_utterance_result"][rk_] = hf["earlier_utterance_result"].get(rk_, 0) + 1
                hf["judged_verdicts"][kind] = hf["judged_verdicts"].get(kind, 0) + 1
                hf["judged_beams"][case["beams"]] = hf["judged_beams"].get(case["beams"], 0) + 1
                if m and "error" not in m and in_regime(m):
                    hf["judged_in_no_pruning_regime"] += 1
            nn = sum(1 for t in case["trans"] if not t[3])
            stats["cfg"]["grammars_with_null_arcs"] = stats["cfg"].get("grammars_with_null_arcs", 0) + (1 if nn else 0)
            if m and "error" not in m:
                rk = f"{case['beams']}-beams/regime={bool(m.get('regime'))}"
                stats.setdefault("regime", {})[rk] = stats.setdefault("regime", {}).get(rk, 0) + 1
                stats["lextree_compared"] = stats.get("lextree_compared", 0) + (1 if "lextree" in m else 0)
                if m.get("lextree") is False and kind != "lextree-mismatch":
                    lexok = False
                stats["frames"].append(m["T"]); stats["states"].append(m["states"]); stats["edges"].append(m["edges"])
                sr = m.get("search")
                if sr and sr.get("cover") == "true" and sr.get("emagree") == "true":
                    stats["search_tie"]["cover_certificates_checked"] += 1
                if sr and all((sr.get("sidecond") or {}).get(k) == "true" for k in ("leafctx", "fillersingle", "ctxrange")):
                    stats["search_tie"]["side_conditions_hold"] = stats["search_tie"].get("side_conditions_hold", 0) + 1
                if sr and "error" not in sr and m["skipcons"] and (m["minval"] is None or m["minval"] > -536870912 + 33023) \
                        and (kind.startswith("ok") or kind in ("search-mismatch", "finding-partial")):
                    stats["search_tie"]["cases_compared_with_beams"] = stats["search_tie"].get("cases_compared_with_beams", 0) + 1
                    stats["search_tie"]["frames_compared_with_beams"] = stats["search_tie"].get("frames_compared_with_beams", 0) + len(sr.get("YB", []))
                    stats["search_tie"]["partial_results_compared"] = stats["search_tie"].get("partial_results_compared", 0) + len(sr.get("partial", []))
                    if sr.get("tablesagree"):
                        tk = "cases_where_pruning_removed_nothing_from_the_history_table_by_beams"
                        stats["search_tie"].setdefault(tk, {})[case["beams"]] = stats["search_tie"].setdefault(tk, {}).get(case["beams"], 0) + 1
                    bk = "pruned_cases_by_beams"
                    stats["search_tie"].setdefault(bk, {})[case["beams"]] = stats["search_tie"].setdefault(bk, {}).get(case["beams"], 0) + 1
                if sr and "error" not in sr and in_regime(m) and (kind.startswith("ok") or kind == "search-mismatch"):
                    st_ = stats["search_tie"]
                    st_["cases_compared"] += 1; st_["frames_compared"] += len(sr["Y"])
                    st_["history_entries"] += sr.get("entries", 0); st_["pnodes"] += sr.get("pnodes", 0)
                elif sr is not None:
                    stats["search_tie"]["cases_outside_regime"] += 1
                stats["spread_max"] = max(stats["spread_max"], m["spread"])
            if kind in ("ok-equal", "ok-le") and m["opt"] is not None:
                nontrivial.add((case["shape"], json.dumps(case["trans"]), json.dumps(case["audio"])))
            if len(c.samples) < 6 and kind.startswith("ok"):
                c.samples.append({"shape": case["shape"], "trans": case["trans"], "audio": case["audio"][:1] + case["audio"][-2:],
                                  "cfg": case["cfg"], "c_score": h["score"], "optimum": m["opt"], "verdict": kind,
                                  "alignment": m["align"]})
            if kind.startswith("ok"):
                continue
            if kind == "lextree-mismatch":
                lexok = False
                if nlex < 1:
                    report(c, binp, dictfile, dic, vocab, case, kind, detail)
                nlex += 1
                continue
            if kind == "search-mismatch":
                if isinstance(detail, dict) and "pnodes_not_cleared" in detail:
                    finishok = False
                else:
                    searchok = False
                if nsearch < 1:
                    report(c, binp, dictfile, dic, vocab, case, kind, detail)
                nsearch += 1
                continue
            if kind == "finding-partial":
                if not is_known(KEY_PARTIAL):
                    allok = False
                if nfind < 1:
                    report(c, binp, dictfile, dic, vocab, case, kind, detail, finding_key=KEY_PARTIAL)
                nfind += 1
                continue
            allok = False
            if kind in ("harness-error", "model-error"):
                # a sanitizer report / assert inside the library or a dump the model cannot read: never ignored
                c.oblige(f"case {case['id']} ran ({kind})", False, {"detail": detail, "case": case, "rc": rc, "stderr": err[-1500:]})
                c.violation({"kind": kind, "detail": detail, "case": case, "exit_code": rc, "stderr_tail": err[-1500:]},
                            found_input=(kind == "harness-error" and rc != 0), tag="error")
                nviol += 1
            elif nviol < 3:
                report(c, binp, dictfile, dic, vocab, case, kind, detail)
                nviol += 1
        if nviol >= 3:
            break
    c.oblige("structural correspondence: the unshared root-to-leaf paths of the real lextree (arc, left/right context, presented "
             "phones, per-phone ssid / tmat / entry penalty) = the HMM instances of the model's flat network, on every case",
             lexok, {"cases_compared": stats.get("lextree_compared", 0), "mismatching_cases": nlex})
    c.oblige("token-passing correspondence: in the no-pruning regime the unpruned scoring model of fsg_search_start / fsg_search_step / "
             "fsg_search_find_exit (SearchScore, theorem C02_unpruned_search_is_tree_dp) reproduces every frame of the real search "
             "(bestscore, active HMMs and all their state/exit scores, word-exit and null-arc history entries per right context) and its result; "
             "on EVERY case (any beams, inside or outside the no-pruning regime) the scoring model run WITH the search's beams (searchFrameBeam) "
             "reproduces every frame of the real pruned search and its result; the two decidable side conditions of the certificate-free theorem "
             "C02_unpruned_search_is_dp (Props/C02Cover.lean: lextree-network optimum = flat-network optimum for the lextree buildLexTree builds, for every FSG / "
             "dictionary / tables with lexHypsB) hold on every case: fillerSingleB and ctxRangeB on the model (fillerSingleB is necessary for the code as it is: "
             "defect D110); leafCtxB, which is proved for buildLexTree (leafCtxB_build), also holds on the real lextree; and, as a cross-check only, the per-case "
             "cover certificate coverB / emAgreeB (C02_unpruned_search_is_dp_partial) is still found and accepted on the real lextree",
             searchok, dict(stats["search_tie"], mismatching_cases=nsearch))
    c.oblige("end-of-utterance correspondence: after fsg_search_finish of EVERY utterance the check ran (the 1-3 earlier utterances of the history "
             "family — 0 frames, every length around the phone-entry frames, cut mid-word, noise, normal — and every judged utterance) every pnode "
             "HMM of the real lextree is in the state hmm_clear() leaves and both active lists are empty: the conclusion of "
             "C02_finish_clears_every_hmm / C02_finish_restores_initial / C02_kth_utterance_runs_as_first (Props/C02Finish.lean: for every history of "
             "utterances the next one runs frame for frame like runSearchBeam on a fresh object) evaluated on the real search object; the judged "
             "utterance of every history case is then compared frame by frame with the scoring model started from the cleared state and judged by "
             "the exact-optimum oracle", finishok,
             {"utterances_inspected": stats.get("finish_checks_(utterances_after_which_every_pnode_was_inspected)", 0),
              "history_family": stats.get("history_family", {})})
    c.oblige("back-off = model: on every case, for every (base, left, right, word position) the flat network needs, pid2ssid(bin_mdef_phone_id_nearest) "
             "of the real code = the senone sequence of the Lean model Dict2pid.nearest (exact tree-walk look-ups on the dumped cd_tree, other word positions "
             "0..3, silence contexts, CI phone); the optimum oracle below uses the MODEL's value", backok,
             dict(BACKOFF_STATS, cases_with_a_difference=nback, first=backfirst))
    if not backok and not c.violations:
        c.violation({"kind": "bin_mdef_phone_id_nearest vs model (no score violation exhibited)", **(backfirst or {})}, False, tag="backoff")
    c.oblige("oracle on the implementation: reported score = model optimum in the no-pruning regime, <= optimum otherwise, "
             "on every corpus and generated case", allok, stats["verdicts"])

    def hist(xs):
        xs = sorted(xs)
        return {"min": xs[0], "median": xs[len(xs) // 2], "max": xs[-1]} if xs else {}
    c.cov.update({"evaluations": sum(stats["verdicts"].values()), "distinct_nontrivial": len(nontrivial),
                  "rule": "distinct (grammar, audio excerpt) pairs for which both the search and the model found a finite score "
                          "and the comparison was made (equality in the no-pruning regime, <= otherwise)",
                  "corpus_cases": ncorp, "verdicts": stats["verdicts"], "grammar_shapes": stats["shapes"], "beams": stats["beams"],
                  "audio_kinds": stats["audio"], "config_values": stats["cfg"], "frames": hist(stats["frames"]), "network_states": hist(stats["states"]),
                  "network_edges": hist(stats["edges"]), "max_score_spread_vs_beam": [stats["spread_max"], 524288],
                  "no_pruning_regime_by_beams": stats.get("regime", {}),
                  "lextree_structures_compared": stats.get("lextree_compared", 0),
                  "token_passing_tie": stats["search_tie"],
                  "result_queries_before_the_final_one": stats.get("result_queries_before_the_final_one", {}),
                  "history_family": stats.get("history_family", {}),
                  "finish_checks_(utterances_after_which_every_pnode_was_inspected)": stats.get("finish_checks_(utterances_after_which_every_pnode_was_inspected)", 0),
                  "vocabulary_size": {k: len(v) for k, v in vocab.items()}, "acoustic_models": stats["langs"],
                  "triphone_back_off_vs_model": dict(BACKOFF_STATS), "rare_boundary_family": stats.get("rare_boundary_family", {}),
                  "absent_triphones_per_model": stats.get("absent_triphones", {}),
                  "unit_ops": stats.get("unit_ops"), "hmm_ops_also_checked_against_max_plus": stats.get("hmm_ideal_checked"),
                  "hmm_skip_flags_(0->2,1->3)": {str(k): v for k, v in stats["hmm_skip"].items()},
                  "hmm_active_states_(0,1,2)": {str(k): v for k, v in stats["hmm_active"].items()},
                  "hmm5_ops_also_checked_against_max_plus": stats.get("hmm5_ideal_checked"),
                  "hmm5_active_states_(0..4)": stats["hmm5_active"],
                  "hist_list_lengths": {str(k): v for k, v in stats["hist_sizes"].items()},
                  "model_branches_not_hit_by_whole_utterance_cases": [
                      "skip transitions 0->2 / 1->3 of hmmStep and hmmEdges (the shipped transition matrices have none; "
                      "exercised by the direct hmm_vit_eval correspondence only)"]})


def replay(c, path):
    c.lean_obligations()
    binp = vlib.build_harness("h_c02")
    obj = json.loads(open(path).read())
    case = obj["case"]
    lang = case.setdefault("lang", "en-us")
    dic = load_dict(lang)
    vocab = obj.get("vocab") or sorted({t[3] for t in case["trans"] if t[3]} | ({"go"} if lang == "en-us" else {"de"}))
    dictfile = c.scratch / "c02.dict"
    write_dict(dictfile, dic, vocab)
    (rc, hs, err), (rc2, ms, _) = run_cases(binp, dictfile, [case])
    h, m = hs.get(case["id"]), ms.get(case["id"])
    kind, detail = verdict(case, h, m)
    vlib.log(f"[C02] replay verdict: {kind} {detail}; C score {h and h['score']} model optimum {m and m.get('opt')}")
    ok = kind.startswith("ok")
    known = kind == "finding-partial" and is_known(KEY_PARTIAL)
    c.oblige("replayed case satisfies the property (or is exactly the listed known finding)", ok or known, detail)
    if not ok:
        c.violation({"kind": kind, "what": detail, "case": case, "c_score": h and h["score"], "model_optimum": m and m.get("opt"),
                     "model_optimal_alignment": m and m.get("align"), "c_hyp": h and h["hyp"], "c_segments": h and h["segs"],
                     "c_exit_frame": h and h["exit_frame"]},
                    found_input=kind.startswith("violation") or kind.startswith("finding"),
                    finding_key=KEY_PARTIAL if kind == "finding-partial" else None)
    c.cov.update({"evaluations": 1, "distinct_nontrivial": 1})
