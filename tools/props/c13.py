"""C13 — grammar transformations and FSG files preserve the grammar.

Lean: SSVerif/Props/C13.lean (null closure / add_silence / add_alt preserve the real-word language and
the best log-probability for every FSG; idempotence; termination bound; token-level write/read
round trip).  Tie: random FSGs built through the real C API (ASan/UBSan) and through the model's
own definitions (ssdriver c13), arcs compared exactly as multisets.  Oracle (implementation side):
verified NFA-equivalence (`nfaEquiv_sound`) and max-plus best-path comparison between what the C
code returned before and after each transformation; write -> read round trip evaluated on the C
output (structure exact, probabilities to the printed precision).
"""
import json, math, re, struct
import vlib

MDEF = str(vlib.REPO / "model" / "en-us" / "mdef")
LN_BASE = math.log(1.0001)

REAL = ["a", "b", "c", "dd", "e"]
ALTS = ["a(2)", "a(3)", "b(2)", "dd(2)"]
FILL = ["<sil>", "++noise++", "[um]"]
FILL_ALT = ["<sil>(2)"]
# labels that differ only in letter case, or only in a non-ASCII byte: the vocabulary is byte-exact
CASEVAR = [("Polish", "polish"), ("US", "us"), ("Go", "go"), ("caf\u00e9", "CAF\u00e9"), ("caf\u00e9", "caf\u00c9"), ("a", "A")]


# ----------------------------------------------------------------------------- helpers

def hx(s):
    return s.encode().hex() if s else "-"


def unhx(h):
    return "" if h == "-" else bytes.fromhex(h).decode(errors="replace")


def basestr(w):
    """dict_word2basestr"""
    if w.endswith(")"):
        i = len(w) - 2
        while i > 0 and w[i] != "(":
            i -= 1
        if i > 0:
            return w[:i]
    return w


def is_filler_name(w):
    return basestr(w)[:1] in "<+["


def f32(x):
    return struct.unpack("f", struct.pack("f", x))[0]


def arcs_order_ok(arcpart):
    """fsg_model_arcs order as the writer relies on it: states ascending (the harness loops over the states),
    and per state every word arc before every null arc"""
    if arcpart in ("-", ""):
        return True
    arcs = [tuple(int(x) for x in a.split(":")) for a in arcpart.split(",")]
    last_src, seen_null = -1, False
    for (a, b, lp, w) in arcs:
        if a < last_src:
            return False
        if a != last_src:
            last_src, seen_null = a, False
        if w < 0:
            seen_null = True
        elif seen_null:
            return False
    return True


def parse_dump(line):
    """`fsg n s f | arcs … | vocab … | sil … | alt …` -> dict with sorted arcs"""
    parts = [p.strip() for p in line.split("|")]
    if len(parts) != 5 or not parts[0].startswith("fsg "):
        return None
    n, s, f = (int(x) for x in parts[0].split()[1:4])

    def lst(p, key):
        body = p[len(key):].strip()
        return [] if body == "-" or body == "" else body.split(",")
    arcs = sorted(tuple(int(x) for x in a.split(":")) for a in lst(parts[1], "arcs"))
    return {"n": n, "start": s, "final": f, "arcs": arcs,
            "vocab": [unhx(h) for h in lst(parts[2], "vocab")],
            "sil": sorted(int(x) for x in lst(parts[3], "sil")),
            "alt": sorted(int(x) for x in lst(parts[4], "alt"))}


def lex(text):
    """the lexer the reader sits on: lines, comment lines (first character '#'), tokens"""
    lines = []
    for ln in text.split("\n"):
        if ln.startswith("#"):
            continue
        lines.append(ln.split())
    return lines


def enc_lines(lines):
    return ",".join("/".join(hx(t) for t in toks) for toks in lines) if lines else "-"


def dec_lines(s):
    if s == "-":
        return []
    return [[unhx(t) for t in ln.split("/")] if ln else [] for ln in s.split(",")]


def canon_text(lines):
    """header lines in order, transition lines sorted"""
    head = [l for l in lines if not (l and l[0] == "TRANSITION")]
    tr = sorted(l for l in lines if l and l[0] == "TRANSITION")
    return head, tr


def arcs_str(arcs):
    return ",".join(":".join(str(x) for x in a) for a in arcs) if arcs else "-"


# ----------------------------------------------------------------------------- generator

def rand_logp(rng, lw, stats):
    k = rng.weighted([("zero", 8), ("small", 45), ("mid", 25), ("big", 12), ("tiny", 6), ("edge", 4)])
    stats["logp_kinds"][k] = stats["logp_kinds"].get(k, 0) + 1
    if k == "zero":
        return 0
    if k == "small":
        return -rng.range(1, 30)
    if k == "mid":
        return -rng.range(30, 20000)
    if k == "big":
        return -rng.range(20000, int(140000 * lw))
    if k == "tiny":  # probability below the precision of "%f" (5e-7) but inside float32's normal range
        return -rng.range(int(146000 * lw) + 1, int(860000 * lw))
    return -rng.choice([int(145000 * lw), int(145090 * lw), int(138150 * lw), int(870000 * lw)])


def gen_case(rng, tier, stats, allow_tiny=True, want_dict=None):
    big = tier == "thorough" and rng.chance(0.15)
    n = rng.choice([1, 2, 3, 3, 4, 4, 5, 6, 8]) if not big else rng.range(9, 24)
    start, final = rng.below(n), rng.below(n)
    lws = rng.choice(["1.0", "1.0", "1.0", "6.5", "9.5", "0.5", "2.0", "7.5"])
    lw = float(lws)
    name = rng.choice(["-", "g", "my_fsg", "<x>.y", "g", "fsg7"])
    stats["lw"][lws] = stats["lw"].get(lws, 0) + 1
    stats["states"][n] = stats["states"].get(n, 0) + 1
    ops = [f"new {n} {start} {final} {hx(name) if name != '-' else '-'} {lws}"]
    vocab = []

    def wid(w):
        if w not in vocab:
            vocab.append(w)
            ops.append(f"word {hx(w)}")
        return vocab.index(w)
    pool = list(REAL[:rng.range(1, len(REAL))])
    if rng.chance(0.3):
        pool += [rng.choice(ALTS)]
    if rng.chance(0.25):
        pool += [rng.choice(FILL + FILL_ALT)]
    casepair = rng.choice(CASEVAR) if rng.chance(0.35) else None
    if casepair:
        pool += list(casepair)
        stats["branches"]["case_variant_words"] = stats["branches"].get("case_variant_words", 0) + 1

    def lp():
        v = rand_logp(rng, lw, stats)
        if not allow_tiny and v < -int(140000 * lw):
            v = -rng.range(0, 5000)
        return v
    satcase = rng.chance(0.08)   # null arcs at and around log-zero: the closure's saturating sum (D51)
    if satcase:
        stats["branches"]["log_zero_nulls"] = stats["branches"].get("log_zero_nulls", 0) + 1

    def nlp():
        if satcase and rng.chance(0.5):
            return rng.choice([-536870912, -536870911, -300000000, -268435456, -268435457, -400000000, -178956971])
        v = lp()
        if v < -int(140000 * lw) and rng.chance(0.8):
            v = -rng.range(0, 60)
        return v
    if rng.chance(0.15):
        wid("unused")   # a vocabulary word without arcs: add_alt copies nothing
    narcs = rng.range(0, 3 * n + 4) if not big else rng.range(n, 4 * n)
    nullw = rng.choice([20, 35, 50, 70])
    for _ in range(narcs):
        kind = rng.weighted([("trans", 100 - nullw), ("null", nullw)])
        a, b = rng.below(n), rng.below(n)
        if kind == "trans":
            if rng.chance(0.15):
                b = a
                stats["branches"]["word_selfloop"] += 1
            ops.append(f"trans {a} {b} {lp()} {wid(rng.choice(pool))}")
            if rng.chance(0.2):  # duplicate label between the same states: higher / lower / equal
                stats["branches"]["dup_trans"] += 1
                ops.append(f"trans {a} {b} {lp()} {wid(rng.choice(pool))}")
        else:
            if rng.chance(0.1):
                b = a
                stats["branches"]["null_selfloop"] += 1
            ops.append(f"null {a} {b} {nlp()}")
            if rng.chance(0.2):
                stats["branches"]["dup_null"] += 1
                ops.append(f"null {a} {b} {nlp()}")
    if casepair:   # parallel arcs between the same two states labelled with the two spellings, different probabilities
        for _ in range(rng.range(1, 2)):
            a, b = rng.below(n), rng.below(n)
            ops.append(f"trans {a} {b} {-rng.range(1, 400)} {wid(casepair[0])}")
            ops.append(f"trans {a} {b} {-rng.range(401, 900)} {wid(casepair[1])}")
    if rng.chance(0.45) and n >= 2:  # explicit null chain, sometimes closed into a cycle
        ln = rng.range(2, min(n, 7 if not big else 20))
        sts = list(range(n))
        rng.shuffle(sts)
        ch = sts[:ln]
        for i in range(len(ch) - 1):
            ops.append(f"null {ch[i]} {ch[i + 1]} {-rng.range(0, 40)}")
        stats["branches"]["null_chain"] += 1
        stats["max_chain"] = max(stats["max_chain"], ln)
        if rng.chance(0.5):
            ops.append(f"null {ch[-1]} {ch[0]} {-rng.range(0, 40)}")
            stats["branches"]["null_cycle"] += 1
    ops.append("dump")
    # transformation phases in random order
    phases = []
    if rng.chance(0.85):
        phases.append("closure")
    if rng.chance(0.7):
        phases.append("silence")
    if rng.chance(0.6):
        phases.append("alt")
    if rng.chance(0.25) or want_dict:
        phases.append("search")
    rng.shuffle(phases)
    if rng.chance(0.3):
        phases.append(rng.choice(["closure", "silence", "alt"]))
    for ph in phases:
        stats["phases"][ph] = stats["phases"].get(ph, 0) + 1
        if ph == "closure":
            ops += ["closure", "dump", "closure", "dump"]
        elif ph == "silence":
            w = rng.choice(FILL)
            p = rng.choice(["0.005", "1e-8", "0.1", "1.0", "0.5", "3e-5"])
            st = "-1" if rng.chance(0.7) else str(rng.below(n))
            ops += [f"silence {hx(w)} {st} {p}", "dump", f"silence {hx(w)} {st} {p}", "dump"]
            if w not in vocab:
                vocab.append(w)
            if rng.chance(0.3):  # another filler, other probability; or the same word with a higher/lower one
                w2 = rng.choice(FILL)
                ops += [f"silence {hx(w2)} -1 {rng.choice(['0.2', '1e-4', '0.005'])}", "dump"]
                if w2 not in vocab:
                    vocab.append(w2)
        elif ph == "alt":
            for _ in range(rng.range(1, 3)):
                if rng.chance(0.8) and vocab:
                    b = rng.choice(vocab)
                else:
                    b = rng.choice(REAL + FILL)  # possibly not in the vocabulary: returns -1
                a = basestr(b) + f"({rng.range(2, 4)})"
                ops += [f"alt {hx(b)} {hx(a)}", "dump"]
                if b in vocab and a not in vocab:
                    vocab.append(a)
                stats["branches"]["alt_base_missing" if b not in vocab else "alt_ok"] += 1
            if rng.chance(0.3) and vocab:  # arcs added after alternates exist: first-duplicate update order
                a, b = rng.below(n), rng.below(n)
                w = rng.below(len(vocab))
                ops += [f"trans {a} {b} {lp()} {w}", f"trans {a} {b} {lp()} {w}", "dump"]
        elif ph == "search":
            main = [w for w in vocab if not is_filler_name(w) and basestr(w) == w]
            extra = [w for w in REAL if w not in main and rng.chance(0.4)]
            dl = []
            for w in main + extra:
                dl.append(f"{w} AH")
            alts = []
            for w in main + extra:
                for k in range(2, 2 + rng.below(3)):
                    alts.append(f"{w}({k}) AH B")
            rng.shuffle(alts)
            # alternates come after their base words, in shuffled order
            dl += alts
            fl = [f"{w} +NSN+" for w in FILL[1:] if rng.chance(0.7)]
            if rng.chance(0.5):
                fl.insert(rng.below(len(fl) + 1), "<sil> SIL")
            dtext = "\n".join(dl) + "\n" if dl else ""
            ftext = "\n".join(fl) + "\n" if fl else ""
            ops += [f"dict {hx(dtext)} {hx(ftext)}",
                    f"addsilences {rng.choice(['0.005', '0.1', '1e-8'])} {rng.choice(['1e-8', '0.01', '0.2'])}", "dump",
                    "addaltpron", "dump"]
    if rng.chance(0.75):
        ops += ["write", f"reread {lws}", "dump"]
        if rng.chance(0.6):
            ops += ["closure", "dump"]
        stats["phases"]["roundtrip"] = stats["phases"].get("roundtrip", 0) + 1
    return ops


def gen_read_case(rng, stats):
    """a hand-assembled FSG text: keyword abbreviations, comments, junk lines, duplicates, errors"""
    n = rng.range(1, 5)
    lws = rng.choice(["1.0", "6.5", "2.0"])
    err = rng.weighted([("none", 55), ("nobegin", 3), ("noname", 3), ("non", 3), ("badn", 3), ("nostart", 3),
                        ("badstart", 4), ("nofinal", 3), ("badfinal", 4), ("nofrom", 3), ("badfrom", 4),
                        ("noto", 3), ("badto", 4), ("noprob", 3), ("badprob", 6)])
    stats["read_kinds"][err] = stats["read_kinds"].get(err, 0) + 1
    L = []
    if rng.chance(0.3):
        L.append("# a comment")
    if rng.chance(0.2):
        L.append("")
    if err != "nobegin":
        L.append(rng.choice(["FSG_BEGIN", "FSG_B", "FSG_BEGIN"]) + ("" if err == "noname" else " gram" + (" extra" if rng.chance(0.1) else "")))
    if rng.chance(0.2):
        L.append("junk line 1 2 3")
    if err != "non":
        L.append(rng.choice(["NUM_STATES", "N", "NUM_S"]) + " " + ("x3" if err == "badn" else rng.choice([str(n), f"+{n}", f"0{n}", f"{n}q"])))
    if err != "nostart":
        L.append(rng.choice(["START_STATE", "S", "START"]) + " " + (rng.choice([str(n), "-1", "s"]) if err == "badstart" else str(rng.below(n))))
    if rng.chance(0.2):
        L.append("# another comment")
    if err != "nofinal":
        L.append(rng.choice(["FINAL_STATE", "F", "FINAL_ST"]) + " " + (rng.choice([str(n + 3), "-2", "?"]) if err == "badfinal" else str(rng.below(n))))
    words = ["a", "b", "a(2)", "<sil>", "c", "A", "B", "Go", "go", "caf\u00e9", "caf\u00c9"]
    nt = rng.range(0, 8)
    bad_at = rng.below(nt + 1)
    for i in range(nt + 1):
        kw = rng.choice(["TRANSITION", "T", "TRANS", "TRANSITION"])
        a, b = rng.below(n), rng.below(n)
        p = rng.choice(["1.0", "1", "0.5", "0.25", "1e-3", ".5", "5e-1", "0.000001", "0.9999", "0.0000001", "1e-30"])
        w = rng.choice(words + ["", "", ""])
        if i == bad_at and err in ("nofrom", "badfrom", "noto", "badto", "noprob", "badprob"):
            if err == "nofrom":
                L.append(kw)
            elif err == "badfrom":
                L.append(f"{kw} {rng.choice([str(n), '-1', 'z'])} {b} {p} {w}")
            elif err == "noto":
                L.append(f"{kw} {a}")
            elif err == "badto":
                L.append(f"{kw} {a} {rng.choice([str(n + 1), '-3', 'to'])} {p} {w}")
            elif err == "noprob":
                L.append(f"{kw} {a} {b}")
            else:
                L.append(f"{kw} {a} {b} {rng.choice(['0', '0.0', '-0.5', '1.5', 'abc', '2', '1.0001', '0.0000000'])} {w}")
        else:
            L.append(f"{kw} {a} {b} {p} {w}".rstrip() + (" trailing tokens" if w and rng.chance(0.1) else ""))
        if rng.chance(0.1):
            L.append(rng.choice(["", "# c", "X 1 2", "PROB 0.5"]))
    if rng.chance(0.8):
        L.append(rng.choice(["FSG_END", "FSG_E", "FSG_END"]))
        if rng.chance(0.3):
            L.append("TRANSITION 0 0 0.5 ignored_after_end")
    text = "\n".join(L) + "\n"
    return [f"new 1 0 0 - {lws}", f"read {hx(text)} {lws}", "dump", "closure", "dump"]


# ----------------------------------------------------------------------------- execution

class CaseRun:
    pass


def case_lw(case):
    return case[0].split()[5]


def run_harness(binp, cases, timeout=900):
    flat = [op for case in cases for op in case]
    rc, out, err = vlib.run_bin(binp, args=[MDEF], stdin_text="\n".join(flat) + "\n", timeout=timeout)
    lines = out.split("\n")
    if lines and lines[-1] == "":
        lines.pop()
    return rc, lines, err, flat


def run_parsep(binp, toks_by_lw):
    ops, keys = [], []
    for lw, toks in toks_by_lw.items():
        for t in sorted(toks):
            ops.append(f"parsep {hx(t)} {lw}")
            keys.append((lw, t))
    if not ops:
        return {}
    rc, out, err = vlib.run_bin(binp, args=[MDEF], stdin_text="\n".join(ops) + "\n")
    res = out.split("\n")
    tab = {}
    for k, r in zip(keys, res):
        tab[k] = None if r.strip() == "err" else int(r.split()[1])
    return tab


def dict_info(hline):
    """`v n_word filler_start filler_end words` -> (fillers visited by fsg_search_add_silences, altsOf)"""
    p = hline.split()
    nw, fs, fe = int(p[1]), int(p[2]), int(p[3])
    words = [unhx(h) for h in p[4].split(",")]
    fillers = [w for w in words[fs:fe] if w not in ("<s>", "</s>")]
    nxt = {}
    for i, w in enumerate(words):
        b = basestr(w)
        if b != w and b in words[:i]:
            bi = words.index(b)
            nxt[i] = nxt.get(bi)
            nxt[bi] = i

    def alts_of(w):
        if w not in words:
            return []
        r, i = [], nxt.get(words.index(w))
        while i is not None:
            r.append(words[i])
            i = nxt.get(i)
        return r
    return fillers, alts_of


def relabel(d1, d2):
    """common label ids by word string over both vocabularies; fillers and alternate->base pairs by name"""
    ids = {}

    def idof(w):
        if w not in ids:
            ids[w] = len(ids)
        return ids[w]
    out = []
    for d in (d1, d2):
        arcs = []
        for (a, b, lp, w) in d["arcs"]:
            arcs.append((a, b, lp, -1 if w < 0 else idof(d["vocab"][w] if w < len(d["vocab"]) else f"?{w}")))
        out.append(arcs)
    fillers = [i for w, i in list(ids.items()) if is_filler_name(w)]
    bases = []
    for w, i in list(ids.items()):
        b = basestr(w)
        if b != w:
            bases.append((i, idof(b)))
    return out[0], out[1], fillers, bases, {i: w for w, i in ids.items()}


def oracle_lines(d1, d2, blen):
    a1, a2, fillers, bases, names = relabel(d1, d2)
    fl = ",".join(str(x) for x in fillers) if fillers else "-"
    bs = ",".join(f"{a}:{b}" for a, b in bases) if bases else "-"
    g1 = f"{d1['n']} {d1['start']} {d1['final']} {arcs_str(a1)}"
    g2 = f"{d2['n']} {d2['start']} {d2['final']} {arcs_str(a2)}"
    return [f"nfaeq {fl} {bs} {g1} {g2}", f"besteq {blen} {fl} {bs} {g1} {g2}"], names


def nosat(d, z):
    """no simple null path of the grammar weighs less than z (all-pairs max-plus over the null arcs)"""
    best = {}
    nodes = set()
    for (a, b, lp, w) in d["arcs"]:
        if w < 0 and a != b:
            best[(a, b)] = max(best.get((a, b), lp), lp)
            nodes |= {a, b}
    for k in nodes:
        for i in nodes:
            if (i, k) not in best:
                continue
            for j in nodes:
                if (k, j) in best and i != j:
                    v = best[(i, k)] + best[(k, j)]
                    if v > best.get((i, j), v - 1):
                        best[(i, j)] = v
    return all(v >= z for v in best.values())


def py_best(d, sent):
    """independent max-plus best path (Bellman-Ford over null arcs), for cross-checking the driver's bestLogProb"""
    n = max([d["n"], d["start"] + 1, d["final"] + 1] + [max(a, b) + 1 for (a, b, _, _) in d["arcs"]])
    NEG = None

    def close(v):
        for _ in range(n):
            ch = False
            for (a, b, lp, w) in d["arcs"]:
                if w < 0 and v[a] is not None and (v[b] is None or v[a] + lp > v[b]):
                    v[b] = v[a] + lp
                    ch = True
            if not ch:
                break
        return v
    v = [NEG] * n
    v[d["start"]] = 0
    v = close(v)
    for x in sent:
        nv = [NEG] * n
        for (a, b, lp, w) in d["arcs"]:
            if w == x and v[a] is not None and (nv[b] is None or v[a] + lp > nv[b]):
                nv[b] = v[a] + lp
        v = close(nv)
    return v[d["final"]]


def single_hop(d):
    """the grammar as the search uses a closed grammar: at most ONE null arc between two words (and before the first /
    after the last).  States (q, 0) = 2q and (q, 1) = 2q + 1 ("a null arc was just taken"), fresh final state."""
    N = max([d["n"], d["start"] + 1, d["final"] + 1] + [max(a, b) + 1 for (a, b, _, _) in d["arcs"]])
    arcs = []
    for (a, b, lp, w) in d["arcs"]:
        if w < 0:
            arcs.append((2 * a, 2 * b + 1, lp, -1))
        else:
            arcs += [(2 * a, 2 * b, lp, w), (2 * a + 1, 2 * b, lp, w)]
    F = 2 * N
    arcs += [(2 * d["final"], F, 0, -1), (2 * d["final"] + 1, F, 0, -1)]
    return {"n": F + 1, "start": 2 * d["start"], "final": F, "arcs": arcs, "vocab": d["vocab"], "sil": d["sil"], "alt": d["alt"]}


def not_closed(d, z):
    """pairs of consecutive null arcs a->b->c (a != c) whose composition is not dominated by a null arc a->c"""
    nul = {}
    for (a, b, lp, w) in d["arcs"]:
        if w < 0:
            nul[(a, b)] = max(nul.get((a, b), lp), lp)
    bad = []
    for (a, b), l1 in nul.items():
        for (b2, c_), l2 in nul.items():
            if b2 == b and a != c_:
                want = max(l1 + l2, z)
                if nul.get((a, c_), want - 1) < want:
                    bad.append({"a": a, "b": b, "c": c_, "sum": l1 + l2, "have": nul.get((a, c_))})
    return bad


TRANSFORMS = ("closure", "silence", "alt", "addsilences", "addaltpron", "dict")


def null_reach(d):
    """pairs (a, c), a != c, joined by a path of >= 1 null arcs"""
    adj = {}
    for (a, b, lp, w) in d["arcs"]:
        if w < 0:
            adj.setdefault(a, set()).add(b)
    res = set()
    for a in adj:
        seen, todo = set(), list(adj[a])
        while todo:
            x = todo.pop()
            if x in seen:
                continue
            seen.add(x)
            todo += list(adj.get(x, ()))
        res |= {(a, c) for c in seen if c != a}
    return res


def tok_precision(tok):
    """half a unit of the last printed digit of a decimal token"""
    m = re.fullmatch(r"[+-]?(\d*)(?:\.(\d*))?(?:[eE]([+-]?\d+))?", tok)
    if not m:
        return None
    frac = len(m.group(2) or "")
    ex = int(m.group(3) or 0)
    return 0.5 * 10.0 ** (ex - frac)


def roundtrip_oracle(d0, wline, reread, d1, lws, ptab):
    """the property evaluated on what the C code wrote and read back; returns (problems, finding_key)"""
    probs = []
    lw = float(lws)
    hexpart, arcpart = [x.strip() for x in wline[len("wtext "):].split("|")]
    text = bytes.fromhex(hexpart).decode(errors="replace") if hexpart != "-" else ""
    lines = lex(text)
    tr = [l for l in lines if l and l[0] == "TRANSITION"]
    arcs = [] if arcpart == "-" else [tuple(int(x) for x in a.split(":")) for a in arcpart.split(",")]
    # the writer itself: one line per arc, states/word/probability of that arc
    if len(tr) != len(arcs):
        probs.append(f"writer printed {len(tr)} transitions for {len(arcs)} arcs")
    lw32 = f32(lw)
    key = None
    for l, (a, b, lp, w) in zip(tr, arcs):
        word = d0["vocab"][w] if 0 <= w < len(d0["vocab"]) else None
        if l[1:3] != [str(a), str(b)] or (l[4:] != ([word] if word else [])):
            probs.append(f"line {l} does not describe arc {(a, b, lp, word)}")
            continue
        try:
            pv = float(l[3])
        except ValueError:
            probs.append(f"unparsable probability in {l}")
            continue
        p = math.exp(lp / lw32 * LN_BASE)
        prec = tok_precision(l[3]) or 0.0
        if abs(pv - p) > prec * 1.0001 + p * 2.2e-4:
            probs.append(f"arc {(a, b, lp, word)} (p={p:.9g}) printed as {l[3]}")
    head = [l for l in lines if l and l[0] != "TRANSITION"]
    exp_head = [["FSG_BEGIN"], ["NUM_STATES", str(d0["n"])], ["START_STATE", str(d0["start"])],
                ["FINAL_STATE", str(d0["final"])], ["FSG_END"]]
    if [h[:1] + (h[1:2] if h[0] != "FSG_BEGIN" else []) for h in head] != exp_head:
        probs.append(f"header/footer lines {head}")
    if reread.strip() != "ok":
        refused = [l for l in tr if ptab.get((lws, l[3])) is None]
        noname = bool(head) and head[0] == ["FSG_BEGIN"]
        below = [(a, b, lp) for (a, b, lp, w) in arcs if math.exp(max(lp / lw32 * LN_BASE, -700)) < 1.1755e-38]
        if noname:
            key = "D21-unnamed-fsg-not-readable"
        elif refused and below:
            return [], "OUT-OF-RANGE"   # outside the property's quantifier (stated assumption); counted
        elif refused:
            key = "D21-probability-below-print-precision"
        probs.append("fsg_model_write output is refused by fsg_model_read_s3file"
                     + (": FSG_BEGIN line has no name" if noname else "")
                     + (f": probability printed as {refused[0][3]} in {' '.join(refused[0])}" if refused else ""))
        return probs, key
    if d1 is None:   # nothing observed after the read (e.g. a shrunk replay): only the write side was judged
        return probs, key
    if (d0["n"], d0["start"], d0["final"]) != (d1["n"], d1["start"], d1["final"]):
        probs.append(f"states/start/final {(d0['n'], d0['start'], d0['final'])} became {(d1['n'], d1['start'], d1['final'])}")

    def lab(d):
        m = {}
        for (a, b, lp, w) in d["arcs"]:
            k = (a, b, d["vocab"][w] if w >= 0 else None)
            m[k] = max(m.get(k, lp), lp)
        return m
    m0, m1 = lab(d0), lab(d1)
    exp_keys = set(m0) | {(a, c, None) for (a, c) in null_reach(d0)}
    if set(m1) != exp_keys:
        probs.append(f"labelled arcs differ: lost {sorted(exp_keys - set(m1), key=str)[:5]} gained {sorted(set(m1) - exp_keys, key=str)[:5]}")
    printed = {}
    for l, (a, b, lp, w) in zip(tr, arcs):
        printed[(a, b, d0["vocab"][w] if w >= 0 else None, lp)] = l[3]
    for k, lp in m0.items():
        if k not in m1:
            continue
        tok = printed.get(k + (lp,))
        prec = tok_precision(tok) if tok else 5e-7
        p = math.exp(lp / lw32 * LN_BASE)
        tol = lw * (2.5 + (prec / p) / LN_BASE * 1.001) + 2
        lo_ok = m1[k] >= lp - tol
        hi_ok = m1[k] <= lp + tol if k[2] is not None else m1[k] <= 0
        if not (lo_ok and hi_ok):
            probs.append(f"arc {k}: logp {lp} (p={p:.9g}, printed {tok}) read back as {m1[k]} (tolerance {tol:.1f})")
    return probs, key


class Runner:
    def __init__(self, c, binp, drv=None):
        self.c, self.binp, self.drv = c, binp, drv
        self.stats = {"oracle_nfaeq": 0, "oracle_besteq": 0, "oracle_errors": 0, "idempotence_checks": 0,
                      "roundtrips": 0, "roundtrips_skipped_below_float32": 0, "roundtrip_exact_logp": 0, "roundtrip_total_arcs": 0,
                      "best_sentences": 0, "best_accepting": 0, "best_crosschecks": 0, "arc_iterations_checked": 0, "readlaw_tokens": 0, "readlaw_violations": [], "best_oracle_skipped_saturating": 0, "saturating_closures": 0, "best_crosscheck_failures": [],
                      "branch_outcomes": {}, "read_ok": 0, "read_err": 0,
                      "closure_added": 0, "closure_raised_or_added_cases": 0, "closedness_checks": 0}

    def run_driver(self, text, timeout=1800):
        """the driver binary is shared by all checks and relinked whenever any model changes: run a private copy"""
        if self.drv is None:
            return vlib.run_driver("c13", text, timeout=timeout)
        import subprocess
        r = subprocess.run([str(self.drv), "c13"], input=text.encode(), stdout=subprocess.PIPE, stderr=subprocess.PIPE, timeout=timeout)
        return r.returncode, r.stdout.decode(errors="replace"), r.stderr.decode(errors="replace")

    def run(self, cases, blen=3):
        """returns list of per-case dicts: {'diff': …, 'oracle': [...], 'crash': …}"""
        rc, hl, herr, flat = run_harness(self.binp, cases, timeout=20 + len(cases) // 2)
        results = []
        # split harness lines per case
        pos, percase = 0, []
        for case in cases:
            percase.append(hl[pos:pos + len(case)])
            pos += len(case)
        # tokens to parse
        toks = {}
        for case, ho in zip(cases, percase):
            lw = case_lw(case)
            last_w = None
            for op, o in zip(case, ho):
                w = op.split()
                if w[0] == "write" and o.startswith("wtext "):
                    last_w = o
                text = None
                if w[0] == "reread" and last_w:
                    h = last_w[len("wtext "):].split("|")[0].strip()
                    text = bytes.fromhex(h).decode(errors="replace") if h != "-" else ""
                elif w[0] == "read":
                    text = unhx(w[1])
                if text is not None:
                    for l in lex(text):
                        toks.setdefault(lw, set()).update(l)
        ptab = run_parsep(self.binp, toks)
        for (lw_, tok_), val in ptab.items():
            if val is not None:   # the law the theorem C13_read_wf assumes of the probability parser
                self.stats["readlaw_tokens"] += 1
                if not (-536870912 <= val <= 0):
                    self.stats["readlaw_violations"].append((lw_, tok_, val))
        # driver script
        script, tags = [], []
        for ci, (case, ho) in enumerate(zip(cases, percase)):
            lw = case_lw(case)
            last_w, dinfo, prev_dump, since = None, None, None, []
            case_zero = -536870912
            for oi, op in enumerate(case):
                o = ho[oi] if oi < len(ho) else None
                w = op.split()
                if o is None:
                    break
                if w[0] == "new":
                    zero = o.split()[1] if o.startswith("ok ") else "-536870912"
                    case_zero = int(zero)
                    script.append(" ".join(w[:5]) + " " + zero); tags.append(("main", ci, oi))
                elif w[0] == "silence":
                    lp = o.split()[2] if o.startswith("v ") and len(o.split()) == 3 else "0"
                    script.append(f"silence {w[1]} {w[2]} {lp}"); tags.append(("main", ci, oi))
                elif w[0] == "dict":
                    dinfo = dict_info(o) if o.startswith("v ") else None
                    tags.append(("skip", ci, oi))
                    script.append("noop")
                elif w[0] == "addsilences":
                    p = o.split()
                    fl = dinfo[0] if dinfo else []
                    script.append(f"addsilences {p[2]} {p[3]} {','.join(hx(x) for x in fl) if fl else '-'}")
                    tags.append(("main", ci, oi))
                elif w[0] == "addaltpron":
                    dmp = parse_dump(prev_dump) if prev_dump else None
                    spec = []
                    if dmp and dinfo:
                        for vw in dmp["vocab"]:
                            al = dinfo[1](vw)
                            if al:
                                spec.append(f"{hx(vw)}={'/'.join(hx(x) for x in al)}")
                    script.append("addaltpron " + (";".join(spec) if spec else "-")); tags.append(("main", ci, oi))
                elif w[0] in ("reread", "read"):
                    if w[0] == "reread":
                        h = last_w[len("wtext "):].split("|")[0].strip() if last_w else "-"
                        text = bytes.fromhex(h).decode(errors="replace") if h != "-" else ""
                    else:
                        text = unhx(w[1])
                    lines = lex(text)
                    ts = sorted({t for l in lines for t in l})
                    tab = ",".join(f"{hx(t)}={'err' if ptab.get((lw, t)) is None else ptab[(lw, t)]}" for t in ts) or "-"
                    script.append("ptab " + tab); tags.append(("aux", ci, oi))
                    script.append("read " + enc_lines(lines)); tags.append(("main", ci, oi))
                else:
                    script.append(op); tags.append(("main", ci, oi))
                if w[0] == "write":
                    last_w = o
                # oracles between consecutive dumps
                if w[0] == "dump":
                    if prev_dump is not None and since and all(x in TRANSFORMS for x in since):
                        d1, d2 = parse_dump(prev_dump), parse_dump(o)
                        if d1 and d2:
                            ol, names = oracle_lines(d1, d2, blen)
                            if not nosat(d1, case_zero):
                                # a simple null path below log-zero: the closure saturates there (D51) and the
                                # best-probability comparison is outside the property (stated assumption)
                                ol = ol[:1]
                                self.stats["best_oracle_skipped_saturating"] += 1
                            for l in ol:
                                script.append(l); tags.append(("oracle", ci, oi, names, list(since)))
                            if list(since) == ["closure"]:
                                # what closing is for: with ONE null hop between words the closed grammar accepts what the
                                # original accepts with null chains
                                l1, names1 = oracle_lines(d1, single_hop(d2), blen)
                                script.append(l1[0]); tags.append(("oracle", ci, oi, names1, ["closure (closed grammar used with single null hops)"]))
                    if prev_dump is not None and oi >= 1 and case[oi - 1].split()[0] in ("read", "reread") and ho[oi - 1].strip() == "ok":
                        d2 = parse_dump(o)
                        if d2:   # the reader closes: single-hop use of what it returns = its full language
                            l1, names1 = oracle_lines(d2, single_hop(d2), blen)
                            script.append(l1[0]); tags.append(("oracle", ci, oi, names1, ["read (returned grammar used with single null hops)"]))
                    dd = parse_dump(o)
                    if dd and (ci + oi) % 7 == 0:
                        syms = sorted({w_ for (_, _, _, w_) in dd["arcs"] if w_ >= 0})[:3]
                        for sent in ([], syms[:1], syms[:2], syms[1:2] + syms[:1], syms[:1] * 2):
                            script.append(f"best {dd['n']} {dd['start']} {dd['final']} {arcs_str(dd['arcs'])} "
                                          + (",".join(str(x) for x in sent) if sent else "-"))
                            tags.append(("best", ci, oi, py_best(dd, sent)))
                    prev_dump, since = o, []
                else:
                    since.append(w[0])
        rc2, dout, derr = self.run_driver("\n".join(script) + "\n")
        dl = dout.split("\n")
        if dl and dl[-1] == "":
            dl.pop()
        # gather
        res = [{"diff": None, "oracle": [], "crash": None, "round": [], "idem": []} for _ in cases]
        if rc2 != 0 or len(dl) != len(script):
            for r in res:
                r["diff"] = ("driver", f"driver rc={rc2} lines {len(dl)}/{len(script)}: {derr[-300:]}")
            return res
        dmain = {}
        for tag, line, sl in zip(tags, dl, script):
            if tag[0] == "main":
                dmain[(tag[1], tag[2])] = line
            elif tag[0] == "best":
                self.stats["best_crosschecks"] += 1
                exp = "v none" if tag[3] is None else f"v {tag[3]}"
                if line.strip() != exp:
                    self.stats["best_crosscheck_failures"].append({"line": sl[:300], "driver": line, "python": exp})
            elif tag[0] == "oracle":
                kind = sl.split()[0]
                if kind == "nfaeq":
                    self.stats["oracle_nfaeq"] += 1
                    if line.startswith("differ"):
                        ws = line.split()[1]
                        sent = [] if ws == "-" else [tag[3].get(int(x), x) for x in ws.split(",")]
                        res[tag[1]]["oracle"].append({"after_op_index": tag[2], "ops_between": tag[4], "kind": "language",
                                                      "distinguishing_real_word_sentence": sent})
                    elif not line.startswith("equal"):
                        self.stats["oracle_errors"] += 1
                else:
                    self.stats["oracle_besteq"] += 1
                    if line.startswith("differ"):
                        p = line.split()
                        sent = [] if p[1] == "-" else [tag[3].get(int(x), x) for x in p[1].split(",")]
                        res[tag[1]]["oracle"].append({"after_op_index": tag[2], "ops_between": tag[4], "kind": "best-probability",
                                                      "real_word_sentence": sent, "best_before": p[2], "best_after": p[3]})
                    elif line.startswith("same"):
                        self.stats["best_sentences"] += int(line.split()[1])
                        self.stats["best_accepting"] += int(line.split()[2])
                    else:
                        self.stats["oracle_errors"] += 1
        for ci, (case, ho) in enumerate(zip(cases, percase)):
            lw = case_lw(case)
            r = res[ci]
            if len(ho) < len(case):
                r["crash"] = {"after_ops": case[:len(ho) + 1], "stderr_tail": herr[-1500:], "exit_code": rc}
                continue
            dumps = []   # (op index, parsed)
            last_w = None
            for oi, op in enumerate(case):
                w = op.split()
                o = ho[oi]
                m = dmain.get((ci, oi))
                if w[0] == "dict":
                    continue
                if w[0] == "dump":
                    self.stats["arc_iterations_checked"] += 1
                    if not arcs_order_ok(o.split("|")[1].strip()[len("arcs"):].strip() if "|" in o else "-"):
                        r["idem"].append({"op": "fsg_model_arcs", "problem": "a null arc is iterated before a word arc of the same state", "dump": o[:400]})
                    a, b = parse_dump(o), parse_dump(m or "")
                    if a != b and r["diff"] is None:
                        r["diff"] = (oi, {"op": op, "impl": o, "model": m})
                    dumps.append((oi, a))
                elif w[0] == "write":
                    last_w = (oi, o)
                    hexpart, arcpart = [x.strip() for x in o[len("wtext "):].split("|")] if o.startswith("wtext ") else ("-", "-")
                    text = bytes.fromhex(hexpart).decode(errors="replace") if hexpart != "-" else ""
                    lines = [l for l in lex(text) if l]
                    arcs = [] if arcpart == "-" else [a.split(":") for a in arcpart.split(",")]
                    k = 0
                    for l in lines:
                        if l[0] == "TRANSITION" and k < len(arcs) and len(l) >= 4:
                            l[3] = "P" + arcs[k][2]
                            k += 1
                    mt = [l for l in dec_lines(m[len("text "):])] if m and m.startswith("text ") else None
                    if mt is None or canon_text(lines) != canon_text(mt):
                        if r["diff"] is None:
                            r["diff"] = (oi, {"op": op, "impl": lines, "model": mt})
                elif w[0] in ("read", "reread"):
                    ok_i, ok_m = o.strip() == "ok", (m or "").strip() == "ok"
                    self.stats["read_ok" if ok_i else "read_err"] += 1
                    k = "model read: " + (m or "?").strip()
                    self.stats["branch_outcomes"][k] = self.stats["branch_outcomes"].get(k, 0) + 1
                    if ok_i != ok_m and r["diff"] is None:
                        r["diff"] = (oi, {"op": op, "impl": o, "model": m})
                    if w[0] == "reread" and last_w:
                        d0 = dumps[-1][1] if dumps else None
                        nxt = parse_dump(ho[oi + 1]) if oi + 1 < len(case) and case[oi + 1] == "dump" and ok_i else None
                        if d0:
                            self.stats["roundtrips"] += 1
                            probs, key = roundtrip_oracle(d0, last_w[1], o, nxt, lw, ptab)
                            if key == "OUT-OF-RANGE":
                                self.stats["roundtrips_skipped_below_float32"] += 1
                            if nxt:
                                for (a, b, lp, wd) in d0["arcs"]:
                                    self.stats["roundtrip_total_arcs"] += 1
                                if sorted((a, b, lp, d0["vocab"][wd] if wd >= 0 else "") for (a, b, lp, wd) in d0["arcs"]) == \
                                        sorted((a, b, lp, nxt["vocab"][wd] if wd >= 0 else "") for (a, b, lp, wd) in nxt["arcs"]):
                                    self.stats["roundtrip_exact_logp"] += 1
                            if probs:
                                r["round"].append({"op_index": oi, "problems": probs[:6], "finding_key": key})
                else:
                    if (m or "").strip() != o.strip() and r["diff"] is None:
                        r["diff"] = (oi, {"op": op, "impl": o, "model": m})
                    if w[0] == "null":
                        k = "null_add returns " + o.strip()[2:]
                        self.stats["branch_outcomes"][k] = self.stats["branch_outcomes"].get(k, 0) + 1
                    elif w[0] == "alt":
                        k = "add_alt base missing" if o.strip() == "v -1" else ("add_alt copies 0" if o.strip() == "v 0" else "add_alt copies >0")
                        self.stats["branch_outcomes"][k] = self.stats["branch_outcomes"].get(k, 0) + 1
                    elif w[0] == "silence":
                        k = "add_silence all states" if w[2] == "-1" else "add_silence one state"
                        self.stats["branch_outcomes"][k] = self.stats["branch_outcomes"].get(k, 0) + 1
            for (o_i, d_) in dumps:   # what the reader returns is closed
                if d_ and o_i >= 1 and case[o_i - 1].split()[0] in ("read", "reread") and ho[o_i - 1].strip() == "ok":
                    zero_ = int(ho[0].split()[1]) if ho and ho[0].startswith("ok ") else -536870912
                    self.stats["closedness_checks"] += 1
                    nc = not_closed(d_, zero_)
                    if nc:
                        r["idem"].append({"op": case[o_i - 1].split()[0], "problem": "the grammar returned by the reader is not null-closed", "pairs": nc[:4]})
            # idempotence on the implementation: same transformation twice in a row
            for i in range(len(dumps) - 1):
                (o1, d1), (o2, d2) = dumps[i], dumps[i + 1]
                between = case[o1 + 1:o2]
                prev = case[o1 - 1] if o1 >= 1 else ""
                again = prev == between[0] if len(between) == 1 else False
                # what the reader returns has been closed by the reader: closing it again must change nothing
                if len(between) == 1 and between[0] == "closure" and prev.split()[:1] in (["reread"], ["read"]) and ho[o1 - 1].strip() == "ok":
                    again = True
                if len(between) == 1 and o1 >= 1 and again and between[0].split()[0] in ("closure", "silence"):
                    self.stats["idempotence_checks"] += 1
                    if d1 != d2:
                        r["idem"].append({"op": between[0], "first": d1, "second": d2})
                if len(between) == 1 and between[0] == "closure" and d2:
                    zero_ = int(ho[0].split()[1]) if ho and ho[0].startswith("ok ") else -536870912
                    self.stats["closedness_checks"] += 1
                    nc = not_closed(d2, zero_)
                    if nc:
                        r["idem"].append({"op": "closure", "problem": "the result is not closed: consecutive null arcs a->b->c without a null arc a->c "
                                          "at least as probable as their (saturated) sum", "pairs": nc[:4]})
                if len(between) == 1 and between[0] == "closure" and d1 and d2 and d1["arcs"] != d2["arcs"]:
                    self.stats["closure_raised_or_added_cases"] += 1
                    self.stats["closure_added"] += len(d2["arcs"]) - len(d1["arcs"])
        return res


def problems_of(r):
    return bool(r["diff"] or r["oracle"] or r["crash"] or r["idem"] or r["round"])


def report(c, runner, case, r, label):
    """shrink a failing case and record the violation"""
    head = case[0]

    def crash_kind(rr):
        if not rr["crash"]:
            return None
        t = rr["crash"]["stderr_tail"]
        m = re.search(r"runtime error: ([a-z -]+)|AddressSanitizer: ([a-zA-Z-]+)|(TIMEOUT)|Assertion", t)
        return m.group(0)[:60] if m else "exit"

    def sig(rr):
        return (crash_kind(rr), bool(rr["oracle"]), bool(rr["idem"]),
                tuple(sorted({x["finding_key"] or "?" for x in rr["round"]})), bool(rr["diff"]))
    want = sig(r)

    def valid(ops):
        """word ids used by `trans` must have been registered by `word` ops (the C API requires it)"""
        words = set()
        for o in ops:
            w = o.split()
            if w[0] == "word":
                words.add(w[1])
            elif w[0] == "trans" and int(w[4]) >= len(words):
                return False
            elif w[0] == "reread" and "write" not in [x.split()[0] for x in ops[:ops.index(o)]]:
                return False
        return True

    def fails(sub):
        if not valid([head] + sub):
            return False
        rr = runner.run([[head] + sub])[0]
        return sig(rr) == want
    body = vlib.ddmin(case[1:], fails, max_tests=150)
    small = [head] + body
    rr = runner.run([small])[0]
    if sig(rr) != want:
        small, rr = case, r
    impl_wrong = bool(rr["oracle"] or rr["idem"] or rr["round"] or rr["crash"])
    keys = {x["finding_key"] for x in rr["round"]}
    key = None
    if impl_wrong and not (rr["oracle"] or rr["idem"] or rr["crash"] or rr["diff"]) and len(keys) == 1:
        key = keys.pop()
    obj = {"kind": "fsg transformation / file round trip", "ops": small,
           "implementation_violates_property": impl_wrong,
           "property_oracle_on_implementation": {"language_or_best_changed": rr["oracle"], "not_idempotent": rr["idem"],
                                                 "write_read_round_trip": rr["round"], "crash": rr["crash"]},
           "model_vs_implementation_first_difference": rr["diff"],
           "readable_ops": [readable(o) for o in small],
           "how_to_rerun": "python3 tools/check.py C13 --replay <this file>"}
    if rr["diff"]:
        c.oblige(f"correspondence model = implementation ({label})", False, rr["diff"])
    c.violation(obj, impl_wrong, finding_key=key)
    return key


def readable(op):
    w = op.split()
    if w[0] in ("word", "silence", "alt") or w[0] == "new":
        return " ".join(unhx(x) if re.fullmatch(r"([0-9a-f]{2})+", x) and i > 0 and not (w[0] == "new" and i != 4) and not (w[0] == "silence" and i != 1) else x for i, x in enumerate(w))
    if w[0] in ("read", "dict"):
        return w[0] + " " + " | ".join(repr(unhx(x)) if re.fullmatch(r"([0-9a-f]{2})+|-", x) else x for x in w[1:])
    return op


def exhaustive_null_graphs(weights, n=3):
    """every null-link graph over n states with the given weights (absent = None)"""
    pairs = [(a, b) for a in range(n) for b in range(n) if a != b]
    opts = [None] + list(weights)
    import itertools
    for combo in itertools.product(opts, repeat=len(pairs)):
        ops = [f"new {n} 0 {n - 1} 67 1.0", "word 61", f"trans 0 {n - 1} -50 0"]
        for (a, b), wv in zip(pairs, combo):
            if wv is not None:
                ops.append(f"null {a} {b} {wv}")
        ops += ["dump", "closure", "dump", "closure", "dump"]
        yield ops


def harness_copy(c):
    """build the harness and keep a private copy for the run (vlib prunes old build directories while
    other checks build other trees concurrently)"""
    import shutil
    last = None
    for _ in range(3):
        try:
            src = vlib.build_harness("h_c13")
            dst = c.scratch / "h_c13"
            shutil.copy2(src, dst)
            return dst
        except (FileNotFoundError, OSError) as e:
            last = e
    raise vlib.BuildError(f"harness binary disappeared while copying: {last}")


def check(c):
    c.trusted += ["harness/h_c13.c + tools/props/c13.py (generator, lexer used to hand FSG text to the model, canonicalisation, diff)",
                  "libc printf(\"%f\")/atof/strtol, log/pow inside logmath (the model takes these four conversions as parameters; "
                  "the harness evaluates the reader's expression on each token to fill the model's table)",
                  "clang ASan/UBSan as observer of memory errors and signed overflow in fsg_model.c",
                  "the iteration order of the C hash tables is not modelled: results are compared as multisets "
                  "(justified by C13_closure_unique: the closed grammar does not depend on the order)"]
    c.assumptions += ["null-transition log-probabilities are <= 0 (the C code aborts with E_FATAL otherwise) and >= log-zero (-2^29, what logmath returns for probability 0)",
                      "best-probability preservation by the closure is claimed (theorem and oracle) only when no simple null path is below log-zero; "
                      "there the code saturates (fix D51, mirrored by the model: exact arc comparison covers it) and only language preservation, "
                      "termination, idempotence and the floored all-pairs characterisation are claimed",
                      "filler words and alternate->base relation are the dictionary's: a filler is a word whose base form starts with '<', '+' or '['; "
                      "the base of 'w(k)' is 'w' (dict_word2basestr)",
                      "probabilities inside float32's normal range (the reader converts through float32)",
                      "word strings and the FSG name are non-empty tokens without white space"]
    if not c.lean_obligations():
        return
    binp = harness_copy(c)
    runner = Runner(c, binp)
    stats = {"logp_kinds": {}, "lw": {}, "states": {}, "phases": {}, "read_kinds": {}, "max_chain": 0,
             "branches": {k: 0 for k in ("word_selfloop", "dup_trans", "null_selfloop", "dup_null", "null_chain", "null_cycle",
                                         "alt_base_missing", "alt_ok")}}
    allok, nev, distinct, known = True, 0, set(), set()
    nviol = 0

    pending = []   # problem cases; reported at the end, those with a concrete failing input first

    def judge(cases, label, blen=3):
        nonlocal allok
        res = runner.run(cases, blen)
        for case, r in zip(cases, res):
            if problems_of(r):
                found = bool(r["oracle"] or r["idem"] or r["round"] or r["crash"])
                if r["diff"] or r["oracle"] or r["idem"] or r["crash"]:
                    allok = False
                if len(pending) < 40:
                    pending.append((0 if r["oracle"] else (1 if found else 2), len(pending), case, r, label))

    def flush():
        """shrink and report at most three problem cases, implementation-side property failures first"""
        nonlocal nviol
        for _, _, case, r, label in sorted(pending, key=lambda x: (x[0], x[1])):
            if nviol >= 3:
                break
            k = report(c, runner, case, r, label)
            if k is None or k not in [kk for kk, _ in c.known_hits]:
                nviol += 1
            else:
                known.add(k)
    # corpus first
    ncorp = 0
    for f in sorted((vlib.ROOT / "corpus" / "C13").glob("*.ops")):
        ops = [l for l in f.read_text().split("\n") if l.strip() and not l.startswith("#")]
        ncorp += 1
        judge([ops], f"corpus {f.name}")
    ncases = 1500 if c.tier == "quick" else 20000
    nread = 400 if c.tier == "quick" else 4000
    batch = []
    for i in range(ncases):
        ops = gen_case(c.rng, c.tier, stats)
        distinct.add(hash(tuple(ops)))
        if i < 3:
            c.samples.append([readable(o) for o in ops[:18]] + (["..."] if len(ops) > 18 else []))
        batch.append(ops)
        if len(batch) >= 250 or i == ncases - 1:
            judge(batch, f"generated batch ending at case {i}")
            nev += len(batch)
            batch = []
            if len(pending) >= 12:
                break
    batch = []
    for i in range(nread):
        ops = gen_read_case(c.rng, stats)
        distinct.add(hash(tuple(ops)))
        if i < 2:
            c.samples.append([readable(o) for o in ops])
        batch.append(ops)
        if len(batch) >= 250 or i == nread - 1:
            judge(batch, f"reader batch ending at case {i}")
            nev += len(batch)
            batch = []
    exhaustive = 0
    if not pending:
        weights = [0, -1] if c.tier == "quick" else [0, -1, -3]
        batch = []
        for ops in exhaustive_null_graphs(weights):
            batch.append(ops)
            exhaustive += 1
            if len(batch) >= 1500:
                judge(batch, "exhaustive 3-state null graphs", blen=1)
                batch = []
        if batch:
            judge(batch, "exhaustive 3-state null graphs", blen=1)
        # the same around log-zero: every sum saturates or lands exactly on -2^29
        batch = []
        for ops in exhaustive_null_graphs([-268435456, -536870912] if c.tier == "quick" else [-268435456, -300000000, -536870912]):
            batch.append(ops)
            exhaustive += 1
            if len(batch) >= 1500:
                judge(batch, "exhaustive 3-state null graphs at log-zero", blen=1)
                batch = []
        if batch:
            judge(batch, "exhaustive 3-state null graphs at log-zero", blen=1)
    flush()
    # ownership: the first generated batch again under LeakSanitizer (fsg_model_free, reader error paths, glists)
    lrng = vlib.Rng(c.seed * 7919 + 13)
    lstats = {"logp_kinds": {}, "lw": {}, "states": {}, "phases": {}, "read_kinds": {}, "max_chain": 0, "branches": dict.fromkeys(stats["branches"], 0)}
    leak_cases = [gen_case(lrng, c.tier, lstats) for _ in range(200 if c.tier == "quick" else 2000)] + \
                 [gen_read_case(lrng, lstats) for _ in range(100 if c.tier == "quick" else 1000)]
    flat = [op for case in leak_cases for op in case]
    lrc, lout, lerr = vlib.run_bin(binp, args=[MDEF], stdin_text="\n".join(flat) + "\n", timeout=600, leaks=True)
    c.oblige("no leak (LeakSanitizer) over a batch of API histories and reads incl. refused files: fsg_model_free releases "
             "links, glists, hash tables, vocabulary, bit vectors; the reader's error paths release what they allocated",
             lrc == 0 and "LeakSanitizer" not in lerr, lerr[-1500:])
    c.oblige("the probability parser's values are inside [log-zero, 0] on every token parsed (hypothesis ReadLaw of C13_read_wf)",
             not runner.stats["readlaw_violations"], runner.stats["readlaw_violations"][:5])
    c.oblige("correspondence: real fsg_model.c / fsg_search.c:83-169 (ASan/UBSan) = model on every generated case "
             "(arcs, vocabulary, filler/alt bits, return values, written text, read result)", allok)
    c.oblige("oracle on the implementation: language and best log-probability over real words unchanged by closure / "
             "add_silence / add_alt / add_silences / add_altpron; closure and add_silence idempotent; "
             "write -> read round trip", nviol == 0 or allok and not c.violations)
    c.oblige("executable bestLogProb (driver) = independent Bellman-Ford implementation (checker) on sampled grammars/sentences",
             not runner.stats["best_crosscheck_failures"], runner.stats["best_crosscheck_failures"][:3])
    c.oblige("oracle searches did not give up", runner.stats["oracle_errors"] == 0, runner.stats["oracle_errors"])
    st = runner.stats
    c.cov.update({"evaluations": nev + exhaustive + ncorp, "distinct_nontrivial": len(distinct) + exhaustive,
                  "rule": "random FSGs (1-8 states, thorough up to 24) built through the C API with duplicate arcs, word and null "
                          "self-loops, null chains and cycles, unreachable states, alternates and fillers, language weights "
                          "0.5-9.5, log-probabilities from 0 down to float32's range, followed by random orders of closure / "
                          "add_silence / add_alt / fsg_search_add_silences / add_altpron (each dumped, closure and silence twice) "
                          "and write -> read; hand-assembled FSG texts (abbreviated keywords, comments, junk, 13 error kinds); "
                          "every null graph over 3 states exhaustively; distinct = distinct op lists",
                  "generated_cases": nev, "exhaustive_null_graphs": exhaustive, "corpus_cases": ncorp,
                  "language_equivalence_oracles_run": st["oracle_nfaeq"], "best_probability_oracles_run": st["oracle_besteq"],
                  "best_probability_sentences_compared": st["best_sentences"], "of_which_accepted": st["best_accepting"],
                  "best_probability_crosschecks_driver_vs_checker": st["best_crosschecks"],
                  "best_probability_oracles_skipped_simple_null_path_below_log_zero": st["best_oracle_skipped_saturating"],
                  "fsg_model_arcs_iterations_checked_word_arcs_before_null_arcs": st["arc_iterations_checked"],
                  "probability_tokens_checked_against_ReadLaw": st["readlaw_tokens"],
                  "leak_checked_cases": len(leak_cases),
                  "idempotence_checks_on_implementation": st["idempotence_checks"],
                  "closure_cases_that_changed_the_grammar": st["closure_raised_or_added_cases"],
                  "closedness_checks_on_implementation": st["closedness_checks"],
                  "null_links_added_by_closure": st["closure_added"],
                  "write_read_round_trips": st["roundtrips"],
                  "round_trips_not_judged_probability_below_float32_range": st["roundtrips_skipped_below_float32"], "round_trips_with_identical_logprobs": st["roundtrip_exact_logp"],
                  "reads_accepted": st["read_ok"], "reads_refused": st["read_err"],
                  "states_histogram": {str(k): v for k, v in sorted(stats["states"].items())},
                  "language_weights": stats["lw"], "logp_kinds": stats["logp_kinds"], "phases": stats["phases"],
                  "model_branches_hit": stats["branches"], "branch_outcomes_measured": dict(sorted(st["branch_outcomes"].items())), "longest_explicit_null_chain": stats["max_chain"],
                  "reader_text_kinds": stats["read_kinds"], "known_finding_classes_seen": sorted(known)})


def replay(c, path):
    c.lean_obligations()
    binp = harness_copy(c)
    obj = json.loads(open(path).read())
    runner = Runner(c, binp)
    r = runner.run([obj["ops"]])[0]
    if problems_of(r):
        report(c, runner, obj["ops"], r, "replay")
    c.cov.update({"evaluations": 1, "distinct_nontrivial": 1})
