"""C20 — the hash table behaves as a map under any operation history.

Lean: SSVerif/Props/C20.lean (refinement of `hash_table.c`'s model to an abstract map, for every
op sequence; Props/C20Iter.lean: the {ent, idx} cursor walk of hash_table_iter(_next) and the loop of
hash_table_tolist enumerate buckets.flatten and end after exactly inuse visits).  Tie: generated prime table +
op files replayed on the real hash_table.c (ASan) and on the model's own definitions (ssdriver c20; iter/tolist
lines come from the modelled cursor walk), outputs diffed INCLUDING the raw visiting order.  Oracle: a Python dict.
"""
import itertools, json
import vlib

PRIMES_FALLBACK = [101]


def upper(b):
    return b - 32 if 97 <= b <= 122 else b


def key2hash(size, nocase, key):
    """generator-side port of key2hash (untrusted: only used to aim keys at buckets)"""
    h, s = 0, 0
    for c in key:
        v = upper(c) if nocase else (c if c < 128 else c | 0xFFFFFF00)
        h = (h + ((v << s) & 0xFFFFFFFF)) & 0xFFFFFFFF
        s += 5
        if s >= 25:
            s -= 24
    return h % size


def makekey(key):
    out = []
    for b in key:
        out += [65 + (b & 15), 74 + ((b >> 4) & 15)]
    return out


def bucket_of(size, nocase, binm, key):
    return key2hash(size, nocase, makekey(key) if binm else key)


def hx(k):
    return "-" if not k else "".join(f"{b:02x}" for b in k)


def norm(nocase, k):
    return tuple(upper(b) for b in k) if nocase else tuple(k)


def prime_size(primes, req):
    for p in primes:
        if not p < req:
            return p
    return primes[-1]


def read_primes():
    import re
    txt = (vlib.LEAN / "SSVerif" / "Generated" / "HashPrimes.lean").read_text()
    m = re.search(r"hashPrimes : List Nat := \[([^\]]*)\]", txt)
    return [int(x) for x in m.group(1).split(",")] if m else PRIMES_FALLBACK


def gen_case(rng, primes, stats):
    req = rng.choice([0, 1, 7, 40, 66, 67, 68, 100, 140])
    binm = rng.chance(0.3)
    nocase = (not binm) and rng.chance(0.5)
    size = prime_size(primes, req + req // 2)
    lo = 0 if binm else 1
    pool = []
    # colliding keys: search for keys in one bucket
    target = rng.below(size)
    tries = 0
    while len(pool) < rng.range(3, 6) and tries < 20000:
        tries += 1
        k = [rng.range(lo, 255) if rng.chance(0.2) else rng.range(max(lo, 32), 126) for _ in range(rng.range(1, 4))]
        if bucket_of(size, nocase, binm, k) == target and k not in pool:
            pool.append(k)
    # same-bucket keys of equal length that agree up to and including an embedded zero (binary mode)
    # or up to a long common prefix (string mode) and differ only afterwards
    if rng.chance(0.7):
        pre = [rng.range(1, 255) for _ in range(rng.range(0, 2))] + ([0] if binm else [rng.range(33, 126)])
        fam, t2 = [], 0
        tgt = None
        while len(fam) < rng.range(2, 4) and t2 < 60000:
            t2 += 1
            k = pre + [rng.range(lo, 255), rng.range(lo, 255)]
            b = bucket_of(size, nocase, binm, k)
            if tgt is None:
                tgt = b
            if b == tgt and k not in fam:
                fam.append(k)
        pool += fam
        stats["shared_prefix_families"] = stats.get("shared_prefix_families", 0) + (1 if len(fam) >= 2 else 0)
    # binary mode: a key and extensions of it in the SAME bucket (the harness hands prefix-related binary keys
    # to the table at one shared address with different lengths)
    if binm and rng.chance(0.8):
        basek = [rng.range(0, 255) for _ in range(rng.range(1, 3))]
        tb = bucket_of(size, nocase, binm, basek)
        ext, t3 = [], 0
        while len(ext) < rng.range(1, 3) and t3 < 70000:
            t3 += 1
            k = basek + [rng.range(0, 255), rng.range(0, 255)]
            if bucket_of(size, nocase, binm, k) == tb and k not in ext:
                ext.append(k)
        # longest first so that its buffer exists when the shorter ones are entered
        pool += ext + [basek]
        stats["same_bucket_prefix_families"] = stats.get("same_bucket_prefix_families", 0) + (1 if ext else 0)
    # prefixes of each other, case variants, empty key, embedded zeros, high bytes
    base = [rng.range(97, 122) for _ in range(3)]
    pool += [base[:1], base[:2], base]
    pool += [[upper(b) for b in base[:2]], [upper(base[0]), base[1]], [base[0], upper(base[1])]]
    pool.append([])
    if binm:
        pool += [[0], [0, 0], [0, 97], [97, 0], [97, 0, 98]]
    pool += [[200, 130], [255]]
    for _ in range(rng.range(0, 4)):
        pool.append([rng.range(lo, 255) for _ in range(rng.range(1, 6))])
    # long keys around the sizes at which an implementation might switch strategy (stack buffer, block hashing),
    # in pairs that agree on a long prefix and differ only in the tail
    if rng.chance(0.5):
        for _ in range(rng.range(1, 3)):
            ln = rng.choice([15, 16, 17, 31, 32, 33, 34, 63, 64, 65, 100, 127, 128, 129, 255, 256, 257, 1000])
            k1 = [rng.range(lo, 255) if binm else rng.range(33, 126) for _ in range(ln)]
            cut = min(ln - 1, rng.choice([8, 16, 32, 64, ln - 1]))
            k2 = k1[:cut] + [(b % 90) + 33 if not binm else (b + 1) % 256 for b in k1[cut:]]
            pool += [k1, k2] + ([k1[:cut]] if cut >= lo and rng.chance(0.5) else [])
        stats["long_key_cases"] = stats.get("long_key_cases", 0) + 1
    ops = [f"new {req} {int(nocase)} {int(binm)}"]
    n = rng.range(20, 90)
    val = 0
    for _ in range(n):
        kind = rng.weighted([("enter", 30), ("replace", 14), ("delete", 22), ("lookup", 20), ("inuse", 5),
                             ("iter", 4), ("tolist", 3), ("empty", 1)])
        stats["ops"][kind] = stats["ops"].get(kind, 0) + 1
        if kind in ("enter", "replace"):
            val += 1
            ops.append(f"{kind} {hx(rng.choice(pool))} {val}")
        elif kind in ("delete", "lookup"):
            ops.append(f"{kind} {hx(rng.choice(pool))}")
        else:
            ops.append(kind)
    ops += ["inuse", "iter", "tolist"]
    # chain statistics of the key pool (which buckets the generator aimed at)
    bks = {}
    for k in pool:
        bks.setdefault(bucket_of(size, nocase, binm, k), set()).add(norm(nocase, k))
    stats["max_chain_pool"] = max(stats["max_chain_pool"], max(len(v) for v in bks.values()))
    stats["modes"][("bin" if binm else "str") + ("-nocase" if nocase else "-case")] = \
        stats["modes"].get(("bin" if binm else "str") + ("-nocase" if nocase else "-case"), 0) + 1
    stats["sizes"][size] = stats["sizes"].get(size, 0) + 1
    return ops


def canon(out):
    """drop the raw-order part of iteration lines (what the map oracle is compared with)"""
    res = []
    for l in out.rstrip("\n").split("\n"):
        res.append(l.split(" | ")[0] if l.startswith("it ") else l)
    return res


def full(out):
    """every output line as printed, INCLUDING the raw visiting order of iter/tolist lines: the model's
    iter/tolist lines come from the cursor walk `iterWalk` / the loop `tolistWalk` (Model/HashTableIter.lean),
    so the order in which the real iterator hands out the entries is compared exactly, not as a set"""
    return [l.rstrip() for l in out.rstrip("\n").split("\n")]


def raw_orders(out):
    return [l.split(" | ")[1] if " | " in l else "" for l in out.rstrip("\n").split("\n") if l.startswith("it ")]


RAW = {"iteration_lines_compared_in_raw_order": 0, "entries_in_those_lines": 0, "longest": 0,
       "lines_with_2+_entries": 0}


def note_raw(out):
    for r in raw_orders(out):
        n = len(r.split(",")) if r.strip() else 0
        RAW["iteration_lines_compared_in_raw_order"] += 1
        RAW["entries_in_those_lines"] += n
        RAW["longest"] = max(RAW["longest"], n)
        RAW["lines_with_2+_entries"] += 1 if n >= 2 else 0


def oracle(ops):
    """the property evaluated directly: a dict keyed by the mode's key equality"""
    d, res, nocase = {}, [], False
    for op in ops:
        w = op.split()
        if w[0] == "new":
            d, nocase = {}, w[2] == "1"
            res.append(None)  # size line not judged
            continue
        key = None
        if len(w) > 1:
            key = norm(nocase, [] if w[1] == "-" else list(bytes.fromhex(w[1])))
        if w[0] == "enter":
            if key in d:
                res.append(f"v {d[key][1]}")
            else:
                d[key] = (w[1], int(w[2]))
                res.append(f"v {w[2]}")
        elif w[0] == "replace":
            old = d.get(key)
            d[key] = (w[1], int(w[2]))
            res.append(f"v {old[1] if old else w[2]}")
        elif w[0] == "delete":
            old = d.pop(key, None)
            res.append(f"o {old[1]}" if old else "o none")
        elif w[0] == "lookup":
            res.append(f"o {d[key][1]}" if key in d else "o none")
        elif w[0] == "empty":
            d = {}
            res.append("ok")
        elif w[0] == "inuse":
            res.append(f"v {len(d)}")
        elif w[0] in ("iter", "tolist"):
            # keys reported are the stored spelling: enter keeps the first, replace takes the new one
            res.append(("it " + ",".join(sorted(f"{k}:{v}" for k, v in d.values()))).rstrip())
    return res


def run_both(c, binp, ops, timeout=900):
    text = "\n".join(ops) + "\n"
    rc, out, err = vlib.run_bin(binp, stdin_text=text, timeout=timeout)
    rc2, mout, merr = vlib.run_driver("c20", text, timeout=timeout)
    return (rc, out, err), (rc2, mout, merr)


def split_cases(ops):
    cases, cur = [], []
    for op in ops:
        if op.startswith("new ") and cur:
            cases.append(cur)
            cur = []
        cur.append(op)
    if cur:
        cases.append(cur)
    return cases


def judge(c, binp, ops, label):
    """compare implementation, model and oracle on one batch; on divergence shrink and report.
    Implementation and model are compared on the FULL lines (values, counts, sorted entries and the raw
    visiting order of iter/tolist); the map oracle judges the canonical (order-free) part."""
    (rc, out, err), (rc2, mout, merr) = run_both(c, binp, ops)
    if rc2 != 0:
        c.oblige(f"model driver runs ({label})", False, merr[-500:])
        return False
    if rc == 0 and full(out) == full(mout):
        note_raw(out)
        return True
    # locate the failing case
    for case in split_cases(ops):
        (rc, out, err), (_, mout, _) = run_both(c, binp, case)
        if rc != 0 or full(out) != full(mout):
            break
    else:
        c.oblige(f"correspondence ({label})", False, "batch diverges but no single case does")
        return False
    head, body = case[0], case[1:]
    order_only = rc == 0 and canon(out) == canon(mout)

    def fails(sub):
        (r1, o1, _), (_, m1, _) = run_both(c, binp, [head] + sub)
        if order_only:
            return r1 == 0 and canon(o1) == canon(m1) and full(o1) != full(m1)
        return r1 != 0 or canon(o1) != canon(m1)
    small = vlib.ddmin(body, fails)
    sc = [head] + small
    (rc, out, err), (_, mout, _) = run_both(c, binp, sc)
    exp = oracle(sc)
    co = canon(out)
    impl_wrong = rc != 0 or any(e is not None and (i >= len(co) or co[i].rstrip() != e.rstrip()) for i, e in enumerate(exp))
    if order_only:
        c.oblige(f"raw visiting order of iter/tolist: implementation = cursor walk of the model ({label})", False,
                 {"ops": sc, "impl_raw": raw_orders(out), "model_raw": raw_orders(mout),
                  "note": "same entries, different order: hash_table_iter(_next)/hash_table_tolist or the chain "
                          "layout (enter inserts after the head, delete promotes the next entry) no longer is what "
                          "Model/HashTable(Iter).lean describes; the theorems C20_iter_* are about the old walk"})
    else:
        c.oblige(f"correspondence model = implementation ({label})", False,
                 {"ops": sc, "impl": full(out), "model": full(mout)})
    c.violation({"kind": "hash-table history", "ops": sc, "implementation_output": full(out), "exit_code": rc,
                 "stderr_tail": err[-1500:], "model_output": full(mout), "map_oracle_expected": exp,
                 "implementation_violates_property": impl_wrong, "only_the_visiting_order_differs": order_only,
                 "how_to_rerun": "python3 tools/check.py C20 --replay <this file>"}, impl_wrong)
    return False


def check(c):
    c.trusted += ["tools/gen_consts.py (prime table extraction)", "harness/h_c20.c + tools/props/c20.py (generator, canonicalisation, diff)",
                  "clang ASan/UBSan as observer of memory errors in hash_table.c"]
    c.assumptions += ["binary keys in a case-insensitive table are documented as unpredictable (hash_table.h) and are outside the quantifier",
                      "stored values are non-zero (a NULL value is indistinguishable from 'absent' in hash_table_delete's return)"]
    if not c.lean_obligations():
        return
    binp = vlib.build_harness("h_c20")
    primes = read_primes()
    stats = {"ops": {}, "modes": {}, "sizes": {}, "max_chain_pool": 0}
    # corpus first
    corpus = sorted((vlib.ROOT / "corpus" / "C20").glob("*.ops"))
    ncorp = 0
    for f in corpus:
        ops = [l for l in f.read_text().split("\n") if l.strip()]
        ncorp += 1
        if not judge(c, binp, ops, f"corpus {f.name}"):
            return
    ncases = 300 if c.tier == "quick" else 6000
    batch, allok, total_ops, distinct = [], True, 0, set()
    for i in range(ncases):
        ops = gen_case(c.rng, primes, stats)
        total_ops += len(ops)
        distinct.add(hash(tuple(ops)))
        if i < 2:
            c.samples.append(ops[:14] + ["..."])
        batch += ops
        if len(batch) > 20000 or i == ncases - 1:
            if not judge(c, binp, batch, f"generated batch ending at case {i}"):
                allok = False
                break
            batch = []
    exhaustive = 0
    if allok and c.tier == "thorough":
        # every op sequence of length <= 5 over three colliding keys (size-101 table, all modes)
        for nocase, binm in ((0, 0), (1, 0), (0, 1)):
            keys, t = [], 0
            while len(keys) < 3:
                t += 1
                k = [65 + (t % 26), 97 + ((t // 26) % 26)] if not binm else [t % 256, (t // 256) % 256]
                if bucket_of(101, bool(nocase), bool(binm), k) == 5 and norm(bool(nocase), k) not in [norm(bool(nocase), x) for x in keys]:
                    keys.append(k)
            alphabet = [f"{o} {hx(k)}" for o in ("enter", "replace", "delete", "lookup") for k in keys] + ["inuse"]
            for L in range(1, 6):
                batch = []
                for seq in itertools.product(alphabet, repeat=L):
                    batch.append(f"new 0 {nocase} {binm}")
                    v = 0
                    for o in seq:
                        if o.startswith(("enter", "replace")):
                            v += 1
                            batch.append(f"{o} {v}")
                        else:
                            batch.append(o)
                    batch.append("iter")
                    exhaustive += 1
                    if len(batch) > 200000:
                        if not judge(c, binp, batch, f"exhaustive L={L} mode={nocase}{binm}"):
                            allok = False
                            break
                        batch = []
                if allok and batch and not judge(c, binp, batch, f"exhaustive L={L} mode={nocase}{binm}"):
                    allok = False
                if not allok:
                    break
            if not allok:
                break
    c.oblige("correspondence: real hash_table.c (ASan/UBSan) = model on every generated history "
             "(return values, counts, iter/tolist entries AND their raw visiting order = iterWalk/tolistWalk)", allok)
    c.oblige("raw-order comparison exercised: iteration lines with >= 2 entries were compared in visiting order",
             (not allok) or RAW["lines_with_2+_entries"] > 0, dict(RAW))
    c.cov.update({"evaluations": ncases + ncorp + exhaustive, "distinct_nontrivial": len(distinct) + exhaustive,
                  "rule": "random op histories (20-90 ops) over key pools aimed at one bucket, prefixes, case variants, empty key, "
                          "embedded zeros, high bytes; distinct = distinct op lists; every history has >= 3 colliding keys",
                  "ops_executed": total_ops, "op_mix": stats["ops"], "modes": stats["modes"],
                  "table_sizes": {str(k): v for k, v in stats["sizes"].items()},
                  "max_distinct_keys_in_one_bucket": stats["max_chain_pool"],
                  "exhaustive_small_scope_sequences": exhaustive, "corpus_cases": ncorp,
                  "raw_visiting_order": dict(RAW),
                  "histories_with_long_key_pairs (15..1000 bytes, common prefix 8..len-1)": stats.get("long_key_cases", 0),
                  "histories_with_shared_prefix_families": stats.get("shared_prefix_families", 0),
                  "histories_with_same_bucket_prefix_families": stats.get("same_bucket_prefix_families", 0)})


def replay(c, path):
    c.lean_obligations()
    binp = vlib.build_harness("h_c20")
    obj = json.loads(open(path).read())
    judge(c, binp, obj["ops"], "replay")
    c.cov.update({"evaluations": 1, "distinct_nontrivial": 1})
