"""C12 — N-best lists and lattice scores are ordered and probabilistically sane.

Lean: SSVerif/Props/C12.lean over the model M12 (SSVerif/Model/Lattice.lean): traversal is a
topological enumeration of the links, the best-path DP returns a maximum, A* results are non-increasing
lattice paths, exact forward/backward (total over paths = forward = backward, alpha*beta <= total).
Tie: harness/h_c11.c dumps, for lattices requested mid-utterance and at the end, the order in which
lattice_traverse_edges/_next hand out the links, lattice_bestpath (link, path_scr, best_prev chain,
alpha), lattice_posterior (beta, norm, result), the A* heuristic left in the nodes and the first k
results of decoder_nbest/hyp_iter_*; `ssdriver c11` evaluates the model's own traverseEdges /
bestpath / remTable / nbest on the dumped lattice and the outputs are compared.  Oracle: the property
is evaluated directly on what the C code returned (order, path membership, score sums, maximum by an
independent DP, posteriors against a float64 reference within the accumulated log-add rounding bound).
"""
import json, math, struct
import vlib
from props import c11 as m


WORST_SCORE = -536870912
T0_DEC = 6932           # first entry of the decoder's log-add table (C12_int_link_posterior_dec)
DELTA = 0.5 + 1e-6     # rounding of one entry of the log-add table (round to nearest, shift 0)
EPS = 1e-5             # float64 slack of the reference


def f32(x):
    return struct.unpack("f", struct.pack("f", x))[0]


def scaled(ascr, ascale):
    """(int32)((ascr << SENSCR_SHIFT) * ascale) with a float32 product"""
    v = f32(float(ascr << 10) * f32(ascale))
    return int(v)        # truncation toward zero


def best_rem(d):
    N, L, G = d["nodes"], d["links"], d["G"]
    e = G["end"]
    exits, _ = m.adjacency(d)
    memo = {}

    def rem(i):
        if i in memo:
            return memo[i]
        if i == e:
            r = 0
        else:
            r = max((L[j]["ascr"] + rem(L[j]["dst"]) for j in exits[i] if rem(L[j]["dst"]) is not None), default=None)
        memo[i] = r
        return r
    return rem


def logsumexp_b(vals, lnb):
    vals = [v for v in vals if v is not None]
    if not vals:
        return None
    mx = max(vals)
    return mx + math.log(sum(math.exp((v - mx) * lnb) for v in vals)) / lnb


def reference_fb(d):
    """float64 forward/backward in the log domain of the decoder's logmath (reference for the rounding bound)"""
    N, L, G, P = d["nodes"], d["links"], d["G"], d["P"]
    s, e = G["start"], G["end"]
    lnb = math.log(P["base"]) * (1 << P["shift"])
    exits, entries = m.adjacency(d)
    sc = [scaled(l["ascr"], P["ascale"]) for l in L]
    order = d["T"]
    alpha = {}
    for j in order:
        l = L[j]
        if l["src"] == s:
            inn = 0.0
        else:
            inn = logsumexp_b([alpha.get(i) for i in entries[l["src"]]], lnb)
        alpha[j] = None if inn is None else inn + sc[j]
    norm = logsumexp_b([alpha.get(j) for j in entries[e]], lnb)
    beta = {}
    for j in reversed(order):
        l = L[j]
        if l["dst"] == e:
            beta[j] = 0.0
        else:
            beta[j] = logsumexp_b([None if beta.get(x) is None else beta[x] + sc[x] for x in exits[l["dst"]]], lnb)
    bwd = logsumexp_b([None if beta.get(x) is None else beta[x] + sc[x] for x in exits[s]], lnb)
    # accumulated rounding bounds: every table addition after the first contribution adds at most DELTA
    # to the largest error among its arguments (log-sum-exp is 1-Lipschitz in the sup norm)
    ea, eb = {}, {}
    for j in order:
        src = L[j]["src"]
        ins = entries[src]
        ea[j] = 0.0 if src == s or not ins else max(ea.get(i, 0.0) for i in ins) + DELTA * max(0, len(ins) - 1)
    for j in reversed(order):
        dst = L[j]["dst"]
        outs = exits[dst]
        eb[j] = 0.0 if dst == e or not outs else max(eb.get(x, 0.0) for x in outs) + DELTA * max(0, len(outs) - 1)
    enorm = (max(ea.get(x, 0.0) for x in entries[e]) + DELTA * max(0, len(entries[e]) - 1)) if entries[e] else 0.0
    ebwd = (max(eb.get(x, 0.0) for x in exits[s]) + DELTA * max(0, len(exits[s]) - 1)) if exits[s] else 0.0
    return sc, alpha, beta, norm, bwd, ea, eb, enorm, ebwd


def judge_c12(c, d, rep, tab, case, stats):
    """returns (violations [(what, found_input)], correspondence mismatches [str])"""
    viol, mism = [], []
    if d["null"] or rep.get("bad"):
        return viol, mism
    N, L, G = d["nodes"], d["links"], d["G"]
    s, e = G["start"], G["end"]
    exits, entries = m.adjacency(d)
    lk = {(l["src"], l["dst"]): j for j, l in enumerate(L)}
    lat_ok = rep["clauses"]["ok"] == 1
    ok_lat = lat_ok and not rep.get("skipped")        # the model was evaluated on this lattice
    if lat_ok and rep.get("skipped"):
        stats["model:not-evaluated-on-very-large-lattice"] = stats.get("model:not-evaluated-on-very-large-lattice", 0) + 1

    def inc(k, by=1):
        stats[k] = stats.get(k, 0) + by
    # ---- traversal
    T = d["T"]
    if T is not None:
        if sorted(T) != list(range(len(L))):
            viol.append((f"lattice_traverse_edges does not hand out every link exactly once: {len(T)} results for {len(L)} links", True))
        else:
            pos = {j: i for i, j in enumerate(T)}
            for j in T:
                for i in entries[L[j]["src"]]:
                    if pos[i] > pos[j]:
                        viol.append((f"traversal hands out link {j} before link {i} into its source node", True))
                        break
        if ok_lat and rep.get("traverse") is not None and rep["traverse"] != T:
            mism.append(f"traverseEdges: model {rep['traverse'][:12]}… C {T[:12]}…")
    # ---- heuristic
    rem = best_rem(d)
    if "RS" in d and lat_ok:
        for i in range(len(N)):
            r = rem(i)
            if r is not None and d["RS"][i] <= 0 and d["RS"][i] != r:
                viol.append((f"A* heuristic of node {i} is {d['RS'][i]}, best remaining score is {r}", True))
        if rep.get("rem") is not None and any(v <= WORST_SCORE for v in rep["rem"]):
            c.oblige("hypothesis of C12_astar_first_is_max (no remaining score underflows WORST_SCORE) holds on the dumped lattice", False,
                     {"case": case, "request": d["tag"]})
        if rep.get("rem") is not None:
            # compared where the C memo is known (<= 0); nodes not below a seed keep the "unknown" mark
            bad = [i for i in range(len(N)) if d["RS"][i] <= 0 and d["RS"][i] != rep["rem"][i]]
            if bad:
                mism.append(f"remTable differs at nodes {bad[:5]}")
    # ---- N-best
    prev = None
    for k, b in enumerate(d["B"]):
        p = b["nodes"]
        if prev is not None and b["score"] > prev:
            viol.append((f"N-best entry {k} has score {b['score']} after {prev}", True))
        prev = b["score"]
        if any(i < 0 for i in p):
            viol.append((f"N-best entry {k} visits a node that is not in the lattice", True))
            continue
        okp = p[-1] == e and N[p[0]]["sf"] == 0
        tot = 0
        for a, c2 in zip(p, p[1:]):
            if (a, c2) not in lk:
                okp = False
                break
            tot += L[lk[(a, c2)]]["ascr"]
        if not okp:
            viol.append((f"N-best entry {k} {p} is not a path from a frame-0 node to the end node", True))
            continue
        if tot != b["score"]:
            viol.append((f"N-best entry {k}: score {b['score']} is not the sum {tot} of its link scores", True))
        if p[0] != s and (s, p[0]) not in lk:
            viol.append((f"N-best entry {k} starts at node {p[0]} which is neither the start node nor a successor of it", True))
        words = " ".join(N[i]["base"] for i in p if not N[i]["fil"] and N[i]["state"] != -1)
        if (b["hyp"] or "") != words:
            viol.append((f"N-best entry {k}: hypothesis {b['hyp']!r} is not the word sequence {words!r} of its path", True))
        segs = d["BX"].get(k, [])
        exp = [(N[i]["word"], N[i]["sf"], (N[p[x + 1]]["sf"] - 1) if x + 1 < len(p) else N[i]["lef"]) for x, i in enumerate(p)]
        if k < 64 and segs != exp:      # the harness dumps the segmentations of the first 64 entries
            viol.append((f"N-best entry {k}: segmentation {segs[:4]} differs from its path {exp[:4]}", True))
    if d["B"]:
        inc("nbest:entries", len(d["B"]))
        bn = d.get("BN", {})
        if bn.get("rejected", 0) > 0:
            inc("nbest:requests-with-agenda-rejections")
        if bn.get("more") == 0:
            inc("nbest:lists-read-to-exhaustion")
        stats["nbest:longest-list-read"] = max(stats.get("nbest:longest-list-read", 0), len(d["B"]))
        stats["nbest:largest-agenda-on-the-real-code"] = max(stats.get("nbest:largest-agenda-on-the-real-code", 0), bn.get("maxnpath", 0))
        if bn.get("more") == 0:
            # the list was read to its end: fewer entries than the lattice has paths from the frame-0 nodes means that the
            # MAX_PATHS truncation of the agenda was hit on the real code and dropped results
            cnt = {}

            def npaths(i):
                if i not in cnt:
                    cnt[i] = 1 if i == e else sum(npaths(L[j]["dst"]) for j in exits[i])
                return cnt[i]
            total = sum(npaths(i) for i, n in enumerate(N) if n["sf"] == 0)
            if len(d["B"]) < total:
                inc("nbest:exhausted-lists-where-MAX_PATHS-truncation-dropped-results")
            elif len(d["B"]) > total:
                viol.append((f"decoder_nbest yields {len(d['B'])} entries, the lattice has only {total} paths from the frame-0 nodes to the end", True))
        seeds = [rem(i) for i, n in enumerate(N) if n["sf"] == 0 and rem(i) is not None]
        if seeds and d["B"][0]["score"] != max(seeds):
            viol.append((f"first N-best score {d['B'][0]['score']} is not the best score {max(seeds)} from the frame-0 nodes", True))
    elif lat_ok and "BN" in d:
        viol.append(("decoder_nbest returned no entry for a well-formed lattice", True))
    if ok_lat and rep.get("nbest") is not None and "BN" in d:
        mb = [(p["score"], p["nodes"]) for p in rep["nbest"]]
        cb = [(b["score"], b["nodes"]) for b in d["B"]]
        if mb != cb:
            if [x[0] for x in mb] != [x[0] for x in cb]:
                mism.append(f"nbest scores: model {[x[0] for x in mb][:10]} C {[x[0] for x in cb][:10]}")
            else:
                inc("nbest:same-scores-different-tie-order")
    # ---- best path
    if "P" in d:
        P = d["P"]
        if P["best"] < 0:
            if L:
                viol.append(("lattice_bestpath returned NULL for a lattice with links", True))
            if ok_lat and rep.get("best") is not None:
                mism.append("bestpath: model returns a link, C returns NULL")
        else:
            mx = rem(s)
            if P["score"] != mx:
                viol.append((f"lattice_bestpath score {P['score']} is not the maximum {mx} over start->end paths", True))
            if d["R"]:
                j, tot, chain = P["best"], 0, []
                while j >= 0 and len(chain) <= len(L):
                    chain.append(j)
                    tot += L[j]["ascr"]
                    j = d["R"][j]["prev"]
                chain.reverse()
                if L[chain[0]]["src"] != s or L[chain[-1]]["dst"] != e or any(L[a]["dst"] != L[b2]["src"] for a, b2 in zip(chain, chain[1:])):
                    viol.append(("the best_prev chain of the returned link is not a start->end path", True))
                elif tot != P["score"]:
                    viol.append((f"the best_prev chain sums to {tot}, path_scr is {P['score']}", True))
            if ok_lat and rep.get("best") is not None and rep["best"]["score"] != P["score"]:
                mism.append(f"bestpath score: model {rep['best']['score']} C {P['score']}")
            if ok_lat and rep.get("best") is None:
                mism.append("bestpath: model returns none, C returns a link")
        # ---- posteriors
        if d["R"] and "Q" in d and T is not None and sorted(T) == list(range(len(L))):
            lz = P["logzero"]
            sc, alpha, beta, norm, bwd, ea, eb, enorm, ebwd = reference_fb(d)
            nl = len(L)
            worst, wbound = 0.0, 0.0
            for j, r in d["R"].items():
                if r["alpha"] <= lz or r["beta"] <= lz:
                    viol.append((f"link {j} has zero forward or backward probability in a lattice where every link is on a start->end path", True))
                    continue
                da, db = r["alpha"] - alpha[j], r["beta"] - beta[j]
                worst = max(worst, abs(da), abs(db))
                wbound = max(wbound, ea[j], eb[j])
                if abs(da) > ea[j] + EPS or abs(db) > eb[j] + EPS:
                    viol.append((f"link {j}: alpha/beta {r['alpha']}/{r['beta']} deviate from the exact values {alpha[j]:.3f}/{beta[j]:.3f} "
                                 f"by more than the accumulated rounding bounds {ea[j]:.1f}/{eb[j]:.1f}", True))
                if r["post"] != r["alpha"] + r["beta"] - d["Q"]["norm"]:
                    viol.append((f"link {j}: ps_latlink_prob {r['post']} is not alpha + beta - norm", True))
                if r["post"] > ea[j] + eb[j] + enorm + EPS:
                    viol.append((f"link {j}: posterior {r['post']} exceeds one by more than the rounding bound {ea[j] + eb[j] + enorm:.1f}", True))
                if alpha[j] + beta[j] - norm > EPS:
                    c.oblige("float64 reference posteriors are <= 1", False, {"link": j})
            if abs(d["Q"]["norm"] - norm) > enorm + EPS:
                viol.append((f"normaliser {d['Q']['norm']} deviates from the exact forward total {norm:.3f} by more than {enorm:.1f}", True))
            # forward total = backward total (exact in the reference, within the bound in integers)
            if abs(norm - bwd) > 1e-9 * max(1.0, abs(norm)) + EPS:
                c.oblige("float64 reference: forward total = backward total", False, {"fwd": norm, "bwd": bwd})
            # the C code does not compute the backward total; it is rebuilt from the C betas with exact sums
            lnb = math.log(P["base"]) * (1 << P["shift"])
            bint = logsumexp_b([d["R"][x]["beta"] + sc[x] for x in exits[s]], lnb)
            if bint is not None and abs(bint - d["Q"]["norm"]) > enorm + ebwd + EPS:
                viol.append((f"backward total {bint:.3f} (from the betas) and forward total {d['Q']['norm']} differ by more than {enorm + ebwd:.1f}", True))
            if d["Q"]["post"] > 0:
                viol.append((f"posterior of the best path {d['Q']['post']} exceeds one", True))
            # the PROVED bound (C12_int_link_posterior_dec): alpha + beta - norm <= t[0] * (|links| + sum of out-degrees of the link
            # targets); its hypotheses (no path prefix / suffix score below log-zero) are evaluated on the lattice
            adds = nl + sum(len(exits[l["dst"]]) for l in L)
            proved = T0_DEC * adds
            wpost = max((r["post"] for r in d["R"].values()), default=0)
            if wpost > proved:
                viol.append((f"a link posterior {wpost} exceeds one by more than the proved accumulated bound {proved} (= {T0_DEC} x {adds} additions)", True))
            lo_pre, lo_suf = {s: 0}, {e: 0}
            for j in T:
                a2, b2 = L[j]["src"], L[j]["dst"]
                if a2 in lo_pre:
                    lo_pre[b2] = min(lo_pre.get(b2, 0), lo_pre[a2] + sc[j])
            for j in reversed(T):
                a2, b2 = L[j]["src"], L[j]["dst"]
                if b2 in lo_suf:
                    lo_suf[a2] = min(lo_suf.get(a2, 0), lo_suf[b2] + sc[j])
            if min(list(lo_pre.values()) + list(lo_suf.values())) < lz:
                c.oblige("hypotheses of C12_int_link_posterior_dec / C12_int_bestpath_posterior_dec (no path score underflows log-zero) hold on the dumped lattice",
                         False, {"case": case, "request": d["tag"]})
            stats["posterior:largest-link-posterior-over-one(log units)"] = max(stats.get("posterior:largest-link-posterior-over-one(log units)", 0), wpost)
            stats["posterior:smallest-proved-bound"] = min(stats.get("posterior:smallest-proved-bound", 10 ** 12), proved) if nl else stats.get("posterior:smallest-proved-bound", 10 ** 12)
            # exact correspondence of the integer passes (model: alphaInt/betaInt/normInt with the decoder's log-add table)
            if ok_lat and rep.get("alpha") is not None and len(rep["alpha"]) == nl:
                inc("posterior:lattices-compared-exactly")
                ca = [d["R"][j]["alpha"] for j in range(nl)]
                cb = [d["R"][j]["beta"] for j in range(nl)]
                if rep["alpha"] != ca:
                    k = next(i for i in range(nl) if rep["alpha"][i] != ca[i])
                    mism.append(f"alphaInt: link {k} model {rep['alpha'][k]} C {ca[k]}")
                if rep["beta"] != cb:
                    k = next(i for i in range(nl) if rep["beta"][i] != cb[i])
                    mism.append(f"betaInt: link {k} model {rep['beta'][k]} C {cb[k]}")
                if rep.get("norm") != d["Q"]["norm"]:
                    mism.append(f"normInt: model {rep.get('norm')} C {d['Q']['norm']}")
            if any(r.get("scaled") is not None and r["scaled"] != sc[j] for j, r in d["R"].items()):
                c.oblige("float32 emulation of the score scaling agrees with the harness", False, {"case": case})
            inc("posterior:links", nl)
            stats["posterior:max-abs-deviation-from-exact"] = max(stats.get("posterior:max-abs-deviation-from-exact", 0.0), round(worst, 3))
            stats["posterior:largest-bound-used"] = max(stats.get("posterior:largest-bound-used", 0.0), round(wbound, 1))
    # ---- history of further calls on the same lattice: every pass must reproduce the first one (which was
    # judged above), whatever was called, repeated or abandoned in between
    if d.get("hist_ops") and "P" in d and d.get("R") and "Q" in d:
        nl = len(L)
        seq = ",".join(h["op"] for h in d["hist_ops"])
        first = dict(S=[d["R"][j]["path_scr"] for j in range(nl)], V=[d["R"][j]["prev"] for j in range(nl)],
                     A=[d["R"][j]["alpha"] for j in range(nl)], E=[d["R"][j]["beta"] for j in range(nl)])
        for h in d["hist_ops"]:
            op, where = h["op"], f"call {h['step']} `{h['op']}` of the history `bestpath,posterior,{seq}` on one lattice"
            inc("history:" + {"b": "bestpath", "p": "posterior", "t": "abandoned-traversal", "r": "abandoned-reverse-traversal", "n": "abandoned-nbest"}[op[0]])
            if op[0] == "b":
                if "best" not in h:
                    viol.append((f"{where}: no result", True))
                    continue
                if h["best"] != d["P"]["best"] or h["score"] != d["P"]["score"]:
                    viol.append((f"{where}: lattice_bestpath returns link {h['best']} score {h['score']}, the first call returned link {d['P']['best']} score {d['P']['score']} (the maximum)", True))
                elif h["HS"] != first["S"] or h["HV"] != first["V"]:
                    viol.append((f"{where}: path scores / best_prev differ from the first lattice_bestpath", True))
                if h["norm"] != d["P"]["norm"] or h["HA"] != first["A"]:
                    viol.append((f"{where}: alphas / normaliser ({h['norm']}) differ from the first forward pass ({d['P']['norm']})", True))
            elif op[0] == "p":
                if "post" not in h:
                    viol.append((f"{where}: no result", True))
                    continue
                if h["HE"] != first["E"]:
                    k = next(i for i in range(nl) if i >= len(h["HE"]) or h["HE"][i] != first["E"][i])
                    viol.append((f"{where}: beta of link {k} is {h['HE'][k] if k < len(h['HE']) else None}, the first lattice_posterior (judged against the exact "
                                 f"values) gave {first['E'][k]} — link posteriors / backward total no longer within the rounding bound", True))
                if h["post"] != d["Q"]["post"] or h["norm"] != d["Q"]["norm"]:
                    viol.append((f"{where}: lattice_posterior returns {h['post']} (norm {h['norm']}), the first call returned {d['Q']['post']} (norm {d['Q']['norm']})", True))
            elif op[0] == "n":
                exp = [b["score"] for b in d["B"]][:len(h.get("HN", []))]
                if h.get("HN", [])[:len(exp)] != exp:
                    viol.append((f"{where}: N-best scores {h.get('HN', [])[:8]} differ from the first read {exp[:8]}", True))
    return viol, mism


def parse_rs(out, lats):
    """attach the RS lines (A* heuristic dump) to the parsed lattices, in order"""
    cur = -1
    for line in out.split("\n"):
        if line.startswith("LAT begin"):
            cur += 1
        elif line.startswith("RS") and 0 <= cur < len(lats):
            lats[cur]["RS"] = [int(t) for t in line.split()[1:]]


def eval_case(c, binp, audios, case, stats):
    rc, out, err, lats = m.run_case(binp, case, audios)
    if rc != 0:
        return None, dict(rc=rc, stderr=err[-2500:], stdout_tail=out[-600:])
    parse_rs(out, lats)
    rcd, reps, derr, tabs = m.run_driver(lats, case["k"], with_build=False)
    if rcd != 0 or len(reps) != len(lats):
        return None, dict(driver_rc=rcd, stderr=derr[-1500:], nrep=len(reps), nlat=len(lats))
    res = []
    for d, rep, tab in zip(lats, reps, tabs):
        if stats is not None:
            m.lat_stats(stats, d, case)
        v, mm = judge_c12(c, d, rep, tab, case, stats if stats is not None else {})
        res.append((d, rep, v, mm))
    return res, None


HIST_OPS = ["b", "p", "p", "t1", "t3", "t7", "r1", "r2", "n2", "n5"]


def gen_history(rng):
    """a history of further lattice API calls (repeated and abandoned passes); `p` only where alphas are valid"""
    ops = [rng.choice(HIST_OPS) for _ in range(rng.range(4, 9))]
    # classes that must always be present: posterior twice in a row, bestpath right after an abandoned traversal
    ops += ["p", "p", rng.choice(["t2", "t5"]), "b", "p", rng.choice(["r1", "r3"]), "p", "b"]
    return ",".join(ops)


# lattices on which more than MAX_PATHS partial paths are alive, N-best read to exhaustion
DEEP_CASES = [
    dict(grammar=None, kind="pizza", audio="pizza", cfg=[], cut=None, mids=[], beam="default", k=6000),
    dict(grammar="#JSGF V1.0; grammar g; public <g> = (go | forward | ten | meters | tend | meet)+ ;", kind="loop", audio="goforward",
         cfg=["beam=1e-60", "wbeam=1e-40", "pbeam=1e-60"], cut=None, mids=[], beam="wide", k=6000),
]


def deep_cases(rng, audios, n):
    import os
    res = []
    for c0 in DEEP_CASES[:n]:
        c1 = dict(c0)
        if c1["grammar"] is None:
            c1["grammar"] = (m.DATA / "pizza.gram").read_text()
        c1["cut"] = os.path.getsize(audios[c1["audio"]]) // 2
        c1["ops"] = gen_history(rng)
        res.append(c1)
    return res


def gen_case(rng, audios):
    case = m.gen_case(rng, audios, k=rng.weighted([(8, 5), (40, 3), (150, 2)]))
    case["ops"] = gen_history(rng)
    if rng.chance(0.25):
        # large lattices: wide beams and a loop grammar, long N-best prefix (agenda pressure)
        case["cfg"] = [o for o in case["cfg"] if "beam" not in o] + list(m.BEAMS["wide"])
        case["beam"] = "wide"
    return case


def check(c):
    c.trusted += ["harness/h_c11.c + tools/props/c11.py, c12.py (dump, generator, float32 emulation of the score scaling, float64 reference of the log-domain sums)",
                  "clang ASan/UBSan/LSan as observer of memory errors in ps_lattice.c (any report fails the run)"]
    c.assumptions += ["the property is evaluated on lattices satisfying C11 (checked by latticeOKB in the same run)",
                      "N-best scores omit the link out of the synthetic <s> node when the path is seeded at a frame-0 word node (A* seeds every frame-0 node); "
                      "the property does not relate the first N-best score to the best-path score and neither does the check",
                      "integer link posteriors: the proved bound t[0] x (number of log-additions) (C12_int_link_posterior_dec) is checked, and in addition the sharper "
                      "estimate of half a unit per table addition accumulated along the dependency chain of each alpha/beta/norm against a float64 reference "
                      "(sup-norm Lipschitz argument; not proved)"]
    if not c.lean_obligations():
        return
    import re
    mt = re.search(r"def dec_runs_0 : List \(Nat × Nat\) := \[\((\d+),", (vlib.LEAN / "SSVerif" / "Generated" / "LogTables.lean").read_text())
    c.oblige("t[0] of the regenerated decoder log-add table is the constant of C12_int_link_posterior_dec used by the check", bool(mt) and int(mt.group(1)) == T0_DEC,
             mt.group(1) if mt else "dec_runs_0 not found")
    binp = vlib.build_harness("h_c11")
    audios = m.audio_files(str(c.scratch / "audio"))
    rng = c.rng.fork()
    stats = {}
    ncases = 22 if c.tier == "quick" else 700
    cases = [dict(x, _corpus=True) for x in m.load_corpus("C12")]
    ncorp = len(cases)
    ndeep = len(cases)
    cases += deep_cases(rng, audios, 2)
    ndeep = len(cases) - ndeep
    for _ in range(ncases):
        cs = gen_case(rng, audios)
        if rng.chance(0.4):
            cs = m.aim_case(rng, cs, audios, stats)
        cases.append(cs)
    if c.tier == "thorough":
        # more deep reads: the generated grammars with wide beams, whole audio, list read to exhaustion (cap 6000)
        for _ in range(25):
            cs = gen_case(rng, audios)
            cs.update(cfg=[o for o in cs["cfg"] if "beam" not in o] + list(m.BEAMS["wide"]), beam="wide", k=6000, mids=[])
            cases.append(cs)
    nlat, distinct, viols, nmism, harness_ok = 0, set(), [], 0, True
    for ci, case in enumerate(cases):
        res, fail = eval_case(c, binp, audios, case, stats)
        if fail:
            harness_ok = False
            c.oblige("harness + driver run to completion without sanitizer report / abort", False, {"case": m.describe(case), **fail})
            viols.append((True, {"kind": "sanitizer report, abort or exit inside the lattice code", "case": m.describe(case), **fail,
                                 "case_raw": {k: v for k, v in case.items() if not k.startswith("_")}}, None, None))
            if len(viols) > 8:
                break
            continue
        if ci < ncorp + 2:
            c.samples.append(dict(m.describe(case), lattices=[("NULL" if d["null"] else f"{len(d['nodes'])} nodes/{len(d['links'])} links, {len(d['B'])} N-best entries")
                                                             for d, _, _, _ in res]))
        for (d, rep, v, mm) in res:
            nlat += 1
            if not d["null"]:
                distinct.add((case["grammar"], case["audio"], tuple(case["cfg"]), d["frame"]))
            for (what, found) in v:
                viols.append((found, {"kind": "lattice search results violate C12", "what": what, "request": d["tag"], "n_frames": d["frame"],
                                      "nbest": [(b["score"], b["nodes"]) for b in d["B"]][:12], "bestpath": d.get("P"),
                                      "lattice_nodes": [(n["word"], n["sf"], n["fef"], n["lef"], n["state"]) for n in d["nodes"]][:60],
                                      "lattice_links": [(l["src"], l["dst"], l["ef"], l["ascr"]) for l in d["links"]][:150],
                                      "how_to_rerun": "python3 tools/check.py C12 --replay <this file>"}, case, d["tag"]))
            for t in mm:
                nmism += 1
                if nmism <= 3:
                    c.oblige("correspondence model = implementation (traversal order / best path / heuristic / N-best)", False,
                             {"case": m.describe(case), "request": d["tag"], "mismatch": t})
        if len(viols) > 40:
            break
    viols.sort(key=lambda v: (not v[0],))
    seen, nrec = set(), 0
    for (found, obj, case, tag) in viols:
        cls = obj.get("what", obj["kind"]).split(":")[0][:50]
        cls = "".join(ch for ch in cls if not ch.isdigit())
        if cls in seen or nrec >= 6:
            continue
        seen.add(cls)
        nrec += 1
        if case is not None:
            small = case
            if found and not case.get("_corpus"):
                def still(cand, cls=cls):
                    r2, f2 = eval_case(c, binp, audios, cand, None)
                    if f2 or not r2:
                        return False
                    return any("".join(ch for ch in w2.split(":")[0][:50] if not ch.isdigit()) == cls for (_, _, v2, _) in r2 for (w2, _) in v2)
                small = m.shrink_case(c, binp, audios, case, tag, still)
            obj = dict(obj, case=m.describe(small), case_raw={k: v for k, v in small.items() if not k.startswith("_")})
        c.violation(obj, found)
    c.oblige("oracle on the implementation's output: N-best order, path membership, score sums and hypothesis strings; best path = maximum; "
             "traversal topological; posteriors within the rounding bound, best-path posterior <= 1, forward = backward total", not viols,
             f"{len(viols)} violations in {nlat} lattice requests")
    c.oblige("correspondence: traverseEdges / bestpath score / remTable / nbest of the model = lattice_traverse_edges / lattice_bestpath / best_rem_score / "
             "decoder_nbest on every dumped lattice", nmism == 0, f"{nmism} mismatches")
    c.oblige("every harness run finished without sanitizer report, assert or leak", harness_ok)
    if harness_ok:
        c.oblige("the deep N-best cases reached more than MAX_PATHS live partial paths on the real code and were read to exhaustion "
                 "(agenda truncation branch exercised)", stats.get("nbest:exhausted-lists-where-MAX_PATHS-truncation-dropped-results", 0) >= 1
                 and stats.get("nbest:largest-agenda-on-the-real-code", 0) > 500, {k: v for k, v in stats.items() if k.startswith("nbest")})
    c.cov.update({"evaluations": nlat, "distinct_nontrivial": len(distinct),
                  "rule": "one evaluation = one lattice request with N-best, best path and posteriors; non-trivial = a lattice was returned; "
                          "distinct by (grammar, audio, config, frame count)",
                  "cases": len(cases), "corpus_cases": ncorp, "distribution": dict(sorted(stats.items()))})


def replay(c, path):
    c.lean_obligations()
    binp = vlib.build_harness("h_c11")
    audios = m.audio_files(str(c.scratch / "audio"))
    obj = json.loads(open(path).read())
    case = obj["case_raw"]
    res, fail = eval_case(c, binp, audios, case, {})
    if fail:
        c.violation({"kind": "sanitizer report, abort or exit inside the lattice code", "case": m.describe(case), **fail, "case_raw": case}, True)
    else:
        for (d, rep, v, mm) in res:
            for (what, found) in v:
                c.violation({"kind": "lattice search results violate C12", "what": what, "request": d["tag"], "case": m.describe(case), "case_raw": case}, found)
            for t in mm:
                c.oblige("correspondence model = implementation", False, {"request": d["tag"], "mismatch": t})
    c.cov.update({"evaluations": 1, "distinct_nontrivial": 1})
