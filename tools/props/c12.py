"""C12 — N-best lists and lattice scores are ordered and probabilistically sane.

Lean: SSVerif/Props/C12.lean over the model M12 (SSVerif/Model/Lattice.lean): traversal is a
topological enumeration of the links, the best-path DP returns a maximum, A* results are non-increasing
lattice paths, exact forward/backward (total over paths = forward = backward, alpha*beta <= total).
Tie: harness/h_c11.c dumps, for lattices requested mid-utterance and at the end, the order in which
lattice_traverse_edges/_next hand out the links, lattice_bestpath (link, path_scr, best_prev chain,
alpha), lattice_posterior (beta, norm, result), the A* heuristic left in the nodes and the first k
results of decoder_nbest/hyp_iter_*; `ssdriver c11` evaluates the model's own traverseEdges /
bestpath / remTable / nbest on the dumped lattice and the outputs are compared.  Oracle: the property
is evaluated directly on what the C code returned (order, path membership, score sums, maximum by an
independent DP, posteriors against a float64 reference within the accumulated log-add rounding bound).
"""
import array, json, math, os, re, struct
import vlib
from props import c11 as m


WORST_SCORE = -536870912
T0_DEC = 6932           # first entry of the decoder's log-add table (C12_int_link_posterior_dec)
DELTA = 0.5 + 1e-6     # rounding of one entry of the log-add table (round to nearest, shift 0)
EPS = 1e-5             # float64 slack of the reference
# Props/C12Round.lean: eta = 1/2 + log_B(2^20/(2^20-1)) is the proved accuracy of one table addition
# (C19_logAdd_is_rounded_log_of_sum), eta <= 51/100 (C12_int_passes_accurate_dec)
ETA = 0.5 + math.log(2 ** 20 / (2 ** 20 - 1)) / math.log(1.0001)
ETA_NUM, ETA_DEN = 51, 100
INT32_HI = 2 ** 31

_DEC = None


def dec_table():
    """the decoder's log-add table as regenerated from the running code (the table of cfgDec)"""
    global _DEC
    if _DEC is None:
        txt = (vlib.LEAN / "SSVerif" / "Generated" / "LogTables.lean").read_text()
        chunks = {int(k): body for k, body in re.findall(r"def dec_runs_(\d+) : List \(Nat × Nat\) := \[(.*?)\]\n", txt)}
        tab = []
        for k in sorted(chunks):
            for v, n in re.findall(r"\((\d+), (\d+)\)", chunks[k]):
                tab += [int(v)] * int(n)
        zero = int(re.search(r"def dec_zero : Int := (-?\d+)", txt).group(1))
        size = int(re.search(r"def dec_size : Nat := (\d+)", txt).group(1))
        _DEC = (tab, zero, size)
    return _DEC


def logadd_dec(x, y):
    """logmath_add with the decoder's table (mirror of Model/LogAdd.lean logAdd, int32 arguments)"""
    tab, zero, _ = dec_table()
    if x <= zero:
        return y
    if y <= zero:
        return x
    d, r = (x - y, x) if x > y else (y - x, y)
    if d >= INT32_HI or d >= len(tab):
        return r
    return r + tab[d]


def round_driver(lats):
    """`ssdriver c12r` on every lattice with posteriors: Boolean checkers roundHypsB / budOKB, budgets, normaliser and backward
    total recomputed by the model's logAdd from the C alphas/betas, exact forward/backward totals over N; result in d['_round']"""
    text, idx = [], []
    for i, d in enumerate(lats):
        if d["null"] or not d.get("R") or "Q" not in d or not d["links"] or len(d["links"]) > m.MAX_LINKS_MODEL:
            continue
        nl = len(d["links"])
        if sorted(d["R"]) != list(range(nl)) or any(d["R"][j].get("scaled") is None for j in range(nl)):
            continue
        G = d["G"]
        text.append(f"begin {G['nframes']} {G['start']} {G['end']}")
        text += [f"n 0 {n['sf']} {n['fef']} {n['lef']} {n['state']}" for n in d["nodes"]]
        text += [f"l {l['src']} {l['dst']} {l['ef']} {l['ascr']}" for l in d["links"]]
        text.append("c " + " ".join(str(d["R"][j]["scaled"]) for j in range(nl)))
        text.append("e " + " ".join(str(j) for j in d["entries"].get(G["end"], [])))
        text.append("al " + " ".join(str(d["R"][j]["alpha"]) for j in range(nl)))
        text.append("be " + " ".join(str(d["R"][j]["beta"]) for j in range(nl)))
        text.append("run")
        idx.append(i)
    if not idx:
        return None
    rc, out, err = vlib.run_driver("c12r", "\n".join(text) + "\n", timeout=900)
    reps, cur = [], {}
    for line in out.split("\n"):
        w = line.split()
        if not w:
            continue
        if w[0] == "end":
            reps.append(cur)
            cur = {}
        elif w[0] == "bad-input":
            cur["bad"] = True
        elif w[0] == "hyps":
            cur["hyps"] = int(w[1])
        elif w[0] == "bud":
            cur["bud"] = m.kv(w[1:])
        elif w[0] in ("ea", "eb"):
            cur[w[0]] = [int(t) for t in w[1:]]
        elif w[0] in ("norm", "bwd", "remok"):
            cur[w[0]] = int(w[1])
        elif w[0] == "exact":
            cur["exact"] = None if w[1] == "skipped" else m.kv(w[1:])
    if rc != 0 or len(reps) != len(idx):
        return dict(rc=rc, stderr=err[-1500:], nrep=len(reps), nlat=len(idx))
    for i, r in zip(idx, reps):
        lats[i]["_round"] = r
    return None


def budgets(d, T):
    """budA/budB/budN/budW of Proofs/LatticePostBudget.lean: number of table additions whose rounding can
    accumulate in alpha / beta of every link, in the normaliser and in the backward total"""
    L, G = d["links"], d["G"]
    s, e = G["start"], G["end"]
    exits, entries = m.adjacency(d)
    na, nb = {}, {}

    def node_a(v):
        if v not in na:
            ins = entries[v]
            na[v] = (max(ba[i] for i in ins) + len(ins) - 1) if ins else 0
        return na[v]

    def node_b(v):
        if v not in nb:
            outs = exits[v]
            nb[v] = (max(bb[x] for x in outs) + len(outs) - 1) if outs else 0
        return nb[v]
    ba, bb = {}, {}
    for j in T:                       # topological: all entries of the source are done
        ba[j] = node_a(L[j]["src"])
    for j in reversed(T):
        bb[j] = node_b(L[j]["dst"])
    return ba, bb, node_a(e), node_b(s)


def f32(x):
    return struct.unpack("f", struct.pack("f", x))[0]


def scaled(ascr, ascale):
    """(int32)((ascr << SENSCR_SHIFT) * ascale) with a float32 product"""
    v = f32(float(ascr << 10) * f32(ascale))
    return int(v)        # truncation toward zero


def best_rem(d):
    N, L, G = d["nodes"], d["links"], d["G"]
    e = G["end"]
    exits, _ = m.adjacency(d)
    memo = {}

    def rem(i):
        if i in memo:
            return memo[i]
        if i == e:
            r = 0
        else:
            r = max((L[j]["ascr"] + rem(L[j]["dst"]) for j in exits[i] if rem(L[j]["dst"]) is not None), default=None)
        memo[i] = r
        return r
    return rem


def logsumexp_b(vals, lnb):
    vals = [v for v in vals if v is not None]
    if not vals:
        return None
    mx = max(vals)
    return mx + math.log(sum(math.exp((v - mx) * lnb) for v in vals)) / lnb


def reference_fb(d):
    """float64 forward/backward in the log domain of the decoder's logmath (reference for the rounding bound)"""
    N, L, G, P = d["nodes"], d["links"], d["G"], d["P"]
    s, e = G["start"], G["end"]
    lnb = math.log(P["base"]) * (1 << P["shift"])
    exits, entries = m.adjacency(d)
    sc = [scaled(l["ascr"], P["ascale"]) for l in L]
    order = d["T"]
    alpha = {}
    for j in order:
        l = L[j]
        if l["src"] == s:
            inn = 0.0
        else:
            inn = logsumexp_b([alpha.get(i) for i in entries[l["src"]]], lnb)
        alpha[j] = None if inn is None else inn + sc[j]
    norm = logsumexp_b([alpha.get(j) for j in entries[e]], lnb)
    beta = {}
    for j in reversed(order):
        l = L[j]
        if l["dst"] == e:
            beta[j] = 0.0
        else:
            beta[j] = logsumexp_b([None if beta.get(x) is None else beta[x] + sc[x] for x in exits[l["dst"]]], lnb)
    bwd = logsumexp_b([None if beta.get(x) is None else beta[x] + sc[x] for x in exits[s]], lnb)
    # accumulated rounding bounds: every table addition after the first contribution adds at most DELTA
    # to the largest error among its arguments (log-sum-exp is 1-Lipschitz in the sup norm)
    ea, eb = {}, {}
    for j in order:
        src = L[j]["src"]
        ins = entries[src]
        ea[j] = 0.0 if src == s or not ins else max(ea.get(i, 0.0) for i in ins) + DELTA * max(0, len(ins) - 1)
    for j in reversed(order):
        dst = L[j]["dst"]
        outs = exits[dst]
        eb[j] = 0.0 if dst == e or not outs else max(eb.get(x, 0.0) for x in outs) + DELTA * max(0, len(outs) - 1)
    enorm = (max(ea.get(x, 0.0) for x in entries[e]) + DELTA * max(0, len(entries[e]) - 1)) if entries[e] else 0.0
    ebwd = (max(eb.get(x, 0.0) for x in exits[s]) + DELTA * max(0, len(exits[s]) - 1)) if exits[s] else 0.0
    return sc, alpha, beta, norm, bwd, ea, eb, enorm, ebwd


def judge_round(c, d, T, sc, alpha, beta, norm, exits, entries, adds, lo_pre, lo_suf, viol, stats, case):
    """Props/C12Round.lean on one dumped lattice that satisfies the C11 predicate: hypotheses RoundHyps, then
    C12_int_posterior_le_one_plus_budget, C12_int_forward_backward_totals_agree,
    C12_int_link_posterior_ge_path_posterior (integer inequalities on the C values) and
    C12_int_passes_accurate_dec (C values against the float64 reference of the exact logarithms)"""
    L, G, P, R, Q = d["links"], d["G"], d["P"], d["R"], d["Q"]
    s, e = G["start"], G["end"]
    nl = len(L)
    tab, zero, size = dec_table()

    def inc(k, by=1):
        stats[k] = stats.get(k, 0) + by
    cfg_ok = abs(P["base"] - 1.0001) < 1e-12 and P["shift"] == 0 and P["logzero"] == zero and len(tab) == size
    if not cfg_ok:
        c.oblige("the decoder's logmath is the configuration cfgDec of C12Round (base 1.0001, shift 0, regenerated table)", False,
                 {"P": P, "zero": zero})
        return
    # RoundHyps: strict no-underflow (prefix/suffix minima, the empty path included) and no overflow with 6932 per addition
    hi_pre, hi_suf = {s: 0}, {e: 0}
    for j in T:
        a2, b2 = L[j]["src"], L[j]["dst"]
        if a2 in hi_pre:
            hi_pre[b2] = max(hi_pre.get(b2, hi_pre[a2] + sc[j]), hi_pre[a2] + sc[j])
    for j in reversed(T):
        a2, b2 = L[j]["src"], L[j]["dst"]
        if b2 in hi_suf:
            hi_suf[a2] = max(hi_suf.get(a2, hi_suf[b2] + sc[j]), hi_suf[b2] + sc[j])
    # (start / end themselves also carry the empty path, score 0)
    mx_pre = max(list(hi_pre.values()) + [0])
    mx_suf = max(list(hi_suf.values()) + [0])
    ba, bb, bn, bw = budgets(d, T)
    kb = max(list(bb.values()) + [bw])                   # KB: a bound of all backward budgets (budKB)
    hyp = (min(list(lo_pre.values()) + list(lo_suf.values()) + [0]) > zero
           and mx_pre + T0_DEC * (nl + len(entries[e])) < INT32_HI
           and mx_suf + T0_DEC * kb < INT32_HI)
    if not hyp:
        inc("round:lattices-outside-RoundHyps")
        c.oblige("hypotheses RoundHyps of the C12Round theorems (no path score at or below log-zero, scores + 6932 per log-addition of the forward pass / of the largest backward budget below 2^31) "
                 "hold on the dumped lattice", False, {"case": case, "request": d["tag"], "min_prefix": min(lo_pre.values()),
                                                       "min_suffix": min(lo_suf.values()), "max_prefix": mx_pre, "max_suffix": mx_suf})
        return
    inc("round:lattices")
    cnorm = Q["norm"]
    # the Lean side (ssdriver c12r): Boolean checkers with soundness theorems (C12_round_checked), budgets, recomputed totals
    rr = d.get("_round")
    if rr is None:
        inc("round:lattices-judged-without-the-driver(more links than the model evaluates)")
    elif rr.get("bad"):
        c.oblige("ssdriver c12r accepts the dumped lattice", False, {"case": case, "request": d["tag"]})
    else:
        inc("round:lattices-with-roundHypsB-and-budOKB-evaluated-by-the-driver")
        if rr["hyps"] != 1 or rr["bud"]["ok"] != 1:
            c.oblige("roundHypsB / budOKB (hypotheses of C12_round_checked) evaluate to true in the driver on the dumped lattice", False,
                     {"case": case, "request": d["tag"], "hyps": rr["hyps"], "bud": rr["bud"]})
        ea, eb = rr["ea"], rr["eb"]
        if ([ea[L[j]["src"]] for j in range(nl)] != [ba[j] for j in range(nl)] or [eb[L[j]["dst"]] for j in range(nl)] != [bb[j] for j in range(nl)]
                or rr["bud"]["n"] != bn or rr["bud"]["w"] != bw or rr["bud"]["kb"] != kb):
            c.oblige("budgets of the driver (budsOf, certified by budOKB) = budgets recomputed in python (closed form of budA/budB/budN/budW)", False,
                     {"case": case, "request": d["tag"], "driver": rr["bud"], "python": [bn, bw, kb]})
        if rr["norm"] != cnorm:
            viol.append((f"normaliser {cnorm} is not the log-sum {rr['norm']} (model logAdd, entry-list order) of the alphas of the links entering the end node", True))
        rr_exact = rr.get("exact")
        if rr_exact is not None:
            inc("round:lattices-with-exact-passes-over-N-run-by-the-driver")
            if rr_exact["fwd"] != rr_exact["bwd"] or rr_exact["fwd"] <= 0:
                c.oblige("exact instance (+,*) over N of the generic passes alphaGen/betaGen on the dumped lattice: forward total = backward total > 0 "
                         "(C12_exact_forward_backward evaluated by the Lean functions)", False, {"case": case, "request": d["tag"], "exact": rr_exact})
    worst_slack = stats.get("round:smallest-slack-of-the-posterior-bound(1/100 log units)")
    for j in range(nl):
        r = R[j]
        K = ba[j] + bb[j] + bn
        post = r["alpha"] + r["beta"] - cnorm
        slack = ETA_NUM * K - ETA_DEN * post
        if slack < 0:
            viol.append((f"link {j}: posterior alpha+beta-norm = {post} exceeds one by more than the PROVED accumulated rounding bound "
                         f"0.51 x {K} table additions (C12_int_posterior_le_one_plus_budget)", True))
        worst_slack = slack if worst_slack is None else min(worst_slack, slack)
        inc("round:links")
        if post > 0:
            inc("round:links-with-posterior-above-one")
            stats["round:largest-posterior-over-budget-ratio(post/K)"] = max(stats.get("round:largest-posterior-over-budget-ratio(post/K)", 0.0), round(post / max(K, 1), 3))
        if K == 0:
            inc("round:links-with-zero-budget")
        inc("round:slack-histogram(log units):" + ("<1" if slack < 100 else "1-9" if slack < 1000 else "10-99" if slack < 10000 else ">=100"))
        # accuracy against the float64 reference of the exact logarithm
        for what, cv, ref, bud in (("alpha", r["alpha"], alpha[j], ba[j]), ("beta", r["beta"], beta[j], bb[j])):
            dev = abs(cv - ref)
            if dev > ETA * bud + EPS:
                viol.append((f"link {j}: {what} {cv} deviates from the exact logarithm {ref:.4f} by {dev:.3f} > eta x {bud} table additions "
                             f"(C12_int_passes_accurate_dec)", True))
            if bud:
                stats["round:largest-deviation-over-budget(" + what + ")"] = max(stats.get("round:largest-deviation-over-budget(" + what + ")", 0.0), round(dev / (ETA * bud), 3))
        stats["round:largest-budget(alpha+beta+norm)"] = max(stats.get("round:largest-budget(alpha+beta+norm)", 0), K)
    stats["round:smallest-slack-of-the-posterior-bound(1/100 log units)"] = worst_slack
    if abs(cnorm - norm) > ETA * bn + EPS:
        viol.append((f"normaliser {cnorm} deviates from the exact forward total {norm:.4f} by more than eta x {bn} (C12_int_passes_accurate_dec)", True))
    # backward total with the same integer log-add, from the C betas (bwdInt), against the normaliser
    bwd = zero
    for x in exits[s]:
        bwd = logadd_dec(bwd, R[x]["beta"] + sc[x])
    if rr is not None and not rr.get("bad") and rr["bwd"] != bwd:
        c.oblige("backward total recomputed by the driver (bwdInt with the model's logAdd) = python's table log-add", False,
                 {"case": case, "request": d["tag"], "driver": rr["bwd"], "python": bwd})
    gap = abs(cnorm - bwd)
    if ETA_DEN * gap > ETA_NUM * (bn + bw):
        viol.append((f"forward total {cnorm} and backward total {bwd} differ by more than the PROVED bound 0.51 x ({bn} + {bw}) "
                     f"(C12_int_forward_backward_totals_agree)", True))
    stats["round:largest-forward-backward-gap"] = max(stats.get("round:largest-forward-backward-gap", 0), gap)
    stats["round:smallest-forward-backward-slack(1/100 log units)"] = min(stats.get("round:smallest-forward-backward-slack(1/100 log units)", 10 ** 12),
                                                                           ETA_NUM * (bn + bw) - ETA_DEN * gap)
    # lower sandwich: links on the best path (the chain lattice_posterior backtraces) have at least the path posterior
    if d.get("P") and d["P"].get("best", -1) >= 0:
        k, chain = d["P"]["best"], []
        while k is not None and k >= 0 and k not in chain and k in R:
            chain.append(k)
            k = R[k]["prev"]
        if chain and L[chain[-1]]["src"] == s and L[chain[0]]["dst"] == e:
            joint = sum(sc[k] for k in chain)
            for k in chain:
                lp = R[k]["alpha"] + R[k]["beta"] - cnorm
                if lp < joint - cnorm:
                    viol.append((f"link {k} on the best path has posterior {lp} below the posterior {joint - cnorm} of the best path itself "
                                 f"(C12_int_link_posterior_ge_path_posterior)", True))
                inc("round:best-path-links-checked-against-path-posterior")


def judge_c12(c, d, rep, tab, case, stats):
    """returns (violations [(what, found_input)], correspondence mismatches [str])"""
    viol, mism = [], []
    if d["null"] or rep.get("bad"):
        return viol, mism
    N, L, G = d["nodes"], d["links"], d["G"]
    s, e = G["start"], G["end"]
    exits, entries = m.adjacency(d)
    lk = {(l["src"], l["dst"]): j for j, l in enumerate(L)}
    lat_ok = rep["clauses"]["ok"] == 1
    ok_lat = lat_ok and not rep.get("skipped")        # the model was evaluated on this lattice
    if lat_ok and rep.get("skipped"):
        stats["model:not-evaluated-on-very-large-lattice"] = stats.get("model:not-evaluated-on-very-large-lattice", 0) + 1

    def inc(k, by=1):
        stats[k] = stats.get(k, 0) + by
    # ---- traversal
    T = d["T"]
    if T is not None:
        if sorted(T) != list(range(len(L))):
            viol.append((f"lattice_traverse_edges does not hand out every link exactly once: {len(T)} results for {len(L)} links", True))
        else:
            pos = {j: i for i, j in enumerate(T)}
            for j in T:
                for i in entries[L[j]["src"]]:
                    if pos[i] > pos[j]:
                        viol.append((f"traversal hands out link {j} before link {i} into its source node", True))
                        break
        if ok_lat and rep.get("traverse") is not None and rep["traverse"] != T:
            mism.append(f"traverseEdges: model {rep['traverse'][:12]}… C {T[:12]}…")
    # ---- heuristic
    rem = best_rem(d)
    if "RS" in d and lat_ok:
        for i in range(len(N)):
            r = rem(i)
            if r is not None and d["RS"][i] <= 0 and d["RS"][i] != r:
                viol.append((f"A* heuristic of node {i} is {d['RS'][i]}, best remaining score is {r}", True))
        rr0 = d.get("_round")
        if (rep.get("rem") is not None and any(v <= WORST_SCORE for v in rep["rem"])) or (rr0 and not rr0.get("bad") and rr0.get("remok") != 1):
            # remOKB evaluated by the driver (soundness: remOKB_sound, used through C12_old_hyps_checked), cross-checked on the dumped table
            c.oblige("hypothesis of C12_astar_first_is_max (no remaining score underflows WORST_SCORE; remOKB in the driver) holds on the dumped lattice", False,
                     {"case": case, "request": d["tag"], "remOKB": rr0.get("remok") if rr0 else None})
        if rep.get("rem") is not None:
            # compared where the C memo is known (<= 0); nodes not below a seed keep the "unknown" mark
            bad = [i for i in range(len(N)) if d["RS"][i] <= 0 and d["RS"][i] != rep["rem"][i]]
            if bad:
                mism.append(f"remTable differs at nodes {bad[:5]}")
    # ---- N-best
    prev = None
    for k, b in enumerate(d["B"]):
        p = b["nodes"]
        if prev is not None and b["score"] > prev:
            viol.append((f"N-best entry {k} has score {b['score']} after {prev}", True))
        prev = b["score"]
        if any(i < 0 for i in p):
            viol.append((f"N-best entry {k} visits a node that is not in the lattice", True))
            continue
        okp = p[-1] == e and N[p[0]]["sf"] == 0
        tot = 0
        for a, c2 in zip(p, p[1:]):
            if (a, c2) not in lk:
                okp = False
                break
            tot += L[lk[(a, c2)]]["ascr"]
        if not okp:
            viol.append((f"N-best entry {k} {p} is not a path from a frame-0 node to the end node", True))
            continue
        if tot != b["score"]:
            viol.append((f"N-best entry {k}: score {b['score']} is not the sum {tot} of its link scores", True))
        if p[0] != s and (s, p[0]) not in lk:
            viol.append((f"N-best entry {k} starts at node {p[0]} which is neither the start node nor a successor of it", True))
        words = " ".join(N[i]["base"] for i in p if not N[i]["fil"] and N[i]["state"] != -1)
        if (b["hyp"] or "") != words:
            viol.append((f"N-best entry {k}: hypothesis {b['hyp']!r} is not the word sequence {words!r} of its path", True))
        segs = d["BX"].get(k, [])
        exp = [(N[i]["word"], N[i]["sf"], (N[p[x + 1]]["sf"] - 1) if x + 1 < len(p) else N[i]["lef"]) for x, i in enumerate(p)]
        if k < 64 and segs != exp:      # the harness dumps the segmentations of the first 64 entries
            viol.append((f"N-best entry {k}: segmentation {segs[:4]} differs from its path {exp[:4]}", True))
    if d["B"]:
        inc("nbest:entries", len(d["B"]))
        bn = d.get("BN", {})
        if bn.get("rejected", 0) > 0:
            inc("nbest:requests-with-agenda-rejections")
        if bn.get("more") == 0:
            inc("nbest:lists-read-to-exhaustion")
        stats["nbest:longest-list-read"] = max(stats.get("nbest:longest-list-read", 0), len(d["B"]))
        stats["nbest:largest-agenda-on-the-real-code"] = max(stats.get("nbest:largest-agenda-on-the-real-code", 0), bn.get("maxnpath", 0))
        if bn.get("more") == 0:
            # the list was read to its end: fewer entries than the lattice has paths from the frame-0 nodes means that the
            # MAX_PATHS truncation of the agenda was hit on the real code and dropped results
            cnt = {}

            def npaths(i):
                if i not in cnt:
                    cnt[i] = 1 if i == e else sum(npaths(L[j]["dst"]) for j in exits[i])
                return cnt[i]
            total = sum(npaths(i) for i, n in enumerate(N) if n["sf"] == 0)
            if len(d["B"]) < total:
                inc("nbest:exhausted-lists-where-MAX_PATHS-truncation-dropped-results")
            elif len(d["B"]) > total:
                viol.append((f"decoder_nbest yields {len(d['B'])} entries, the lattice has only {total} paths from the frame-0 nodes to the end", True))
        seeds = [rem(i) for i, n in enumerate(N) if n["sf"] == 0 and rem(i) is not None]
        if seeds and d["B"][0]["score"] != max(seeds):
            viol.append((f"first N-best score {d['B'][0]['score']} is not the best score {max(seeds)} from the frame-0 nodes", True))
    elif lat_ok and "BN" in d:
        viol.append(("decoder_nbest returned no entry for a well-formed lattice", True))
    if ok_lat and rep.get("nbest") is not None and "BN" in d:
        mb = [(p["score"], p["nodes"]) for p in rep["nbest"]]
        cb = [(b["score"], b["nodes"]) for b in d["B"]]
        if mb != cb:
            if [x[0] for x in mb] != [x[0] for x in cb]:
                mism.append(f"nbest scores: model {[x[0] for x in mb][:10]} C {[x[0] for x in cb][:10]}")
            else:
                inc("nbest:same-scores-different-tie-order")
    # ---- best path
    if "P" in d:
        P = d["P"]
        if P["best"] < 0:
            if L:
                viol.append(("lattice_bestpath returned NULL for a lattice with links", True))
            if ok_lat and rep.get("best") is not None:
                mism.append("bestpath: model returns a link, C returns NULL")
        else:
            mx = rem(s)
            if P["score"] != mx:
                viol.append((f"lattice_bestpath score {P['score']} is not the maximum {mx} over start->end paths", True))
            if d["R"]:
                j, tot, chain = P["best"], 0, []
                while j >= 0 and len(chain) <= len(L):
                    chain.append(j)
                    tot += L[j]["ascr"]
                    j = d["R"][j]["prev"]
                chain.reverse()
                if L[chain[0]]["src"] != s or L[chain[-1]]["dst"] != e or any(L[a]["dst"] != L[b2]["src"] for a, b2 in zip(chain, chain[1:])):
                    viol.append(("the best_prev chain of the returned link is not a start->end path", True))
                elif tot != P["score"]:
                    viol.append((f"the best_prev chain sums to {tot}, path_scr is {P['score']}", True))
            if ok_lat and rep.get("best") is not None and rep["best"]["score"] != P["score"]:
                mism.append(f"bestpath score: model {rep['best']['score']} C {P['score']}")
            if ok_lat and rep.get("best") is None:
                mism.append("bestpath: model returns none, C returns a link")
        # ---- posteriors
        if d["R"] and "Q" in d and T is not None and sorted(T) == list(range(len(L))):
            lz = P["logzero"]
            sc, alpha, beta, norm, bwd, ea, eb, enorm, ebwd = reference_fb(d)
            nl = len(L)
            worst, wbound = 0.0, 0.0
            for j, r in d["R"].items():
                if r["alpha"] <= lz or r["beta"] <= lz:
                    viol.append((f"link {j} has zero forward or backward probability in a lattice where every link is on a start->end path", True))
                    continue
                da, db = r["alpha"] - alpha[j], r["beta"] - beta[j]
                worst = max(worst, abs(da), abs(db))
                wbound = max(wbound, ea[j], eb[j])
                if abs(da) > ea[j] + EPS or abs(db) > eb[j] + EPS:
                    viol.append((f"link {j}: alpha/beta {r['alpha']}/{r['beta']} deviate from the exact values {alpha[j]:.3f}/{beta[j]:.3f} "
                                 f"by more than the accumulated rounding bounds {ea[j]:.1f}/{eb[j]:.1f}", True))
                if r["post"] != r["alpha"] + r["beta"] - d["Q"]["norm"]:
                    viol.append((f"link {j}: ps_latlink_prob {r['post']} is not alpha + beta - norm", True))
                if r["post"] > ea[j] + eb[j] + enorm + EPS:
                    viol.append((f"link {j}: posterior {r['post']} exceeds one by more than the rounding bound {ea[j] + eb[j] + enorm:.1f}", True))
                if alpha[j] + beta[j] - norm > EPS:
                    c.oblige("float64 reference posteriors are <= 1", False, {"link": j})
            if abs(d["Q"]["norm"] - norm) > enorm + EPS:
                viol.append((f"normaliser {d['Q']['norm']} deviates from the exact forward total {norm:.3f} by more than {enorm:.1f}", True))
            # forward total = backward total (exact in the reference, within the bound in integers)
            if abs(norm - bwd) > 1e-9 * max(1.0, abs(norm)) + EPS:
                c.oblige("float64 reference: forward total = backward total", False, {"fwd": norm, "bwd": bwd})
            # the C code does not compute the backward total; it is rebuilt from the C betas with exact sums
            lnb = math.log(P["base"]) * (1 << P["shift"])
            bint = logsumexp_b([d["R"][x]["beta"] + sc[x] for x in exits[s]], lnb)
            if bint is not None and abs(bint - d["Q"]["norm"]) > enorm + ebwd + EPS:
                viol.append((f"backward total {bint:.3f} (from the betas) and forward total {d['Q']['norm']} differ by more than {enorm + ebwd:.1f}", True))
            if d["Q"]["post"] > 0:
                viol.append((f"posterior of the best path {d['Q']['post']} exceeds one", True))
            # the PROVED bound (C12_int_link_posterior_dec): alpha + beta - norm <= t[0] * (|links| + sum of out-degrees of the link
            # targets); its hypotheses (no path prefix / suffix score below log-zero) are evaluated on the lattice
            adds = nl + sum(len(exits[l["dst"]]) for l in L)
            proved = T0_DEC * adds
            wpost = max((r["post"] for r in d["R"].values()), default=0)
            if wpost > proved:
                viol.append((f"a link posterior {wpost} exceeds one by more than the proved accumulated bound {proved} (= {T0_DEC} x {adds} additions)", True))
            lo_pre, lo_suf = {s: 0}, {e: 0}
            for j in T:
                a2, b2 = L[j]["src"], L[j]["dst"]
                if a2 in lo_pre:
                    lo_pre[b2] = min(lo_pre.get(b2, 0), lo_pre[a2] + sc[j])
            for j in reversed(T):
                a2, b2 = L[j]["src"], L[j]["dst"]
                if b2 in lo_suf:
                    lo_suf[a2] = min(lo_suf.get(a2, 0), lo_suf[b2] + sc[j])
            if min(list(lo_pre.values()) + list(lo_suf.values())) < lz:
                c.oblige("hypotheses of C12_int_link_posterior_dec / C12_int_bestpath_posterior_dec (no path score underflows log-zero) hold on the dumped lattice",
                         False, {"case": case, "request": d["tag"]})
            stats["posterior:largest-link-posterior-over-one(log units)"] = max(stats.get("posterior:largest-link-posterior-over-one(log units)", 0), wpost)
            stats["posterior:smallest-proved-bound"] = min(stats.get("posterior:smallest-proved-bound", 10 ** 12), proved) if nl else stats.get("posterior:smallest-proved-bound", 10 ** 12)
            # ---- the PROVED accuracy bounds (Props/C12Round.lean), evaluated on the C values
            if lat_ok and nl and all(j in d["R"] for j in range(nl)):
                judge_round(c, d, T, sc, alpha, beta, norm, exits, entries, adds, lo_pre, lo_suf, viol, stats, case)
            # exact correspondence of the integer passes (model: alphaInt/betaInt/normInt with the decoder's log-add table)
            if ok_lat and rep.get("alpha") is not None and len(rep["alpha"]) == nl:
                inc("posterior:lattices-compared-exactly")
                ca = [d["R"][j]["alpha"] for j in range(nl)]
                cb = [d["R"][j]["beta"] for j in range(nl)]
                if rep["alpha"] != ca:
                    k = next(i for i in range(nl) if rep["alpha"][i] != ca[i])
                    mism.append(f"alphaInt: link {k} model {rep['alpha'][k]} C {ca[k]}")
                if rep["beta"] != cb:
                    k = next(i for i in range(nl) if rep["beta"][i] != cb[i])
                    mism.append(f"betaInt: link {k} model {rep['beta'][k]} C {cb[k]}")
                if rep.get("norm") != d["Q"]["norm"]:
                    mism.append(f"normInt: model {rep.get('norm')} C {d['Q']['norm']}")
            if any(r.get("scaled") is not None and r["scaled"] != sc[j] for j, r in d["R"].items()):
                c.oblige("float32 emulation of the score scaling agrees with the harness", False, {"case": case})
            inc("posterior:links", nl)
            stats["posterior:max-abs-deviation-from-exact"] = max(stats.get("posterior:max-abs-deviation-from-exact", 0.0), round(worst, 3))
            stats["posterior:largest-bound-used"] = max(stats.get("posterior:largest-bound-used", 0.0), round(wbound, 1))
    # ---- history of further calls on the same lattice: every pass must reproduce the first one (which was
    # judged above), whatever was called, repeated or abandoned in between
    if d.get("hist_ops") and "P" in d and d.get("R") and "Q" in d:
        nl = len(L)
        seq = ",".join(h["op"] for h in d["hist_ops"])
        first = dict(S=[d["R"][j]["path_scr"] for j in range(nl)], V=[d["R"][j]["prev"] for j in range(nl)],
                     A=[d["R"][j]["alpha"] for j in range(nl)], E=[d["R"][j]["beta"] for j in range(nl)])
        for h in d["hist_ops"]:
            op, where = h["op"], f"call {h['step']} `{h['op']}` of the history `bestpath,posterior,{seq}` on one lattice"
            inc("history:" + {"b": "bestpath", "p": "posterior", "t": "abandoned-traversal", "r": "abandoned-reverse-traversal", "n": "abandoned-nbest"}[op[0]])
            if op[0] == "b":
                if "best" not in h:
                    viol.append((f"{where}: no result", True))
                    continue
                if h["best"] != d["P"]["best"] or h["score"] != d["P"]["score"]:
                    viol.append((f"{where}: lattice_bestpath returns link {h['best']} score {h['score']}, the first call returned link {d['P']['best']} score {d['P']['score']} (the maximum)", True))
                elif h["HS"] != first["S"] or h["HV"] != first["V"]:
                    viol.append((f"{where}: path scores / best_prev differ from the first lattice_bestpath", True))
                if h["norm"] != d["P"]["norm"] or h["HA"] != first["A"]:
                    viol.append((f"{where}: alphas / normaliser ({h['norm']}) differ from the first forward pass ({d['P']['norm']})", True))
            elif op[0] == "p":
                if "post" not in h:
                    viol.append((f"{where}: no result", True))
                    continue
                if h["HE"] != first["E"]:
                    k = next(i for i in range(nl) if i >= len(h["HE"]) or h["HE"][i] != first["E"][i])
                    viol.append((f"{where}: beta of link {k} is {h['HE'][k] if k < len(h['HE']) else None}, the first lattice_posterior (judged against the exact "
                                 f"values) gave {first['E'][k]} — link posteriors / backward total no longer within the rounding bound", True))
                if h["post"] != d["Q"]["post"] or h["norm"] != d["Q"]["norm"]:
                    viol.append((f"{where}: lattice_posterior returns {h['post']} (norm {h['norm']}), the first call returned {d['Q']['post']} (norm {d['Q']['norm']})", True))
            elif op[0] == "n":
                exp = [b["score"] for b in d["B"]][:len(h.get("HN", []))]
                if h.get("HN", [])[:len(exp)] != exp:
                    viol.append((f"{where}: N-best scores {h.get('HN', [])[:8]} differ from the first read {exp[:8]}", True))
    return viol, mism


def parse_rs(out, lats):
    """attach the RS lines (A* heuristic dump) to the parsed lattices, in order"""
    cur = -1
    for line in out.split("\n"):
        if line.startswith("LAT begin"):
            cur += 1
        elif line.startswith("RS") and 0 <= cur < len(lats):
            lats[cur]["RS"] = [int(t) for t in line.split()[1:]]


# an utterance of more than 32767 frames (5 min 28 s): frame numbers no longer fit an int16
LONG_GRAMMAR = "#JSGF V1.0; grammar g; public <g> = go (forward | backward) (ten | two | nine) (meters | meter) ;"


def long_audio(audios, seconds):
    """tests/data/goforward.raw followed by deterministic low-level noise up to `seconds` s; written to the scratch dir"""
    name = f"long{seconds}"
    if name not in audios:
        path = os.path.join(os.path.dirname(audios["pizza"]), f"long-{seconds}.raw")
        if not os.path.exists(path):
            out = array.array("h")
            out.frombytes(open(audios["goforward"], "rb").read())
            x, blk = 12345, array.array("h")
            for _ in range(1 << 16):
                x = (1664525 * x + 1013904223) & 0xFFFFFFFF
                blk.append((x >> 24) - 128)
            n = seconds * 16000
            while len(out) < n:
                out.extend(blk[:n - len(out)])
            open(path, "wb").write(out[:n].tobytes())
        audios[name] = path
    return name


def long_cases(rng, audios, tier):
    """long-utterance family: tiny grammar, no filler loops (the tail is absorbed by the last word, the lattice stays small),
    default beams; the lattice has more than 32767 frames (quick: one case of 330 s; thorough: also beyond 65535 frames
    and with a request in the middle of the utterance after frame 32768)"""
    specs = [(330, [])] if tier == "quick" else [(330, []), (331, [329 * 16000]), (660, [])]
    res = []
    for seconds, mids in specs:
        name = long_audio(audios, seconds)
        res.append(dict(grammar=LONG_GRAMMAR, kind="long-utterance", audio=name, cfg=["fsgusefiller=no"] + (["ascale=1"] if rng.chance(0.5) else []),
                        cut=seconds * 16000, mids=list(mids), beam="default", k=20, ops=gen_history(rng), long_seconds=seconds))
    return res


# pruned lattices (D82): lattice_bestpath after lattice_posterior_prune, judged against an independent maximum over the
# remaining start->end paths computed by the harness h_c12p from the exit lists
PRUNE_GRAMMARS = ["#JSGF V1.0; grammar g; public <g> = (go | forward | ten | meters | four | for | two | to | metres)* ;",
                  "#JSGF V1.0; grammar g; public <g> = (go | forward | ten | meters | tend | meet)+ ;"]


def prune_active():
    """the family runs when the tree contains the D82 repair, or on request (on the pinned tree it shows the defect)"""
    try:
        src = (vlib.REPO / "src" / "ps_lattice.c").read_text()
    except Exception:
        src = ""
    return "dag_mark_from(" in src or os.environ.get("VERIF_C12_PRUNE") == "1"


PRUNE_SMALL_GRAMMAR = "#JSGF V1.0; grammar g; public <g> = go (forward | backward | four) (ten | two | tend) (meters | meter | metres) ;"
NO_PRUNE = -2000000000
MAX_LINKS_PRUNE_MODEL = 1500
# clauses of latticeOKB that every pruned lattice must satisfy (startEnd: whenever a start->end path survives; markerLinks: its
# EndMarkOK part may legitimately fail after pruning)
PRUNE_CLAUSES = ["endpoints", "distinct", "markers", "nodeTimes", "linkTimes", "linkGrammar", "startGrammar"]


def prune_requests(rng, audios, tier):
    """first pass: one request per grammar that prunes nothing (to learn the posteriors)"""
    gs = PRUNE_GRAMMARS + [PRUNE_SMALL_GRAMMAR]
    return [dict(grammar=g, audio=audios["goforward"], beams=[NO_PRUNE]) for g in gs]


def prune_requests2(rng, first, tier):
    """second pass: beams derived from the posteriors of the first dump: 0 (everything or nearly), the median, the smallest
    posterior on the best path (must survive: `<`), that + 1 (must be cut), the return value of lattice_posterior, posteriors of
    random links and + 1, random beams"""
    reqs = []
    for r in first:
        d = r.get("dump")
        if r.get("failed") or not d or not d["links"]:
            continue
        posts = sorted(l[4] for l in d["links"])
        beams = [0, posts[len(posts) // 2], d["minbest"], d["minbest"] + 1, d["post_ret"], -rng.range(20000, 95000)]
        nrand = 2 if tier == "quick" else 12
        for _ in range(nrand):
            v = posts[rng.range(0, len(posts) - 1)]
            beams += [v, v + 1]
        if tier != "quick":
            beams += [-1, posts[0], posts[0] + 1, posts[-1], posts[-1] + 1] + [-rng.range(1000, 120000) for _ in range(6)]
        seen, bl = set(), []
        for x in beams:
            if x not in seen and -2000000000 < x < 2000000000:
                seen.add(x)
                bl.append(x)
        reqs.append(dict(grammar=r["grammar"], audio=r["audio"], beams=bl))
    return reqs


def req_beams(r):
    return list(r["beams"]) if "beams" in r else [r["beam"]]


def parse_prune_out(out, reqs):
    """one result per (request, beam): the fields of the `prune` line + the dump block"""
    lines = out.split("\n")
    pos, res = 0, []
    for r in reqs:
        failed = False
        for bm in req_beams(r):
            base = dict(grammar=r["grammar"], audio=r["audio"], beam=bm)
            if failed:
                res.append(dict(base, failed=True))
                continue
            dump, cur, got = None, None, False
            while pos < len(lines):
                w = lines[pos].split()
                pos += 1
                if not w:
                    continue
                if w[0] == "setup-failed":
                    failed = True
                    break
                if w[0] == "PB":
                    dump = dict(beam=int(w[1]), nframes=int(w[2]), start=int(w[3]), end=int(w[4]), post_ret=int(w[7]), nodes=[], links=[], g=0, arcs=[],
                                after={}, complete=False)
                elif w[0] == "prune":
                    base.update({k: v for k, v in (t.split("=") for t in w[1:] if "=" in t)})
                    base["beam"] = bm
                    got = True
                    break
                elif dump is None:
                    continue
                elif w[0] == "Pp":
                    dump["minbest"], dump["bestlen"], dump["best0"] = int(w[1]), int(w[2]), int(w[3])
                elif w[0] == "Pn":
                    dump["nodes"].append([int(x) for x in w[1:]])
                elif w[0] == "Pl":
                    dump["links"].append([int(x) for x in w[1:]])
                elif w[0] == "Pg":
                    dump["g"] = int(w[1])
                elif w[0] == "Pa":
                    dump["arcs"].append([int(x) for x in w[1:]])
                elif w[0] in ("P1", "P2"):
                    cur = dict(hdr={k: int(v) for k, v in (t.split("=") for t in w[1:])}, n=[], l=[])
                    dump["after"][w[0][1]] = cur
                elif w[0] in ("Q1n", "Q2n", "Q1l", "Q2l") and w[0][1] in dump["after"]:
                    dump["after"][w[0][1]][w[0][2]].append([int(x) for x in w[1:]])
                elif w[0] == "Pbest":
                    dump["best1"], dump["want1"] = w[1], w[2]
                elif w[0] == "PE":
                    dump["complete"] = True
            if failed or not got:
                failed = failed or not got
                res.append(dict(base, failed=True))
                continue
            if dump is not None and dump["complete"]:
                base["dump"] = dump
            res.append(base)
    return res


def prune_audio(a):
    """replay files name the audio relative to the repository (or by a path of the tree they were found on)"""
    if os.path.isabs(a) and os.path.exists(a):
        return a
    if not os.path.isabs(a) and (vlib.REPO / a).exists():
        return str(vlib.REPO / a)
    return str(vlib.REPO / "tests" / "data" / os.path.basename(a))


def prune_audio_rel(a):
    try:
        return os.path.relpath(a, str(vlib.REPO)) if os.path.isabs(a) and os.path.commonpath([a, str(vlib.REPO)]) == str(vlib.REPO) else a
    except ValueError:
        return a


def run_prune(reqs):
    binp = vlib.build_harness("h_c12p")
    inp = "\n".join(f"{r['grammar'].encode().hex()} {prune_audio(r['audio'])} {','.join(str(b) for b in req_beams(r))}" for r in reqs) + "\n"
    rc, out, err = vlib.run_bin(binp, args=[str(vlib.REPO / "model" / "en-us")], stdin_text=inp, leaks=True, timeout=900)
    return rc, parse_prune_out(out, reqs), err


def prune_driver_block(nframes, start, end, nodes, links, g, arcs, beam):
    return [f"begin {nframes} {start} {end}"] + ["n " + " ".join(str(x) for x in n) for n in nodes] + \
           ["l " + " ".join(str(x) for x in l) for l in links] + [f"g {g}"] + ["a " + " ".join(str(x) for x in a) for a in arcs] + \
           [f"run {beam}", "reset"]


def run_prune_driver(blocks):
    """ssdriver c12p on a list of blocks; one report per block (None where the driver said bad-input)"""
    if not blocks:
        return 0, [], ""
    rc, out, err = vlib.run_driver("c12p", "\n".join(l for b in blocks for l in b) + "\n", timeout=900)
    reps, cur = [], None
    for line in out.split("\n"):
        w = line.split()
        if not w:
            continue
        if cur is None:
            cur = dict(k=[])
        if w[0] == "end":
            reps.append(cur if "ret" in cur else None)
            cur = None
        elif w[0] == "k":
            cur["k"].append([int(x) for x in w[1:]])
        elif w[0] in ("before", "clauses", "second", "direct", "model") and (len(w) == 1 or "=" in w[1]):
            cur[w[0]] = {k: int(v) for k, v in (t.split("=") for t in w[1:])}
        elif w[0] == "direct":
            cur["direct"] = None
        elif w[0] == "nodes":
            cur["nodes"] = [int(x) for x in w[1:]]
        elif w[0] == "ends":
            cur["ends"] = [int(w[1]), int(w[2])]
        elif w[0] in ("ret", "best"):
            cur[w[0]] = w[1]
    return rc, reps, err


def prune_tie(r, tie, stats):
    """diff of one C dump against the model report(s); returns a list of (what, found_input)"""
    d, out = r["dump"], []
    rep, repc = r.get("rep"), r.get("repc")
    a1, a2 = d["after"].get("1"), d["after"].get("2")
    beam, links = r["beam"], d["links"]

    def bump(k):
        stats[k] = stats.get(k, 0) + 1
    if a1 is None or a2 is None:
        return [("the harness dump is incomplete", False)]
    # ---- the implementation's own output (oracle, no model involved)
    for tag, a in (("first", a1), ("second", a2)):
        if a["hdr"]["idmis"] or a["hdr"]["listmis"]:
            out.append((f"after the {tag} lattice_posterior_prune({beam}): {a['hdr']['idmis']} nodes whose id is not their list position, "
                        f"{a['hdr']['listmis']} exit/entry list elements without counterpart (or links to nodes outside the node list)", True))
    below = sum(1 for l in links if l[4] < beam)
    tie["ret_checked"] += 1
    if a1["hdr"]["ret"] != below:
        out.append((f"C12_prune_return_value: lattice_posterior_prune({beam}) returned {a1['hdr']['ret']}, {below} of {len(links)} links have "
                    f"alpha + beta - norm < beam", True))
    tie["idem_checked"] += 1
    if a2["hdr"]["ret"] != 0 or a2["n"] != a1["n"] or a2["l"] != a1["l"] or (a2["hdr"]["start"], a2["hdr"]["end"]) != (a1["hdr"]["start"], a1["hdr"]["end"]):
        out.append((f"C12_prune_idempotent: a second lattice_posterior_prune({beam}) (same alpha/beta/norm) returned {a2['hdr']['ret']} and left "
                    f"{len(a2['n'])} nodes / {len(a2['l'])} links, the first left {len(a1['n'])} / {len(a1['l'])}", True))
    survives = d["want1"] != "none"
    if not survives:
        tie["allcut_checked"] += 1
        want_nodes = sorted({d["start"], d["end"]})
        if [x[0] for x in a1["n"]] != want_nodes or a1["l"] or d["best1"] != "none":
            out.append((f"C12_prune_all_paths_cut: no start->end path survives lattice_posterior_prune({beam}) but the lattice keeps nodes "
                        f"{[x[0] for x in a1['n']][:12]} and {len(a1['l'])} links (bestpath {d['best1']})", True))
    if d["minbest"] >= beam:
        tie["bestkept_checked"] += 1
        if d["best1"] != str(d["best0"]):
            out.append((f"C12_prune_bestpath_preserved: every link of the best path has alpha + beta - norm >= {beam} (min {d['minbest']}) but "
                        f"lattice_bestpath returns {d['best1']} after pruning, {d['best0']} before", True))
    if beam <= d["post_ret"]:
        bump("prune:beam<=posterior-of-the-best-path")
        if d["minbest"] < beam:
            bump("prune:beam<=posterior-of-the-best-path-but-a-link-of-it-is-below-the-beam(integer rounding)")
    # ---- model = implementation
    if rep is None or repc is None:
        if len(links) <= MAX_LINKS_PRUNE_MODEL:
            out.append(("ssdriver c12p gave no report for the dumped lattice", False))
        return out
    tie["compared"] += 1
    tie["before_ok"] += 1 if rep["before"].get("ok") == 1 else 0
    if rep["before"].get("ok") != 1:
        tie["before_bad"].append(dict(beam=beam, clauses=rep["before"]))
    mm = []
    if int(rep["ret"]) != a1["hdr"]["ret"]:
        mm.append(f"return value: model {rep['ret']}, C {a1['hdr']['ret']}")
    if rep["nodes"] != [x[0] for x in a1["n"]] or any(x[1] != i for i, x in enumerate(a1["n"])):
        mm.append(f"surviving nodes (old positions, in order): model {rep['nodes'][:40]}, C (position, id) {a1['n'][:40]}")
    if rep["k"] != a1["l"]:
        firstbad = next((i for i, (x, y) in enumerate(zip(rep["k"], a1["l"])) if x != y), min(len(rep["k"]), len(a1["l"])))
        mm.append(f"links (old src, old dst, src id, dst id, ef, ascr): model {len(rep['k'])}, C {len(a1['l'])}; first difference at {firstbad}: "
                  f"model {rep['k'][firstbad:firstbad + 3]}, C {a1['l'][firstbad:firstbad + 3]}")
    if rep["ends"] != [a1["hdr"]["start"], a1["hdr"]["end"]]:
        mm.append(f"start/end ids: model {rep['ends']}, C {[a1['hdr']['start'], a1['hdr']['end']]}")
    c_idem = a2["hdr"]["ret"] == 0 and a2["n"] == a1["n"] and a2["l"] == a1["l"]
    if bool(rep["second"]["same"]) != c_idem or rep["second"]["ret"] != a2["hdr"]["ret"]:
        mm.append(f"second prune: model {rep['second']}, C returned {a2['hdr']['ret']}, same lattice: {c_idem}")
    if rep["best"] != d["best1"]:
        mm.append(f"best path after pruning: model bestpath {rep['best']}, lattice_bestpath {d['best1']} (independent maximum {d['want1']})")
    # the model run on the C lattice AFTER pruning: nothing more to prune
    if int(repc["ret"]) != a2["hdr"]["ret"] or bool(repc["second"]["same"]) != c_idem or (c_idem and repc["nodes"] != list(range(len(a1["n"])))):
        mm.append(f"model on the C lattice after pruning: ret {repc['ret']} nodes kept {len(repc['nodes'])} of {len(a1['n'])}; C second prune returned {a2['hdr']['ret']}")
    if repc["best"] != d["best1"]:
        mm.append(f"model bestpath on the C lattice after pruning {repc['best']}, lattice_bestpath {d['best1']}")
    for t in mm:
        out.append(("model posteriorPrune != lattice_posterior_prune: " + t, False))
    for rr in (rep, repc):
        tie["modelruns"] = tie.get("modelruns", 0) + 1
        if not rr.get("model") or not all(rr["model"].values()):
            out.append((f"driver: the parts of prunePartsFast (old node/link numbers) do not make up the lattice of posteriorPruneFast: {rr.get('model')}", False))
    for dd in (rep.get("direct"), repc.get("direct")):
        if dd is not None:
            tie["direct"] += 1
            if not all(dd.values()):
                out.append((f"driver: posteriorPruneFast / prunePartsFast differ from the proof-side posteriorPrune / keepOrder / keptLinks, or exitsLoop from exitsCut: {dd}", False))
    # ---- clauses of latticeOKB on the C lattice after pruning (driver: `before` of the block built from the C dump)
    cl = repc["before"]
    for name, v in cl.items():
        if name != "ok" and v == 1:
            tie["clauses"][name] = tie["clauses"].get(name, 0) + 1
    tie["clause_lattices"] += 1
    tie["with_path"] += 1 if survives else 0
    bad = [n for n in PRUNE_CLAUSES if cl.get(n) != 1] + (["startEnd"] if survives and cl.get("startEnd") != 1 else [])
    if bad:
        out.append((f"after lattice_posterior_prune({beam}) the lattice violates the clauses {bad} of latticeOKB "
                    f"({'a' if survives else 'no'} start->end path survives)", True))
    return out


def judge_prune(c, rc, res, reqs, err, stats, tie=None):
    viols = []
    if tie is None:
        tie = {}
    for k in ("compared", "before_ok", "ret_checked", "idem_checked", "allcut_checked", "bestkept_checked", "direct", "clause_lattices", "with_path", "dumps"):
        tie.setdefault(k, 0)
    tie.setdefault("clauses", {})
    tie.setdefault("before_bad", [])
    tie.setdefault("mismatch", [])
    if rc != 0 or len(res) != sum(len(req_beams(r)) for r in reqs):
        viols.append(dict(kind="sanitizer report, abort or exit in lattice_posterior_prune / lattice_bestpath", rc=rc, stderr=err[-2000:],
                          case_raw=dict(prune=reqs)))
        return viols
    # model runs: the lattice before pruning, and the C lattice after pruning (posterior of a link = the one of its original)
    blocks, owner = [], []
    for r in res:
        d = r.get("dump")
        if r.get("failed") or not d or "1" not in d["after"] or len(d["links"]) > MAX_LINKS_PRUNE_MODEL or "minbest" not in d:
            continue
        blocks.append(prune_driver_block(d["nframes"], d["start"], d["end"], d["nodes"], d["links"], d["g"], d["arcs"], r["beam"]))
        owner.append((r, "rep"))
        a1 = d["after"]["1"]
        pmap = {(l[0], l[1]): l[4] for l in d["links"]}
        oknodes = all(0 <= x[0] < len(d["nodes"]) for x in a1["n"])
        if oknodes and all(min(l[:4]) >= 0 for l in a1["l"]) and a1["hdr"]["start"] >= 0 and a1["hdr"]["end"] >= 0:
            blocks.append(prune_driver_block(d["nframes"], a1["hdr"]["start"], a1["hdr"]["end"], [d["nodes"][x[0]] for x in a1["n"]],
                                             [[l[2], l[3], l[4], l[5], pmap.get((l[0], l[1]), 0)] for l in a1["l"]], d["g"], d["arcs"], r["beam"]))
            owner.append((r, "repc"))
    drc, reps, derr = run_prune_driver(blocks)
    if drc != 0 or len(reps) != len(blocks):
        tie["mismatch"].append(dict(driver_rc=drc, stderr=derr[-1500:], reports=len(reps), blocks=len(blocks)))
    else:
        for (r, key), rep in zip(owner, reps):
            r[key] = rep
    for r in res:
        stats["prune:requests"] = stats.get("prune:requests", 0) + 1
        if r.get("failed") or "best" not in r:
            continue
        if int(r.get("orphans", 0)) > 0:
            stats["prune:lattices-with-nodes-that-lost-all-entries"] = stats.get("prune:lattices-with-nodes-that-lost-all-entries", 0) + 1
        if int(r.get("pruned", 0)) > 0 and r["want"] != "none":
            stats["prune:partially-pruned-lattices-with-a-remaining-path"] = stats.get("prune:partially-pruned-lattices-with-a-remaining-path", 0) + 1
        if r["want"] == "none":
            stats["prune:lattices-where-no-path-survives"] = stats.get("prune:lattices-where-no-path-survives", 0) + 1
        raw = dict(prune=[dict(grammar=r["grammar"], audio=prune_audio_rel(r["audio"]), beam=r["beam"])])
        case = dict(grammar=r["grammar"], audio="tests/data/goforward.raw", calls="lattice_bestpath(0.05), lattice_posterior(0.05), "
                    f"lattice_posterior_prune({r['beam']}), lattice_bestpath(0.05), lattice_posterior_prune({r['beam']})")
        if r["best"] != r["want"]:
            viols.append(dict(kind="lattice search results violate C12",
                              what=f"after lattice_posterior_prune(beam={r['beam']}) ({r['pruned']} of {r['links_before']} links pruned, {r['orphans']} nodes without "
                                   f"entries left) lattice_bestpath returns {r['best']}, the best remaining start->end path has score {r['want']}",
                              case=case, case_raw=raw, _key="bestpath-after-posterior-prune",
                              how_to_rerun="VERIF_C12_PRUNE=1 python3 tools/check.py C12 --replay <this file>"))
        if r.get("dump"):
            tie["dumps"] += 1
            for (what, found) in prune_tie(r, tie, stats):
                if not found:
                    tie["mismatch"].append(dict(beam=r["beam"], grammar=r["grammar"], what=what))
                viols.append(dict(kind="lattice search results violate C12" if found else "correspondence model = implementation fails (pruning)",
                                  what=what, case=case, case_raw=raw, _found=found,
                                  links_before=len(r["dump"]["links"]), nodes_before=len(r["dump"]["nodes"]),
                                  how_to_rerun="python3 tools/check.py C12 --replay <this file>"))
    return viols


def report_prune(c, pv, limit=4):
    """violations of the prune family: one per class (text before the first digit), implementation-side ones first"""
    seen, n = set(), 0
    for obj in sorted(pv, key=lambda o: not o.get("_found", True)):
        what = obj.get("what", obj["kind"])
        cls = "".join(ch for ch in ":".join(what.split(":")[:2 if what.startswith("model posteriorPrune") else 1])[:70] if not ch.isdigit())
        if cls in seen or n >= limit:
            continue
        seen.add(cls)
        n += 1
        o2 = {k: v for k, v in obj.items() if not k.startswith("_")}
        c.violation(o2, obj.get("_found", True), finding_key=obj.get("_key"))


def prune_obligations(c, tie, pv, nreq):
    c.oblige("pruned lattices: lattice_bestpath after lattice_posterior_prune returns the best remaining start->end path (harness h_c12p)",
             not any(o.get("_key") for o in pv), f"{sum(1 for o in pv if o.get('_key'))} of {nreq} requests")
    c.oblige("hypothesis LatticeOK of the pruning theorems: latticeOKB holds on every lattice dumped before lattice_posterior_prune",
             tie["compared"] > 0 and tie["before_ok"] == tie["compared"], dict(lattices=tie["compared"], ok=tie["before_ok"], bad=tie["before_bad"][:2]))
    c.oblige("correspondence: posteriorPrune of the model = lattice_posterior_prune on every dumped lattice: return value, surviving nodes (list order, "
             "id = position), links (exit lists in node order: endpoints, ef, ascr), start/end, result of a second call, best path afterwards",
             tie["compared"] > 0 and not tie["mismatch"], dict(compared=tie["compared"], mismatches=tie["mismatch"][:3]))
    c.oblige("the driver runs the model's posteriorPruneFast (= posteriorPrune, posteriorPruneFast_eq) and prunePartsFast (= keepOrder, keptLinks, nPruned, "
             "prunePartsFast_eq); the parts make up the lattice on every run; on the small lattices (<= 40 links) the proof-side definitions "
             "posteriorPrune / keepOrder / keptLinks themselves give the same, and exitsLoop = exitsCut", tie["direct"] > 0 and not any(m.get("what", "").startswith("driver:") for m in tie["mismatch"]),
             dict(direct_runs=tie["direct"], model_runs=tie.get("modelruns", 0)))
    impl = [o for o in pv if o.get("_found") is True]
    c.oblige("oracle on the implementation's pruned lattices: clauses endpoints, distinct, markers, nodeTimes, linkTimes, linkGrammar, startGrammar "
             "of latticeOKB on every pruned lattice and startEnd whenever a path survives; ids = positions and exit/entry lists consistent; "
             "return value = number of links below the beam (C12_prune_return_value); a second call returns 0 and changes nothing (C12_prune_idempotent); "
             "only start and end left when no path survives (C12_prune_all_paths_cut); best path unchanged when all its links are at or above the "
             "beam (C12_prune_bestpath_preserved)", tie["dumps"] > 0 and not impl,
             dict(dumps=tie["dumps"], violations=[o["what"] for o in impl][:3], clause_lattices=tie["clause_lattices"], with_path=tie["with_path"],
                  clauses_holding=tie["clauses"], return_value=tie["ret_checked"], idempotent=tie["idem_checked"], all_paths_cut=tie["allcut_checked"],
                  best_path_kept=tie["bestkept_checked"]))


def describe(case):
    d = m.describe(case)
    if case.get("long_seconds"):
        d["audio"] = (f"tests/data/goforward.raw followed by deterministic low-level noise (LCG 1664525/1013904223 seed 12345, 65536-sample block "
                      f"repeated, (x>>24)-128) up to {case['long_seconds']} s = {case['long_seconds'] * 100} frames")
    return d


def eval_case(c, binp, audios, case, stats):
    if case.get("long_seconds"):
        long_audio(audios, case["long_seconds"])
    rc, out, err, lats = m.run_case(binp, case, audios)
    if rc != 0:
        return None, dict(rc=rc, stderr=err[-2500:], stdout_tail=out[-600:])
    parse_rs(out, lats)
    # latnode_times() hands out fef/lef as int16: beyond frame 32767 the API values wrap (the agreement of API and fields is a
    # C11 clause, judged there).  C12 is about the scores on the lattice: use the fields where the API value is the wrapped field
    for d in lats:
        for n in d.get("nodes", []):
            api, fld = (n["sf"], n["fef"], n["lef"]), (n["sf2"], n["fef2"], n["lef2"])
            if api != fld and all((a - f) % 65536 == 0 for a, f in zip(api, fld)) and max(fld) > 32767:
                n["sf"], n["fef"], n["lef"] = fld
                if stats is not None:
                    stats["long:node-times-taken-from-the-fields(int16 API value wrapped)"] = stats.get("long:node-times-taken-from-the-fields(int16 API value wrapped)", 0) + 1
    rcd, reps, derr, tabs = m.run_driver(lats, case["k"], with_build=False)
    if rcd != 0 or len(reps) != len(lats):
        return None, dict(driver_rc=rcd, stderr=derr[-1500:], nrep=len(reps), nlat=len(lats))
    rfail = round_driver(lats)
    if rfail:
        return None, dict(driver="c12r", **rfail)
    res = []
    for d, rep, tab in zip(lats, reps, tabs):
        if stats is not None:
            m.lat_stats(stats, d, case)
        v, mm = judge_c12(c, d, rep, tab, case, stats if stats is not None else {})
        res.append((d, rep, v, mm))
    return res, None


HIST_OPS = ["b", "p", "p", "t1", "t3", "t7", "r1", "r2", "n2", "n5"]


def gen_history(rng):
    """a history of further lattice API calls (repeated and abandoned passes); `p` only where alphas are valid"""
    ops = [rng.choice(HIST_OPS) for _ in range(rng.range(4, 9))]
    # classes that must always be present: posterior twice in a row, bestpath right after an abandoned traversal
    ops += ["p", "p", rng.choice(["t2", "t5"]), "b", "p", rng.choice(["r1", "r3"]), "p", "b"]
    return ",".join(ops)


# lattices on which more than MAX_PATHS partial paths are alive, N-best read to exhaustion
DEEP_CASES = [
    dict(grammar=None, kind="pizza", audio="pizza", cfg=[], cut=None, mids=[], beam="default", k=6000),
    dict(grammar="#JSGF V1.0; grammar g; public <g> = (go | forward | ten | meters | tend | meet)+ ;", kind="loop", audio="goforward",
         cfg=["beam=1e-60", "wbeam=1e-40", "pbeam=1e-60"], cut=None, mids=[], beam="wide", k=6000),
]


def deep_cases(rng, audios, n):
    import os
    res = []
    for c0 in DEEP_CASES[:n]:
        c1 = dict(c0)
        if c1["grammar"] is None:
            c1["grammar"] = (m.DATA / "pizza.gram").read_text()
        c1["cut"] = os.path.getsize(audios[c1["audio"]]) // 2
        c1["ops"] = gen_history(rng)
        res.append(c1)
    return res


def gen_case(rng, audios):
    case = m.gen_case(rng, audios, k=rng.weighted([(8, 5), (40, 3), (150, 2)]))
    case["ops"] = gen_history(rng)
    if rng.chance(0.25):
        # large lattices: wide beams and a loop grammar, long N-best prefix (agenda pressure)
        case["cfg"] = [o for o in case["cfg"] if "beam" not in o] + list(m.BEAMS["wide"])
        case["beam"] = "wide"
    return case


def check(c):
    c.trusted += ["harness/h_c11.c + tools/props/c11.py, c12.py (dump, generator, float32 emulation of the score scaling, float64 reference of the log-domain sums, "
                  "evaluation of the proved integer inequalities on the C values)",
                  "clang ASan/UBSan/LSan as observer of memory errors in ps_lattice.c (any report fails the run)"]
    c.assumptions += ["the property is evaluated on lattices satisfying C11 (checked by latticeOKB in the same run)",
                      "N-best scores omit the link out of the synthetic <s> node when the path is seeded at a frame-0 word node (A* seeds every frame-0 node); "
                      "the property does not relate the first N-best score to the best-path score and neither does the check",
                      "integer link posteriors: the max-plus bound t[0] x (number of log-additions) (C12_int_link_posterior_dec) and the accuracy-based "
                      "bounds of Props/C12Round.lean (0.51 per table addition in the budget of each alpha/beta/norm: C12_round_checked, "
                      "C12_int_passes_accurate_dec) are theorems; their hypotheses are Boolean checkers (roundHypsB, budOKB, remOKB) evaluated by `ssdriver c12r` "
                      "on every dumped lattice the model evaluates (<= 1500 links; larger ones by the python mirror only), the conclusions are evaluated on the C "
                      "values as integer inequalities; the float64 reference is kept as a second, sharper estimate (half a unit + 1e-6 per addition; not proved)",
                      "the theorems are about the model's alphaInt/betaInt/normInt, which are compared exactly with the C values on lattices of <= 450 links; on "
                      "larger lattices the inequalities are evaluated on the C values without that comparison (normaliser and backward total are recomputed from the "
                      "C alphas/betas by the model's logAdd in the driver)"]
    if not c.lean_obligations():
        return
    import re
    mt = re.search(r"def dec_runs_0 : List \(Nat × Nat\) := \[\((\d+),", (vlib.LEAN / "SSVerif" / "Generated" / "LogTables.lean").read_text())
    c.oblige("t[0] of the regenerated decoder log-add table is the constant of C12_int_link_posterior_dec used by the check", bool(mt) and int(mt.group(1)) == T0_DEC,
             mt.group(1) if mt else "dec_runs_0 not found")
    binp = vlib.build_harness("h_c11")
    audios = m.audio_files(str(c.scratch / "audio"))
    rng = c.rng.fork()
    stats = {}
    ncases = 22 if c.tier == "quick" else 700
    cases = [dict(x, _corpus=True) for x in m.load_corpus("C12")]
    ncorp = len(cases)
    ndeep = len(cases)
    cases += deep_cases(rng, audios, 2)
    ndeep = len(cases) - ndeep
    cases += long_cases(rng, audios, c.tier)
    for _ in range(ncases):
        cs = gen_case(rng, audios)
        if rng.chance(0.4):
            cs = m.aim_case(rng, cs, audios, stats)
        cases.append(cs)
    if c.tier == "thorough":
        # more deep reads: the generated grammars with wide beams, whole audio, list read to exhaustion (cap 6000)
        for _ in range(25):
            cs = gen_case(rng, audios)
            cs.update(cfg=[o for o in cs["cfg"] if "beam" not in o] + list(m.BEAMS["wide"]), beam="wide", k=6000, mids=[])
            cases.append(cs)
    nlat, distinct, viols, nmism, harness_ok = 0, set(), [], 0, True
    for ci, case in enumerate(cases):
        res, fail = eval_case(c, binp, audios, case, stats)
        if fail:
            harness_ok = False
            c.oblige("harness + driver run to completion without sanitizer report / abort", False, {"case": describe(case), **fail})
            viols.append((True, {"kind": "sanitizer report, abort or exit inside the lattice code", "case": describe(case), **fail,
                                 "case_raw": {k: v for k, v in case.items() if not k.startswith("_")}}, None, None))
            if len(viols) > 8:
                break
            continue
        if ci < ncorp + 2:
            c.samples.append(dict(describe(case), lattices=[("NULL" if d["null"] else f"{len(d['nodes'])} nodes/{len(d['links'])} links, {len(d['B'])} N-best entries")
                                                             for d, _, _, _ in res]))
        for (d, rep, v, mm) in res:
            nlat += 1
            if not d["null"]:
                distinct.add((case["grammar"], case["audio"], tuple(case["cfg"]), d["frame"]))
            for (what, found) in v:
                viols.append((found, {"kind": "lattice search results violate C12", "what": what, "request": d["tag"], "n_frames": d["frame"],
                                      "nbest": [(b["score"], b["nodes"]) for b in d["B"]][:12], "bestpath": d.get("P"),
                                      "lattice_nodes": [(n["word"], n["sf"], n["fef"], n["lef"], n["state"]) for n in d["nodes"]][:60],
                                      "lattice_links": [(l["src"], l["dst"], l["ef"], l["ascr"]) for l in d["links"]][:150],
                                      "how_to_rerun": "python3 tools/check.py C12 --replay <this file>"}, case, d["tag"]))
            for t in mm:
                nmism += 1
                if nmism <= 3:
                    c.oblige("correspondence model = implementation (traversal order / best path / heuristic / N-best)", False,
                             {"case": describe(case), "request": d["tag"], "mismatch": t})
        if len(viols) > 40:
            break
    if prune_active():
        reqs = prune_requests(rng, audios, c.tier)
        tie = {}
        prc, pres, perr = run_prune(reqs)
        pv = judge_prune(c, prc, pres, reqs, perr, stats, tie)
        reqs2 = prune_requests2(rng, pres, c.tier) if prc == 0 else []
        if reqs2:
            prc2, pres2, perr2 = run_prune(reqs2)
            pv += judge_prune(c, prc2, pres2, reqs2, perr2, stats, tie)
        report_prune(c, pv)
        prune_obligations(c, tie, pv, len(reqs) + sum(len(r["beams"]) for r in reqs2))
        for k in ("compared", "dumps", "direct", "with_path"):
            stats[f"prune:tie:{k}"] = tie[k]
        for k, v in tie["clauses"].items():
            stats[f"prune:clause-holds-after-pruning:{k}"] = v
    else:
        stats["prune:family-not-run(the tree lacks the D82 repair; VERIF_C12_PRUNE=1 runs it)"] = 1
    viols.sort(key=lambda v: (not v[0],))
    seen, nrec = set(), 0
    for (found, obj, case, tag) in viols:
        cls = obj.get("what", obj["kind"]).split(":")[0][:50]
        cls = "".join(ch for ch in cls if not ch.isdigit())
        if cls in seen or nrec >= 6:
            continue
        seen.add(cls)
        nrec += 1
        if case is not None:
            small = case
            if found and not case.get("_corpus") and not case.get("long_seconds"):
                def still(cand, cls=cls):
                    r2, f2 = eval_case(c, binp, audios, cand, None)
                    if f2 or not r2:
                        return False
                    return any("".join(ch for ch in w2.split(":")[0][:50] if not ch.isdigit()) == cls for (_, _, v2, _) in r2 for (w2, _) in v2)
                small = m.shrink_case(c, binp, audios, case, tag, still)
            obj = dict(obj, case=describe(small), case_raw={k: v for k, v in small.items() if not k.startswith("_")})
        c.violation(obj, found)
    c.oblige("oracle on the implementation's output: N-best order, path membership, score sums and hypothesis strings; best path = maximum; "
             "traversal topological; posteriors within the rounding bound, best-path posterior <= 1, forward = backward total", not viols,
             f"{len(viols)} violations in {nlat} lattice requests")
    c.oblige("correspondence: traverseEdges / bestpath score / remTable / nbest of the model = lattice_traverse_edges / lattice_bestpath / best_rem_score / "
             "decoder_nbest on every dumped lattice", nmism == 0, f"{nmism} mismatches")
    c.oblige("every harness run finished without sanitizer report, assert or leak", harness_ok)
    if harness_ok:
        c.oblige("the deep N-best cases reached more than MAX_PATHS live partial paths on the real code and were read to exhaustion "
                 "(agenda truncation branch exercised)", stats.get("nbest:exhausted-lists-where-MAX_PATHS-truncation-dropped-results", 0) >= 1
                 and stats.get("nbest:largest-agenda-on-the-real-code", 0) > 500, {k: v for k, v in stats.items() if k.startswith("nbest")})
    c.cov.update({"evaluations": nlat, "distinct_nontrivial": len(distinct),
                  "rule": "one evaluation = one lattice request with N-best, best path and posteriors; non-trivial = a lattice was returned; "
                          "distinct by (grammar, audio, config, frame count)",
                  "cases": len(cases), "corpus_cases": ncorp, "distribution": dict(sorted(stats.items()))})


def replay(c, path):
    c.lean_obligations()
    binp = vlib.build_harness("h_c11")
    audios = m.audio_files(str(c.scratch / "audio"))
    obj = json.loads(open(path).read())
    case = obj["case_raw"]
    if "prune" in case:
        prc, pres, perr = run_prune(case["prune"])
        tie = {}
        pv = judge_prune(c, prc, pres, case["prune"], perr, {}, tie)
        report_prune(c, pv, limit=8)
        for mmm in tie["mismatch"][:3]:
            c.oblige("correspondence model = implementation (pruning)", False, mmm)
        c.cov.update({"evaluations": len(case["prune"]), "distinct_nontrivial": len(case["prune"])})
        return
    res, fail = eval_case(c, binp, audios, case, {})
    if fail:
        c.violation({"kind": "sanitizer report, abort or exit inside the lattice code", "case": describe(case), **fail, "case_raw": case}, True)
    else:
        for (d, rep, v, mm) in res:
            for (what, found) in v:
                c.violation({"kind": "lattice search results violate C12", "what": what, "request": d["tag"], "case": describe(case), "case_raw": case}, found)
            for t in mm:
                c.oblige("correspondence model = implementation", False, {"request": d["tag"], "mismatch": t})
    c.cov.update({"evaluations": 1, "distinct_nontrivial": 1})
