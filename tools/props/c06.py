"""C06 — acoustic features do not depend on how the audio is chunked or encoded.

Lean: SSVerif/Props/C06.lean — for every frame_size >= frame_shift > 0, every partition of the
signal into chunks and every per-call output limit, the model of fe_process/fe_end (M4,
SSVerif/Model/FeBuf.lean) hands exactly the canonical (window, prior) list to the per-frame
function, consumes every sample once and never reads outside the buffer of the current call.

Tie: generated call schedules are run on the real fe_process_int16 / fe_process_float32 / fe_end
(harness/h_c06.c, ASan/UBSan, asserts on, every call in a fresh exact-size heap block) and on the
model's own definitions (ssdriver c06); the per-call (dry-run count, consumed, frames written,
num_overflow_samps) records and the totals are diffed.
Size relations: besides the schedules anchored at the model's branch points, a cross product of chunk lengths around
every integer-width boundary of the C types (2^8, 2^15, 2^16, k*2^16 + small), output limits 0..3 and carried-over
counts (0, 1, shift-1, shift, size-1, after frames) is run on synthesised signals of up to ~400 000 samples
(`width_family`), and output limits around 2^8 / 2^15 / 2^16 on a front end with a 4-sample shift
(`limit_width_ops`).  For signals longer than 20 000 samples the driver evaluates the closed form
`runClosed` (Model/FeBufClosed.lean), proved equal to the list model for every schedule (C06_call_log_closed).
Static tie: tools/gen_fewidths.py regenerates the width of every integer declaration / conversion of the
bookkeeping functions from the clang AST; C06_count_types_at_least_32_bits (Props/C06Closed.lean) must still
check, and C06_quantities_fit_c_types bounds every per-call quantity of the model for chunk lengths < 2^31.
Oracle (the property on the implementation): the cepstra of every schedule are compared bitwise
(memcmp) with the single-call int16 reference, which is itself compared with the float32 single
call and with the canonical windows [k*shift, min(k*shift+size, N)) read directly through
fe_read_frame_*, bypassing fe_process.
"""
import json
import vlib
from props import c06swap

FINDING_KEY = "stream ends with a full frame in the overflow buffer"

CONFIGS = [
    ("default", ""),
    ("r8k", "samprate=8000 upperf=3500 nfilt=31"),
    ("r11k", "samprate=11025 upperf=5000 lowerf=130"),
    ("r44k", "samprate=44100 wlen=0.025 nfft=2048 upperf=8000"),
    ("fr50", "frate=50"),
    ("fr200", "frate=200 wlen=0.01 nfft=256 nfilt=20"),
    ("w50", "wlen=0.05 nfft=1024"),
    ("dct", "transform=dct lifter=22"),
    ("htk", "transform=htk lifter=22 remove_dc=yes"),
    ("noise", "remove_noise=yes"),
    ("logspec", "logspec=yes"),
    ("smooth", "smoothspec=yes"),
    ("r8kmix", "samprate=8000 upperf=3500 nfilt=20 remove_noise=yes remove_dc=yes transform=dct"),
    ("alpha0", "alpha=0"),
    ("small", "samprate=8000 frate=500 wlen=0.004 nfft=32 nfilt=5 ncep=4 upperf=3500 lowerf=200"),
    ("tiny", "samprate=8000 frate=2000 wlen=0.00125 nfft=16 nfilt=3 ncep=3 upperf=3500 lowerf=500"),
    ("tinynoise", "samprate=8000 frate=2000 wlen=0.00125 nfft=16 nfilt=3 ncep=3 upperf=3500 lowerf=500 "
                  "remove_noise=yes remove_dc=yes"),
    ("nolap", "wlen=0.01 nfft=256 nfilt=20"),
    ("filt", "doublebw=yes unit_area=no round_filters=no ncep=9"),
]
BIG = 1000000


def harness(c):
    """build h_c06 and keep a private copy: the shared build cache may be pruned while a long run is going on"""
    import shutil
    src = vlib.build_harness("h_c06")
    dst = c.scratch / "h_c06"
    shutil.copy2(src, dst)
    # same for the model driver: other checks relink ssdriver while this one runs
    global DRIVER
    DRIVER = c.scratch / "ssdriver"
    shutil.copy2(vlib.driver_path(), DRIVER)
    return dst


DRIVER = None


def run_driver(text, legacy, timeout):
    import subprocess
    r = subprocess.run([str(DRIVER or vlib.driver_path()), "c06"] + (["legacy"] if legacy else []), input=text.encode(),
                       stdout=subprocess.PIPE, stderr=subprocess.PIPE, timeout=timeout)
    return r.returncode, r.stdout.decode(errors="replace"), r.stderr.decode(errors="replace")


def finding_open():
    """D25 accepted as a known finding instead of being repaired: compare against the model of the pinned tree"""
    return any(kf.get("property") == "C06" and kf.get("status", "open") == "open" and kf.get("key") == FINDING_KEY
               for kf in vlib.known_findings())


LEGACY = finding_open()


# ---------------------------------------------------------------------------
# running

def run_both(binp, ops, legacy=None, timeout=1800):
    legacy = LEGACY if legacy is None else legacy
    text = "\n".join(ops) + "\n"
    # the two sides are independent processes: run them side by side
    import threading
    box = {}

    def model():
        try:
            box["m"] = run_driver(text, legacy, timeout)
        except Exception as e:      # timeout etc.: reported as a driver failure by the caller
            box["m"] = (-1, "", f"model driver: {e}")
    th = threading.Thread(target=model)
    th.start()
    try:
        rc, out, err = vlib.run_bin(binp, stdin_text=text, timeout=timeout)
    finally:
        th.join()
    rc2, mout, merr = box["m"]
    return (rc, out, err), (rc2, mout, merr)


def split_impl(out):
    """protocol lines and the '#' oracle lines attached to each of them"""
    lines, notes = [], []
    for l in out.rstrip("\n").split("\n"):
        if l.startswith("#"):
            if notes:
                notes[-1].append(l)
        elif l != "":
            lines.append(l)
            notes.append([])
    return lines, notes


def query_sizes(binp):
    ops = [f"cfg {cid} 0 0 {kv}".rstrip() for cid, kv in CONFIGS]
    rc, out, err = vlib.run_bin(binp, stdin_text="\n".join(ops) + "\n")
    sizes = {}
    for l in out.split("\n"):
        w = l.split()
        if len(w) == 6 and w[0] == "cfg" and w[2] == "size":
            sizes[w[1]] = (int(w[3]), int(w[5]))
    return sizes, (rc, out, err)


def cfg_line(cid, sizes):
    kv = dict(CONFIGS)[cid]
    return f"cfg {cid} {sizes[cid][0]} {sizes[cid][1]} {kv}".rstrip()


# ---------------------------------------------------------------------------
# generator

def anchors(size, shift, N):
    s = set()
    for j in range(0, N // shift + 2):
        for base in (j * shift, j * shift + size, j * shift + size - shift):
            for d in (-1, 0, 1):
                b = base + d
                if 0 < b < N:
                    s.add(b)
    return sorted(s)


def gen_limits(rng, stats):
    pat = rng.weighted([("none", 22), ("0", 6), ("1", 16), ("2", 12), ("11", 8), ("01", 6), ("102", 4), ("3", 5),
                        ("big", 8), ("ones", 6), ("rand", 7)])
    if pat == "none":
        ls = []
    elif pat == "big":
        ls = [BIG]
    elif pat == "ones":
        ls = [1] * rng.range(3, 8)
    elif pat == "rand":
        ls = [rng.choice([0, 1, 1, 2, 3, 5, BIG]) for _ in range(rng.range(1, 5))]
    else:
        ls = [int(ch) for ch in pat]
    for l in ls:
        k = "big" if l >= BIG else str(min(l, 5))
        stats["limits"][k] = stats["limits"].get(k, 0) + 1
    if not ls:
        stats["limits"]["dry-run room only"] = stats["limits"].get("dry-run room only", 0) + 1
    return ls


def gen_schedule(rng, size, shift, stats, allow_big):
    """returns (N, [(len, [limits])], endroom, mode)"""
    mode = rng.weighted([("anchored", 34), ("random", 22), ("ones", 8), ("single", 6), ("d25", 14),
                         ("big", 3 if allow_big else 0), ("tail", 8), ("empty", 2)])
    stats["modes"][mode] = stats["modes"].get(mode, 0) + 1
    endroom = rng.weighted([(1, 70), (2, 20), (7, 10)])
    if mode == "empty":
        return 0, [(0, gen_limits(rng, stats)) for _ in range(rng.range(0, 2))], endroom, mode
    if mode == "single":
        N = rng.choice([1, size - 1, size, size + 1, size + shift, rng.range(1, 9 * size)])
        return N, [(N, gen_limits(rng, stats))], endroom, mode
    if mode == "ones":
        N = rng.range(1, min(3 * size, 700))
        return N, [(1, gen_limits(rng, stats) if rng.chance(0.2) else []) for _ in range(N)], endroom, mode
    if mode == "big":
        # one call longer than 32767 samples with a small output limit (D9), then the rest
        first = 32768 + rng.range(0, 3 * size)
        rest = rng.choice([0, 1, shift, size, rng.range(1, 3 * size)])
        specs = [(first, [rng.choice([1, 2, 5])] + ([1] if rng.chance(0.5) else []))]
        if rest:
            specs.append((rest, gen_limits(rng, stats)))
        return first + rest, specs, endroom, mode
    if mode == "d25":
        # the stream stops when an output-limited call has left exactly frame_shift samples
        # (create_overflow_frame), or has exactly filled the frame in append_overflow_frame
        j = rng.range(1, 6)
        N = (j - 1) * shift + size + shift
        v = rng.below(4)
        if v == 0:
            specs = [(N, [j])]
        elif v == 1:
            a = rng.range(1, size - 1)
            specs = [(a, []), (N - a, [j])]
        elif v == 2:
            # overflow almost full, then a limited call: append_overflow_frame fills the frame
            a = size - rng.range(1, max(1, min(shift, size - shift) - 1) if size > shift + 1 else 1)
            a = max(1, min(a, N - 1))
            specs = [(a, []), (N - a, [j])]
        else:
            specs = [(N, [1] * j)]
        return N, specs, endroom, mode
    if mode == "tail":
        # total length at a frame-count boundary
        j = rng.range(0, 5)
        N = max(0, j * shift + size + rng.choice([-1, 0, 1, -shift, shift - 1]))
    else:
        N = rng.weighted([(rng.range(0, size + 2), 2), (rng.range(size, 4 * size), 5), (rng.range(size, 12 * size), 3)])
    if mode in ("anchored", "tail"):
        A = anchors(size, shift, N)
        cuts = sorted(rng.choice(A) for _ in range(rng.range(1, 6))) if A else []
    else:
        cuts, pos = [], 0
        while pos < N and len(cuts) < 40:
            step = rng.choice([0, 1, 2, shift - 1, shift, shift + 1, size - 1, size, size + 1, size - shift,
                               rng.range(1, 3 * size), rng.range(1, shift)])
            pos = min(N, pos + max(0, step))
            cuts.append(pos)
    specs, prev = [], 0
    for b in cuts + [N]:
        b = min(max(b, prev), N)
        specs.append((b - prev, gen_limits(rng, stats)))
        prev = b
    if rng.chance(0.15):
        specs.insert(rng.below(len(specs) + 1), (0, gen_limits(rng, stats)))
    return N, specs, endroom, mode


# ---------------------------------------------------------------------------
# size relations: chunk lengths around the integer-width boundaries of the C types

# widths that occur in the sample bookkeeping of fe_interface.c / fe.h: uint8 fields, int16 frame_size /
# frame_shift (and the int16 samples themselves), uint16 = what a careless helper would take, then int /
# int32 / size_t (2^31, 2^32: buffers of 4 GB and more — not run; the width of every count-typed declaration
# is tied statically instead, C06_count_types_at_least_32_bits).  k * 2^16 + small: a count that wrapped
# modulo 2^16 and became *small* again.
WIDTH_BASES = [("2^8", 1 << 8), ("2^15", 1 << 15), ("2^16", 1 << 16), ("2*2^16", 2 << 16), ("3*2^16", 3 << 16),
               ("5*2^16", 5 << 16)]


def py_call_closed(size, shift, o, n, L, slack=1):
    """callClosed of lean/SSVerif/Model/FeBufClosed.lean (used for coverage measurement only, never as an oracle)"""
    if n + o < size:
        return n, 0, o + n, None
    if L == 0:
        return 0, 0, o, None
    f = min(1 + (n + o - size) // shift, L)
    p = size - o + (f - 1) * shift
    if o <= f * shift:
        used, path = p + min(shift - slack, n - p), "create"
    else:
        used, path = min(n, size + f * shift - o - slack), "append"
    return used, f, o + used - f * shift, path


def width_offsets(rng, size, shift, quick):
    """offsets d of the chunk length from a width boundary W (length = W + d): the boundary itself, and the
    relations of (length mod W) to the buffer sizes the C code compares it with"""
    fixed = [-1, 0, 1, rng.range(2, max(2, shift - 1))]
    more = [shift - 1, shift, max(2, size - shift), size - 1, size, rng.range(size, 3 * size), -shift, -size]
    if quick:
        rng.shuffle(more)
        more = more[:2]
    return sorted(set(fixed + more))


def width_carries(rng, size, shift):
    """first-chunk lengths that leave 0, 1, shift-1, shift, size-1 samples carried over (overflow_append), and one
    that leaves size-shift+r after some frames were emitted (create_overflow_frame)"""
    direct = sorted({0, 1, max(0, shift - 1), min(shift, size - 1), size - 1})
    after = size + rng.range(0, 3) * shift + rng.range(0, shift - 1)
    return [(a, "%d" % a if a in (0, 1) else "shift-1" if a == shift - 1 else "shift" if a == shift
             else "size-1" if a == size - 1 else str(a)) for a in direct] + [(after, "after-frames")]


def width_family(rng, cid, sizes, bases, quick, stats, enc_flip):
    """ops for one configuration: for every length L = W + d, every output limit 0..3 of the first call on the long
    chunk and every carried-over count, the schedule  [carry chunk] [L : limit] [tail]"""
    size, shift = sizes[cid]
    ops = [cfg_line(cid, sizes)]
    carries = width_carries(rng, size, shift)
    amax = max(a for a, _ in carries)
    nrun = 0
    for label, W in bases:
        for d in width_offsets(rng, size, shift, quick):
            L = W + d
            if L < 1:
                continue
            t0 = rng.choice([0, 1, shift, size + 1])
            N = L + amax + t0
            ops.append(f"sig {N} {rng.below(1 << 30)} {rng.below(4)}")
            for a, alabel in carries:
                for limit in (0, 1, 2, 3):
                    specs = ([(a, [])] if a else []) + [(L, [limit])]
                    tail = N - a - L
                    if tail:
                        specs.append((tail, []))
                    enc = "if"[(nrun + enc_flip) % 2]
                    ops.append(run_line(enc, 1, specs))
                    nrun += 1
                    stats["runs"] += 1
                    stats["enc"][enc] += 1
                    stats["distinct"].add((cid, N, spec_str(specs), enc))
                    stats["by_boundary"][label] = stats["by_boundary"].get(label, 0) + 1
                    stats["by_limit"][str(limit)] = stats["by_limit"].get(str(limit), 0) + 1
                    stats["by_carry"][alabel] = stats["by_carry"].get(alabel, 0) + 1
                    # which path the limited call takes, and whether a w-bit count of the chunk length would change
                    # what it stashes (measured on the closed form of the model)
                    o = a if a < size else py_call_closed(size, shift, 0, a, 1 << 40)[2]
                    used, f, o2, path = py_call_closed(size, shift, o, L, limit)
                    k = "limited call: " + (path or ("no output room" if limit == 0 and L + o >= size else "buffers only"))
                    stats["paths"][k] = stats["paths"].get(k, 0) + 1
                    for w in (8, 15, 16):
                        if L >= (1 << w) and py_call_closed(size, shift, o, L % (1 << w), limit)[:3] != (used, f, o2):
                            kk = f"{path or 'other'}: a {w}-bit chunk length would change the call"
                            stats["truncation_sensitive"][kk] = stats["truncation_sensitive"].get(kk, 0) + 1
            # two schedules with arbitrary limits and an arbitrary cut of the long chunk
            for _ in range(2):
                a = rng.choice([x for x, _ in carries])
                cut = rng.range(1, L - 1) if L > 2 else L
                specs = ([(a, gen_limits(rng, stats["lim"]))] if a else []) + \
                        [(cut, gen_limits(rng, stats["lim"])), (L - cut, gen_limits(rng, stats["lim"]))]
                if N - a - L:
                    specs.append((N - a - L, []))
                enc = "if"[(nrun + enc_flip) % 2]
                ops.append(run_line(enc, rng.choice([1, 2]), specs))
                nrun += 1
                stats["runs"] += 1
                stats["enc"][enc] += 1
                stats["distinct"].add((cid, N, spec_str(specs), enc))
    return ops


def limit_width_ops(rng, cid, sizes, quick, stats):
    """output limits (and hence frame counts of one call) around 2^8 / 2^15 / 2^16 on a configuration with a tiny
    frame shift: one chunk with more frames than the limit, limit = boundary + {-1, 0, 1}"""
    size, shift = sizes[cid]
    ops = [cfg_line(cid, sizes)]
    for label, W in (("2^8", 1 << 8), ("2^15", 1 << 15), ("2^16", 1 << 16)):
        ds = (-1, 0, 1) if (W <= 256 or not quick) else (rng.choice([-1, 0, 1]),)
        N = size + (W + 40) * shift + rng.range(0, shift - 1)
        ops.append(f"sig {N} {rng.below(1 << 30)} {rng.below(4)}")
        for d in ds:
            a = rng.choice([0, 1, shift, size - 1])
            specs = ([(a, [])] if a else []) + [(N - a, [W + d, 1])]
            enc = rng.choice(["i", "f"])
            ops.append(run_line(enc, 1, specs))
            stats["runs"] += 1
            stats["enc"][enc] += 1
            stats["distinct"].add((cid, N, spec_str(specs), enc))
            stats["limit_boundaries"][label] = stats["limit_boundaries"].get(label, 0) + 1
    return ops


def spec_str(specs):
    return " ".join(f"{n}:{','.join(map(str, ls)) if ls else '-'}" for n, ls in specs)


def run_line(enc, endroom, specs):
    return f"run {enc} {endroom} {spec_str(specs)}".rstrip()


# ---------------------------------------------------------------------------
# measuring which branches of the model a schedule exercised (from the model's own call log)

def classify_calls(line, size, shift, cov):
    o = 0
    for tok in line.split():
        if not tok.startswith("c="):
            continue
        dry, limit, used, nfr, novf = (int(x) for x in tok[2:].split("/"))
        avail = dry - 1
        if used == 0 and nfr == 0 and avail == 0:
            cov["zero-sample call"] = cov.get("zero-sample call", 0) + 1
        if avail == 0:
            cov["overflow_append"] = cov.get("overflow_append", 0) + 1
        elif limit == 0:
            cov["nframes<1 return"] = cov.get("nframes<1 return", 0) + 1
        else:
            cov["first frame from overflow" if o else "first frame from input"] = \
                cov.get("first frame from overflow" if o else "first frame from input", 0) + 1
            if o == size - 1:
                cov["first frame needs 1 input sample"] = cov.get("first frame needs 1 input sample", 0) + 1
            if nfr > 1:
                cov["shift loop >= 1 iteration"] = cov.get("shift loop >= 1 iteration", 0) + 1
            k = "append_overflow_frame" if o - nfr * shift > 0 else "create_overflow_frame"
            cov[k] = cov.get(k, 0) + 1
            if nfr < avail:
                cov[k + " (output-limited)"] = cov.get(k + " (output-limited)", 0) + 1
                if novf >= size - 1:
                    cov[k + " hits the overflow cap"] = cov.get(k + " hits the overflow cap", 0) + 1
            if novf == 0:
                cov["overflow empty after frames (size=shift)"] = cov.get("overflow empty after frames (size=shift)", 0) + 1
        if used > 32767:
            cov["call consumed > 32767 samples"] = cov.get("call consumed > 32767 samples", 0) + 1
        o = novf


# ---------------------------------------------------------------------------
# judging

def refs_ok(notes):
    """the '# refs' line of a sig op: single-call int16 = float32 = canonical windows, count = formula"""
    for n in notes:
        w = n.split()
        if len(w) >= 6 and w[1] == "refs":
            d = dict(x.split("=") for x in w[4:])
            ok = w[2] == w[3] and d["f32"] == "-1" and d["canoni"] == "-1" and d["canonf"] == "-1"
            return ok, n, int(w[2]), int(d.get("distinct", 0)), d.get("finite", "1") == "1"
    return None, "", 0, 0, True


def case_of(ops, idx):
    """the (cfg, sig, run) triple that op number idx belongs to"""
    cfg = sig = None
    for i, op in enumerate(ops[:idx + 1]):
        if op.startswith("cfg "):
            cfg, sig = op, None
        elif op.startswith("sig "):
            sig = op
    return [x for x in (cfg, sig) if x] + ([ops[idx]] if ops[idx].startswith("run ") else [])


def parse_run(op):
    w = op.split()
    specs = []
    for s in w[3:]:
        n, ls = s.split(":")
        specs.append((int(n), [] if ls == "-" else [int(x) for x in ls.split(",")]))
    return w[1], int(w[2]), specs


def eval_case(binp, case):
    """run one (cfg, sig, run) case; returns a dict describing what happened"""
    (rc, out, err), (rc2, mout, merr) = run_both(binp, case)
    il, notes = split_impl(out)
    ml = mout.rstrip("\n").split("\n")
    res = {"rc": rc, "impl": il, "model": ml, "notes": notes, "stderr": err[-1500:]}
    res["crash"] = rc != 0 or len(il) < len(case)
    res["refs_bad"] = False
    for l, n in zip(il, notes):
        if l.startswith("sig "):
            ok, _, _, _, _ = refs_ok(n)
            if ok is False:
                res["refs_bad"] = True
    runl = il[-1] if il and il[-1].startswith("run") else ""
    res["impl_noncanonical"] = (not res["crash"]) and case[-1].startswith("run ") and ("canon=1" not in runl.split())
    res["diverges"] = res["crash"] or il != ml[:len(il)] or len(il) != len(ml)
    res["violates"] = res["crash"] or res["refs_bad"] or res["impl_noncanonical"]
    return res


def d25_class(case, res, sizes_of):
    """witness class: the run ended with num_overflow_samps == frame_size and is exactly one frame short"""
    if res["crash"] or not res["impl_noncanonical"]:
        return False
    runl = res["impl"][-1].split()
    calls = [t for t in runl if t.startswith("c=")]
    size = int(case[0].split()[2])
    last_novf = int(calls[-1].split("/")[-1]) if calls else 0
    cmp = [n for n in res["notes"][-1] if n.startswith("# cmp")]
    if not cmp:
        return False
    w = cmp[0].split()
    return last_novf == size and int(w[3]) + 1 == int(w[5])


def shrink_case(binp, case, pred):
    """delta-debug the chunk list (the signal is a prefix-stable function of its seed) and the limit lists"""
    cfg, sig, runop = case
    enc, endroom, specs = parse_run(runop)
    sw = sig.split()

    def build(sp):
        n = sum(x[0] for x in sp)
        return [cfg, f"sig {n} {sw[2]} {sw[3]}", run_line(enc, endroom, sp)]

    def fails(sp):
        return bool(sp) and pred(eval_case(binp, build(sp)))
    if len(specs) > 1:
        specs = vlib.ddmin(specs, fails, max_tests=60)
    # shorter limit lists, smaller chunks
    for i in range(len(specs)):
        n, ls = specs[i]
        for cand in ([], ls[:1], ls[:-1]):
            if cand != ls:
                trial = specs[:i] + [(n, cand)] + specs[i + 1:]
                if fails(trial):
                    specs, ls = trial, cand
    return build(specs)


class Judge:
    def __init__(self, c, binp):
        self.c, self.binp = c, binp
        self.reported = {}
        self.ok = True
        self.refs = {"signals": 0, "frames": 0, "distinct_adjacent": 0, "nonfinite": 0}
        self.branches = {}
        self.known = []

    def report(self, case, res, label):
        c = self.c
        kind = ("crash" if res["crash"] else "reference-mismatch" if res["refs_bad"]
                else "chunking-dependent" if res["impl_noncanonical"] else "model-divergence")
        is_d25 = d25_class(case, res, None)
        key = FINDING_KEY if is_d25 else kind
        if is_d25 and LEGACY and res["impl"] == res["model"]:
            # accepted finding: the implementation behaves exactly like the model of the pinned tree
            c.violation({"kind": kind, "ops": case}, True, finding_key=FINDING_KEY)
            return
        if self.reported.get(key, 0) >= 1:
            return
        self.reported[key] = self.reported.get(key, 0) + 1
        self.ok = False
        pred = {"crash": lambda r: r["crash"], "reference-mismatch": lambda r: r["refs_bad"],
                "chunking-dependent": lambda r: r["impl_noncanonical"] and not r["crash"],
                "model-divergence": lambda r: r["diverges"]}[kind]
        small = case
        if len(case) == 3:
            try:
                small = shrink_case(self.binp, case, pred)
            except Exception:
                small = case
        res2 = eval_case(self.binp, small)
        if not pred(res2):
            small, res2 = case, res
        (_, lout, _), (_, lm, _) = run_both(self.binp, small, legacy=True)
        c.oblige(f"correspondence model = implementation ({label}, {kind})", False,
                 {"ops": small, "impl": [x[:400] for x in res2["impl"]], "model": [x[:400] for x in res2["model"]]})
        c.violation({"kind": kind, "ops": small,
                     "implementation_output": [x[:2000] for x in res2["impl"]],
                     "oracle_notes": res2["notes"], "exit_code": res2["rc"], "stderr_tail": res2["stderr"],
                     "model_output": [x[:2000] for x in res2["model"]],
                     "model_of_pinned_tree_output": [x[:2000] for x in lm.rstrip("\n").split("\n")],
                     "implementation_violates_property": res2["violates"],
                     "explanation": {
                         "crash": "the library aborted / a sanitizer fired on a valid calling pattern (D9: stale "
                                  "assert(*inout_nsamps <= MAX_INT16) when a call leaves > 32767 samples)",
                         "reference-mismatch": "single-call int16, single-call float32 and the canonical windows read "
                                               "directly do not give bit-identical cepstra",
                         "chunking-dependent": "the cepstra of this schedule differ (memcmp / frame count) from the "
                                               "single-call reference" + (" — D25 class: " + FINDING_KEY if is_d25 else ""),
                         "model-divergence": "per-call (dry, consumed, frames, num_overflow_samps) records differ from the "
                                             "model although the cepstra agree with the reference"}[kind],
                     "how_to_rerun": "python3 tools/check.py C06 --replay <this file>"},
                    res2["violates"], tag=("replay-" + kind), finding_key=(FINDING_KEY if is_d25 else None))

    def batch(self, ops, label, sizes=None):
        """run a batch on both sides; on any problem locate the case(s) and report"""
        c = self.c
        (rc, out, err), (rc2, mout, merr) = run_both(self.binp, ops)
        if rc2 != 0:
            c.oblige(f"model driver runs ({label})", False, merr[-500:])
            self.ok = False
            return
        il, notes = split_impl(out)
        ml = mout.rstrip("\n").split("\n")
        cur_size = cur_shift = None
        bad = []
        for i, op in enumerate(ops):
            if i >= len(il):
                bad.append(i)
                break
            l = il[i]
            if op.startswith("cfg "):
                w = l.split()
                if len(w) == 6:
                    cur_size, cur_shift = int(w[3]), int(w[5])
            if op.startswith("sig "):
                ok, _, nfr, distinct, finite = refs_ok(notes[i])
                if ok is not None:
                    self.refs["signals"] += 1
                    self.refs["frames"] += nfr
                    self.refs["adjacent_pairs"] = self.refs.get("adjacent_pairs", 0) + max(0, nfr - 1)
                    self.refs["distinct_adjacent"] += distinct
                    self.refs["nonfinite"] += 0 if finite else 1
                    if nfr >= 3 and distinct == 0:
                        self.refs.setdefault("vacuous", []).append(case_of(ops, i)[0].split()[1])
                if ok is False:
                    bad.append(i)
                    continue
            if op.startswith("run "):
                if i < len(ml) and cur_size:
                    classify_calls(ml[i], cur_size, cur_shift, self.branches)
                if "canon=1" not in l.split():
                    if LEGACY and i < len(ml) and l == ml[i]:
                        self.known.append(i)
                    else:
                        bad.append(i)
                    continue
            if i >= len(ml) or l != ml[i]:
                bad.append(i)
        for i in self.known[:1]:
            case = case_of(ops, i)
            res = eval_case(self.binp, case)
            if d25_class(case, res, None):
                self.report(case, res, label)
            else:
                bad.append(i)
        self.known = []
        crashed = rc != 0 or len(il) < len(ops)
        for i in bad[:40]:
            case = case_of(ops, i)
            if ops[i].startswith("sig "):
                case = case_of(ops, i)[:1] + [ops[i]]
            res = eval_case(self.binp, case)
            if res["violates"] or res["diverges"]:
                self.report(case, res, label)
        if crashed and len(il) < len(ops):
            # carry on behind the op that killed the harness
            i = len(il)
            if ops[i].startswith("run "):
                rest = case_of(ops, i)[:-1] + ops[i + 1:]
            else:
                # the signal (or configuration) itself killed it: resume at the next signal / configuration
                j = i + 1
                while j < len(ops) and ops[j].startswith("run "):
                    j += 1
                cfgs = [o for o in ops[:i + 1] if o.startswith("cfg ")]
                rest = (cfgs[-1:] if j < len(ops) and not ops[j].startswith("cfg ") else []) + ops[j:]
            if len(rest) > 2 and self.reported.get("crash", 0) <= 1 and getattr(self, "_depth", 0) < 3:
                self._depth = getattr(self, "_depth", 0) + 1
                self.batch(rest, label + " (after crash)")
                self._depth -= 1
        if bad and self.ok:
            # a batch-level difference that no single case reproduces
            c.oblige(f"correspondence ({label})", False, f"batch diverges at ops {bad[:5]} but no single case does")
            self.ok = False


# ---------------------------------------------------------------------------

def exhaustive_ops(cid, sizes, maxn, limit_sets):
    """every partition of every N <= maxn into <= 3 chunks, every combination of the limit lists"""
    ops = [cfg_line(cid, sizes)]
    count = 0
    for N in range(0, maxn + 1):
        ops.append(f"sig {N} {N + 1} {N % 4}")
        parts = [[N]] + [[a, N - a] for a in range(0, N + 1)] + \
                [[a, b, N - a - b] for a in range(0, N + 1) for b in range(0, N - a + 1)]
        for p in parts:
            combos = [[]]
            for _ in p:
                combos = [x + [ls] for x in combos for ls in limit_sets]
            for combo in combos:
                ops.append(run_line("i", 1, list(zip(p, combo))))
                count += 1
    return ops, count


def check(c):
    c.trusted += ["harness/h_c06.c + tools/props/c06.py (schedule generator, diff, bitwise comparison)",
                  "determinism of the compiled per-frame computation (fe_spch_to_frame .. fe_write_frame, incl. the "
                  "noise tracker) as a function of the (window, prior) sequence — the Lean model treats it as opaque",
                  "clang ASan/UBSan as observer of reads outside the buffer handed to a call",
                  "parametricity: the model is polymorphic in the sample type, the theorems are stated for index samples",
                  "tools/gen_fewidths.py (clang-14 JSON AST -> Generated/FeWidths.lean; role classification sample/byte/count)"]
    c.assumptions += ["chunk independence is claimed with dither off only: with dither on the number of random draws per "
                      "frame differs between fe_read_frame_* (whole window: first frame of a call, read_overflow_frame, "
                      "fe_end) and fe_shift_frame_* (frame_shift new samples), so the frames depend on the chunking by "
                      "design (probe recorded in swap_family.dither_chunk_dependence_probe); what IS covered under dither "
                      "(C06Swap + byte-order family): placement of every sample, host-order values in fe->spch, and "
                      "bitwise equality of the byte-swapped run with the host-order run under the same seed",
                      "byte order: covered for both values of input_endian (C06Swap; byte-order family runs the "
                      "opposite-order front end on byte-reversed samples); the model/implementation correspondence runs "
                      "and the width families themselves use input_endian = host order",
                      "fe_end is given room for at least one frame (acmod_end_utt with a full MFCC ring is C07's concern)",
                      "frame_size >= frame_shift >= 1 as enforced by fe_init; chunk lengths < 2^31 (int casts in fe_process): "
                      "C06_quantities_fit_c_types proves that below that bound every per-call quantity of the model fits a "
                      "32-bit int, C06_count_types_at_least_32_bits ties the widths of the C declarations (clang AST); "
                      "chunks of 2^31 samples and more are not run and not claimed"]
    if not c.lean_obligations():
        # a proof or a source tie (e.g. C06_count_types_at_least_32_bits against the regenerated declaration widths) no
        # longer checks; that is reported by its own obligation.  If the model driver was built, the search for a
        # failing input goes on regardless, so that the report can carry a concrete replay.
        if not any(n.startswith("lake build of the model driver") and ok for n, ok, _ in c.obligations):
            return
    binp = harness(c)
    # the int16 <-> float32 scaling is exact for all 65536 sample values (finite: a test)
    rc, out, err = vlib.run_bin(binp, stdin_text="rt\n")
    c.oblige("test: (float32)s/32768*32768 == (float32)s == s for all 65536 int16 values, both spellings of the scaling",
             rc == 0 and out.strip() == "rt 65536 bad 0", out + err[-300:])
    sizes, (rc, out, err) = query_sizes(binp)
    c.oblige(f"all {len(CONFIGS)} front-end configurations initialise", rc == 0 and len(sizes) == len(CONFIGS),
             out[-800:] + err[-400:])
    if len(sizes) != len(CONFIGS):
        return
    J = Judge(c, binp)
    stats = {"modes": {}, "limits": {}, "chunks": 0, "calls_max": 0, "configs": {}, "enc": {"i": 0, "f": 0},
             "chunk_len_classes": {}}
    # corpus first
    corpus = sorted((vlib.ROOT / "corpus" / "C06").glob("*.ops"))
    ncorp = 0
    for f in corpus:
        ops = [l for l in f.read_text().split("\n") if l.strip() and not l.startswith("#")]
        ncorp += sum(1 for o in ops if o.startswith("run "))
        J.batch(ops, f"corpus {f.name}")
    # size relations: chunk lengths / output limits around the integer-width boundaries (own random stream, so the
    # schedules below are the same as before for a given seed)
    wstats = {"runs": 0, "enc": {"i": 0, "f": 0}, "by_boundary": {}, "by_limit": {}, "by_carry": {}, "paths": {},
              "truncation_sensitive": {}, "limit_boundaries": {}, "configs": [], "lim": {"limits": {}},
              "distinct": set()}
    wrng = vlib.Rng(c.seed * 1000003 + 606)
    quick = c.tier == "quick"
    B = dict(WIDTH_BASES)
    if quick:
        # every offset at 2^16 on the default front end; a sample of the offsets at the other boundaries / front ends
        plan = [("default", ["2^16"], False), ("default", ["2^15"], True),
                ("fr50", [wrng.choice(["2*2^16", "3*2^16"])], True),
                (wrng.choice(["r8k", "r11k", "w50", "nolap", "fr200", "noise"]), ["2^16"], True),
                (wrng.choice(["tiny", "tinynoise", "small"]), ["2^8"], False)]
    else:
        plan = [(cid, [k for k in B if k != "2^8"], False) for cid in ("default", "r8k", "r11k", "fr50", "w50", "nolap",
                                                                        "fr200", "noise", "r44k")] + \
               [(cid, ["2^8"] + (["2^15", "2^16"] if cid == "small" else []), False) for cid in ("tiny", "tinynoise", "small")]
    for i, (cid, labels, few) in enumerate(plan):
        if not J.ok:
            break
        wstats["configs"].append(f"{cid}: {'/'.join(labels)}")
        ops = width_family(wrng, cid, sizes, [(k, B[k]) for k in labels], few, wstats, c.seed + i)
        J.batch(ops, f"size-relation family, configuration {cid}, chunk lengths around {'/'.join(labels)}")
    if J.ok:
        J.batch(limit_width_ops(wrng, "tiny", sizes, quick, wstats), "size-relation family, output limits around 2^8/2^15/2^16")
    c.oblige("size-relation family: chunk lengths around the integer-width boundaries (2^8, 2^15, 2^16, k*2^16 + small) "
             "x output limits 0..3 x carried-over counts (0, 1, shift-1, shift, size-1, after frames): implementation = "
             "model (closed form, C06_call_log_closed) and cepstra bitwise = single-call reference", J.ok,
             {k: v for k, v in wstats.items() if k not in ("lim", "distinct")})
    nsched = 6000 if c.tier == "quick" else 120000
    distinct = set()
    evaluations = ncorp + wstats["runs"]
    per_batch = 600 if c.tier == "quick" else 2000
    done = 0
    big_budget = 12 if c.tier == "quick" else 200
    while done < nsched and J.ok:
        ops = []
        n_here = 0
        while n_here < per_batch and done < nsched:
            cid = CONFIGS[(done // 4) % len(CONFIGS)][0] if c.rng.chance(0.6) else c.rng.choice(CONFIGS)[0]
            size, shift = sizes[cid]
            ops.append(cfg_line(cid, sizes))
            stats["configs"][cid] = stats["configs"].get(cid, 0) + 1
            for _ in range(c.rng.range(1, 3)):
                allow_big = big_budget > 0 and size >= 100
                N, specs, endroom, mode = gen_schedule(c.rng, size, shift, stats, allow_big)
                if mode == "big":
                    big_budget -= 1
                ops.append(f"sig {N} {c.rng.below(1 << 30)} {c.rng.below(4)}")
                variants = [specs]
                if c.rng.chance(0.5):
                    N2, specs2, _, _ = N, [(n, gen_limits(c.rng, stats)) for n, _ in specs], 0, 0
                    variants.append(specs2)
                for sp in variants:
                    for enc in (("i", "f") if c.rng.chance(0.7) else (c.rng.choice(["i", "f"]),)):
                        ops.append(run_line(enc, endroom, sp))
                        stats["enc"][enc] += 1
                        evaluations += 1
                        distinct.add((size, shift, N, spec_str(sp), enc))
                    stats["chunks"] += len(sp)
                    for n, _ in sp:
                        k = ("0" if n == 0 else "1" if n == 1 else "<shift" if n < shift else "<size" if n < size
                             else "<=3*size" if n <= 3 * size else ">32767" if n > 32767 else ">3*size")
                        stats["chunk_len_classes"][k] = stats["chunk_len_classes"].get(k, 0) + 1
                if len(c.samples) < 6:
                    c.samples.append({"cfg": cid, "size": size, "shift": shift, "N": N, "mode": mode,
                                      "schedule": spec_str(specs)[:300]})
                n_here += 1
                done += 1
        J.batch(ops, f"generated batch ending at schedule {done}")
    exhaustive = 0
    if J.ok and c.tier == "thorough":
        # small scope, exhaustively: every partition of every N <= 3*size into <= 3 chunks
        for cid, lsets in (("tiny", [[], [0], [1], [1, 1], [2]]), ("tinynoise", [[], [1], [2]])):
            size, shift = sizes[cid]
            ops, cnt = exhaustive_ops(cid, sizes, 3 * size, lsets)
            head = ops[0]
            step = 60000
            i = 1
            while i < len(ops) and J.ok:
                chunk = ops[i:i + step]
                # a chunk must start with a sig line
                j = i
                while not ops[j].startswith("sig "):
                    j -= 1
                pre = [head] + ([ops[j]] if j < i else [])
                J.batch(pre + chunk, f"exhaustive {cid} ops {i}..{i + len(chunk)}")
                i += step
            exhaustive += cnt
    c06swap.swap_family(c, binp, vlib.Rng(c.seed * 7919 + 606), sizes, quick, dict(CONFIGS))  # records c.cov["swap_family"]
    c.oblige("correspondence: per-call (dry-run count, consumed, frames, num_overflow_samps) of the real fe_process_* / "
             "fe_end = model on every schedule", J.ok)
    c.oblige("oracle: cepstra of every schedule (int16 and float32 entry points) bitwise equal to the single-call "
             "reference; single-call int16 = single-call float32 = canonical windows read directly", J.ok)
    disc = J.refs["distinct_adjacent"] / max(1, J.refs.get("adjacent_pairs", 0))
    c.oblige("the bitwise comparison is discriminating: > 90% of adjacent reference frames differ bitwise",
             (J.refs.get("adjacent_pairs", 0) == 0 or disc > 0.9)
             and not J.refs.get("vacuous"), J.refs)
    c.cov.update({"evaluations": evaluations + exhaustive, "distinct_nontrivial": len(distinct) + len(wstats["distinct"]) + exhaustive,
                  "rule": "a schedule = (front-end configuration, signal, partition into chunks, per-call output limits, "
                          "encoding); distinct = distinct (size, shift, N, partition+limits, encoding); non-trivial: "
                          "every schedule makes the model take a path through fe_process that the per-call records "
                          "identify (table model_branches_hit)",
                  "front_end_configurations": len(CONFIGS), "schedules_per_configuration": stats["configs"],
                  "frame_size_shift": {k: list(v) for k, v in sizes.items()},
                  "generator_modes": stats["modes"], "limit_values": stats["limits"],
                  "chunk_length_classes": stats["chunk_len_classes"], "chunks": stats["chunks"],
                  "encodings": stats["enc"], "model_branches_hit": J.branches,
                  "size_relation_family": {k: v for k, v in wstats.items() if k not in ("lim", "distinct")},
                  "reference_signals": J.refs, "exhaustive_small_scope_schedules": exhaustive, "corpus_runs": ncorp})


def replay(c, path):
    c.lean_obligations()
    binp = harness(c)
    obj = json.loads(open(path).read())
    if str(obj.get("kind", "")).startswith("swap-"):
        return c06swap.replay_swap(c, binp, obj)
    ops = obj["ops"]
    J = Judge(c, binp)
    res = eval_case(binp, ops)
    if res["violates"] or res["diverges"]:
        J.report(ops, res, "replay")
    c.oblige("replayed schedule: implementation = model and cepstra = single-call reference", J.ok,
             {"impl": [x[:400] for x in res["impl"]], "model": [x[:400] for x in res["model"]]})
    c.cov.update({"evaluations": 1, "distinct_nontrivial": 1})
